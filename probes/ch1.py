from nifty.cl.utilities import shareRange

def _contig(nwork: int, nshares: int, i: int) -> bool:
    """
    pre: 0 <= nwork <= 64
    pre: 1 <= nshares <= 8
    pre: 0 <= i < nshares - 1
    post: _
    """
    lo, hi = shareRange(nwork, nshares, i)
    lo2, hi2 = shareRange(nwork, nshares, i + 1)
    return hi == lo2 and lo <= hi and 0 <= hi - lo - nwork // nshares <= 1

def _ends(nwork: int, nshares: int) -> bool:
    """
    pre: 0 <= nwork
    pre: 1 <= nshares
    post: _
    """
    return shareRange(nwork, nshares, 0)[0] == 0 and shareRange(nwork, nshares, nshares - 1)[1] == nwork
