import jax, jax.numpy as jnp, numpy as np
jax.config.update("jax_enable_x64", True)
from collections import Counter
from nifty.re import conjugate_gradient as cgm
import nifty.re as jft
def prims(jaxpr, c=None):
    c = Counter() if c is None else c
    for e in jaxpr.eqns:
        c[e.primitive.name]+=1
        for v in e.params.values():
            for sub in (v if isinstance(v,(list,tuple)) else [v]):
                if hasattr(sub,'jaxpr'): prims(sub.jaxpr if hasattr(sub.jaxpr,'eqns') else sub.jaxpr.jaxpr, c)
                elif hasattr(sub,'eqns'): prims(sub,c)
    return c
def f(d, j, res):
    r = cgm._static_cg(lambda x: d*x, j, resnorm=res, maxiter=3, miniter=0, _raise_nonposdef=False)
    return r.x, r.info, r.nit
jp = jax.make_jaxpr(f)(jnp.ones(2), jnp.ones(2), 0.1)
print("static_cg:", dict(prims(jp.jaxpr)))
from nifty.re.multi_grid import grid as g
G = g.Grid(shape0=(2,3), splits=((2,2),(3,2)))
l1 = G.at(1)
idx = jnp.array([[1],[2]])
jp = jax.make_jaxpr(lambda i: (l1.parent(i), l1.children(i)))(idx)
print("grid:", dict(prims(jp.jaxpr)))
print(jp)
from nifty.re import gauss_markov as gm
jp = jax.make_jaxpr(gm.ornstein_uhlenbeck_process)(jnp.ones(3), 0.5, 1.0, 0.3, jnp.ones(3))
print("OU:", dict(prims(jp.jaxpr)))
jp = jax.make_jaxpr(gm.integrated_wiener_process)(jnp.ones((3,2)), jnp.ones(2), 1.0, jnp.ones(3), 0.1)
print("IWP:", dict(prims(jp.jaxpr)))
