import jax, jax.numpy as jnp, numpy as np, z3, time
jax.config.update("jax_enable_x64", True)
from jax.extend.core import Primitive
from jax.interpreters import mlir
from nifty.re import hmc
uf_p = Primitive("uf")
uf_p.def_abstract_eval(lambda x, *, name, shape: jax.core.ShapedArray(shape, x.dtype))
def G(q): return uf_p.bind(q, name="G", shape=q.shape)
def kin_grad(im, p): return im * p
def rev(eps, im, q, p):
    qp = hmc.QP(q, p)
    a = hmc.leapfrog_step(G, kin_grad, eps, im, qp)
    b = hmc.leapfrog_step(G, kin_grad, eps, im, hmc.flip_momentum(a))
    c = hmc.flip_momentum(b)
    return c.position, c.momentum
n = 2
jp = jax.make_jaxpr(rev)(1.0, jnp.ones(n), jnp.ones(n), jnp.ones(n))
print(jp)
