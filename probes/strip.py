import ast, sys
src = open(sys.argv[1]).read()
tree = ast.parse(src)
for node in ast.walk(tree):
    if isinstance(node, (ast.FunctionDef, ast.ClassDef, ast.AsyncFunctionDef, ast.Module)):
        if node.body and isinstance(node.body[0], ast.Expr) and isinstance(getattr(node.body[0], 'value', None), ast.Constant) and isinstance(node.body[0].value.value, str):
            node.body[0] = ast.Pass() if len(node.body) == 1 else None
            node.body = [b for b in node.body if b is not None]
print(ast.unparse(tree))
