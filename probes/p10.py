import z3, time
x,y,a,b,eps = z3.Reals("x y a b eps")
# ITE-merged 2-step "loop": s1 = If(c0, f(s0), s0)
def step(s, d):
    q = a*d
    curv = d*q
    alpha = (s*s)/curv
    return s - alpha*q, d*((s-alpha*q)*(s-alpha*q)/(s*s)) + (s-alpha*q)
s0, d0 = x, x
c0 = s0*s0 > eps
s1n, d1n = step(s0, d0)
s1 = z3.If(c0, s1n, s0); d1 = z3.If(c0, d1n, d0)
c1 = z3.And(c0, s1*s1 > eps)
s2n, d2n = step(s1, d1)
s2 = z3.If(c1, s2n, s1)
for tac in ["qfnra-nlsat", "default"]:
    s = z3.Tactic(tac).solver() if tac != "default" else z3.Solver()
    s.set("timeout", 30000)
    s.add(a > 0, eps > 0, x != 0)
    s.add(s2*s2 > eps)   # 1-D CG converges in one step: residual 0 => must be unsat
    t=time.time(); print(tac, s.check(), round(time.time()-t,2))
# UF + nlsat?
f = z3.Function("f", z3.RealSort(), z3.RealSort())
s = z3.Tactic("qfnra-nlsat").solver(); s.add(f(x)*f(x) < 0)
try: print("uf nlsat", s.check())
except Exception as e: print("uf nlsat exc", e)
s = z3.Solver(); s.set("timeout", 10000); s.add(x*f(x)*eps != eps*f(x)*x); print("uf default", s.check())
import cvc5; print("cvc5", cvc5.__version__ if hasattr(cvc5,'__version__') else 'ok')
