import numpy as np, z3, time, nifty.cl as ift
from eng import *
import nifty.cl.any_array as aa
aa.cpu_vdot = lambda a,b: np.sum(np.conjugate(a)*b)
# UF exp/log as methods
EXP = z3.Function("exp", z3.RealSort(), z3.RealSort()); LOG = z3.Function("log", z3.RealSort(), z3.RealSort())
S.exp = lambda self: S(EXP(self.e)); S.log = lambda self: S(LOG(self.e))
def run():
    d1 = ift.UnstructuredDomain(2)
    dom = ift.MultiDomain.make({"a": d1, "b": d1})
    a = ift.FieldAdapter(d1, "a"); b = ift.FieldAdapter(d1, "b")
    op = (a.exp() * b + b**2)
    dat = ift.makeField(d1, sarr("dat", (2,)))
    icov = ift.makeOp(ift.makeField(d1, sarr("n", (2,))))
    lh = ift.GaussianEnergy(dat, icov) @ op
    H = ift.StandardHamiltonian(lh)
    x = ift.MultiField.from_dict({"a": ift.makeField(d1, sarr("xa", (2,))), "b": ift.makeField(d1, sarr("xb", (2,)))})
    lin = H(ift.Linearization.make_var(x, want_metric=True))
    g = lin.gradient
    dx = ift.MultiField.from_dict({"a": ift.makeField(d1, sarr("da", (2,))), "b": ift.makeField(d1, sarr("db", (2,)))})
    m = lin.metric(dx)
    # const simplification
    c = x.extract_by_keys(["a"])
    _, H2 = H.simplify_for_constant_input(c)
    lin2 = H2(ift.Linearization.make_var(x.extract_by_keys(["b"]), want_metric=True))
    return lin.val.val.val[()], g, m, lin2.val.val.val[()], lin2.gradient
t=time.time()
paths, left = explore(run, [])
print(len(paths), time.time()-t)
for c,res,err in paths:
    if err:
        import traceback; traceback.print_exception(err); continue
    v,g,m,v2,g2 = res
    print("val", z3.simplify(v.e))
    print("g_a0", z3.simplify(g["a"].raw[0].e))
    print("m_b0", z3.simplify(m["b"].raw[0].e))
    s = z3.Solver(); s.add(*c.pc); s.add(z3.Or(v.e != v2.e, *[p.e != q.e for p,q in zip(g["b"].raw, g2["b"].raw)]))
    print("const-simplify consistent:", s.check())
