import jax, jax.numpy as jnp
jax.config.update("jax_enable_x64", True)
import nifty.re as jft
from nifty.re import optimize, conjugate_gradient as cgm
f = lambda x: jnp.sum(jnp.cos(x))
x0 = jnp.array([0.3])
for nm, fn in [("eager", optimize._newton_cg), ("static", optimize._static_newton_cg)]:
    try:
        r = fn(f, x0, maxiter=5, hessp=lambda p, v: jax.jvp(jax.grad(f), (p,), (v,))[1])
        print(nm, r.x, r.fun, r.status, r.nit)
    except Exception as e:
        print(nm, "EXC", type(e).__name__, e)
# CG directly
mat = lambda x: -x
j = jnp.array([1.0])
for nm, fn in [("eager", cgm._cg), ("static", cgm._static_cg)]:
    r = fn(mat, j, _raise_nonposdef=False)
    E = 0.5*jnp.vdot(r.x, mat(r.x)) - jnp.vdot(r.x, j)
    print(nm, r.x, r.info, r.nit, "E", E)
