import z3, time
u,v,x = z3.Reals("u v x")
ax = [u*v == 1, u > 0, v > 0]
tanh = (u - v)/(u + v)
# quotient rule: num' = u+v, den' = u - v
dtanh = ((u+v)*(u+v) - (u-v)*(u-v))/((u+v)*(u+v))
nifty = 1 - tanh*tanh
for tac in ["qfnra-nlsat"]:
    s = z3.Tactic(tac).solver(); s.add(*ax); s.add(dtanh != nifty)
    t=time.time(); print("tanh", s.check(), round(time.time()-t,3))
# sigmoid: value .5+.5 tanh ; deriv nifty .5 - .5 tanh^2 ; ref = .5*dtanh
s = z3.Tactic("qfnra-nlsat").solver(); s.add(*ax); s.add(0.5*dtanh != 0.5 - 0.5*tanh*tanh); print("sigmoid", s.check())
# tan: S,C with S^2+C^2=1 ; nifty 1/C^2 ; ref (C*C + S*S)/C^2
S,C = z3.Reals("S C")
s = z3.Tactic("qfnra-nlsat").solver(); s.add(S*S+C*C==1, C!=0); s.add((C*C+S*S)/(C*C) != 1/(C*C)); print("tan", s.check())
# softplus middle: value log(1+e^x); nifty deriv 1/(1+e^-x); ref e^x/(1+e^x)
s = z3.Tactic("qfnra-nlsat").solver(); s.add(*ax); s.add(u/(1+u) != 1/(1+v)); print("softplus", s.check())
# Bernoulli metric: f = -2 atan(sqrt((1-p)/p)); J = -2 * 1/(1+w^2) * 1/(2w) * d((1-p)/p) ; d = -1/p^2 ; metric J^2 = 1/(p(1-p))
p,w = z3.Reals("p w")
J = -2 * (1/(1+w*w)) * (1/(2*w)) * (-1/(p*p))
s = z3.Tactic("qfnra-nlsat").solver(); s.add(p>0,p<1,w>=0,w*w==(1-p)/p); s.add(J*J != 1/(p*(1-p)))
t=time.time(); print("bernoulli", s.check(), round(time.time()-t,3))
