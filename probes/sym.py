"""Probe: symbolic complex/real scalars over z3 Reals living in numpy object arrays."""
import numbers
import z3
import numpy as np


def _r(v):
    if isinstance(v, z3.ArithRef):
        return v
    if isinstance(v, (int, np.integer)):
        return z3.RealVal(int(v))
    if isinstance(v, (float, np.floating)):
        from fractions import Fraction
        f = Fraction(float(v))
        return z3.RealVal(f.numerator) / z3.RealVal(f.denominator) if f.denominator != 1 else z3.RealVal(f.numerator)
    raise TypeError(type(v))


class Sym(numbers.Number):
    """complex number re + i im with z3 real parts"""
    __array_priority__ = 1000

    def __init__(self, re, im=0):
        self.re = z3.simplify(_r(re))
        self.im = z3.simplify(_r(im))

    @staticmethod
    def lift(o):
        if isinstance(o, Sym):
            return o
        if isinstance(o, (complex, np.complexfloating)):
            return Sym(o.real, o.imag)
        if isinstance(o, (int, float, np.integer, np.floating, bool, np.bool_)):
            return Sym(o)
        return None

    def __add__(self, o):
        o = Sym.lift(o)
        if o is None:
            return NotImplemented
        return Sym(self.re + o.re, self.im + o.im)
    __radd__ = __add__

    def __neg__(self):
        return Sym(-self.re, -self.im)

    def __pos__(self):
        return self

    def __sub__(self, o):
        o = Sym.lift(o)
        if o is None:
            return NotImplemented
        return Sym(self.re - o.re, self.im - o.im)

    def __rsub__(self, o):
        o = Sym.lift(o)
        if o is None:
            return NotImplemented
        return o - self

    def __mul__(self, o):
        o = Sym.lift(o)
        if o is None:
            return NotImplemented
        return Sym(self.re*o.re - self.im*o.im, self.re*o.im + self.im*o.re)
    __rmul__ = __mul__

    def __truediv__(self, o):
        o = Sym.lift(o)
        if o is None:
            return NotImplemented
        d = o.re*o.re + o.im*o.im
        n = self * o.conjugate()
        return Sym(n.re/d, n.im/d)

    def __rtruediv__(self, o):
        o = Sym.lift(o)
        if o is None:
            return NotImplemented
        return o / self

    def conjugate(self):
        return Sym(self.re, -self.im)

    @property
    def real(self):
        return Sym(self.re)

    @property
    def imag(self):
        return Sym(self.im)

    def __pow__(self, n):
        if isinstance(n, (int, np.integer)) or (isinstance(n, float) and n == int(n)):
            n = int(n)
            if n < 0:
                return 1 / (self ** (-n))
            r = Sym(1)
            for _ in range(n):
                r = r * self
            return r
        raise TypeError("pow")

    def __repr__(self):
        return f"Sym({self.re}, {self.im})"


def symarr(name, shape, cplx=False):
    a = np.empty(shape, dtype=object)
    for idx in np.ndindex(*shape):
        n = name + "_" + "_".join(map(str, idx))
        a[idx] = Sym(z3.Real(n + "r"), z3.Real(n + "i") if cplx else 0)
    return a
