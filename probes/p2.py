import numpy as np, z3, nifty.cl as ift, time
from sym import Sym, symarr
import nifty.cl.any_array as aa
aa.cpu_vdot = lambda a,b: np.sum(np.conjugate(a)*b)
dom = ift.UnstructuredDomain(1)
x = ift.makeField(dom, symarr("x", (1,), True))
d = ift.makeField(dom, symarr("d", (1,), True))
y = ift.makeField(dom, symarr("y", (1,), True))
D = ift.makeOp(d)
S = ift.ScalingOperator(dom, 2.5)
for name, op in [("D", D), ("Dinv", D.inverse), ("D+S", D+S), ("chain", (D + S) @ D.inverse), ("full",(D + S) @ D.inverse - S.adjoint)]:
    lhs = y.s_vdot(op(x)); rhs = op.adjoint(y).s_vdot(x)
    s = z3.Solver()
    s.add(z3.Or(lhs.re != rhs.re, lhs.im != rhs.im))
    for v in d.raw: s.add(z3.Or(v.re != 0, v.im!=0))
    r = s.check()
    print(name, r, type(op).__name__)
    if r == z3.sat:
        m = s.model()
        print({str(k): m[k] for k in m.decls() if k.arity()==0})
        print(m.eval(lhs.re), m.eval(rhs.re), m.eval(lhs.im), m.eval(rhs.im))
        print(op.adjoint(y).raw)
        print(op(x).raw)
