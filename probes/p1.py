import numpy as np, z3, nifty.cl as ift, time
from sym import Sym, symarr
import nifty.cl.any_array as aa
aa.cpu_vdot = lambda a,b: np.sum(np.conjugate(a)*b)
dom = ift.UnstructuredDomain(3)
x = ift.makeField(dom, symarr("x", (3,), True))
d = ift.makeField(dom, symarr("d", (3,), True))
D = ift.makeOp(d)
S = ift.ScalingOperator(dom, 2.5)
op = (D + S) @ D.inverse - S.adjoint
y = ift.makeField(dom, symarr("y", (3,), True))
t=time.time()
lhs = y.s_vdot(op(x)); rhs = op.adjoint(y).s_vdot(x)
print(type(lhs))
s = z3.Solver()
s.add(z3.Or(lhs.re != rhs.re, lhs.im != rhs.im))
for v in d.raw: s.add(z3.Or(v.re != 0, v.im!=0))
print(s.check(), time.time()-t)
# inverse check
t=time.time()
z = op.inverse(op(x))
s = z3.Solver()
s.add(z3.Or(*[z3.Or(a.re!=b.re, a.im!=b.im) for a,b in zip(z.raw, x.raw)]))
for v in d.raw: s.add(z3.Or(v.re != 0, v.im!=0))
print(s.check(), time.time()-t)
if s.check()==z3.sat: print(s.model())
