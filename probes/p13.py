import numpy as np, z3, time, builtins, nifty.cl as ift
from eng import *
import nifty.cl.any_array as aa
aa.cpu_vdot = lambda a,b: np.sum(np.conjugate(a)*b)
import nifty.cl.minimization.line_search as ls
import nifty.cl.minimization.energy_adapter as ea
class NPshim:
    def __getattr__(self, k): return getattr(np, k)
    @staticmethod
    def isnan(x): return False if isinstance(x, S) else np.isnan(x)
    @staticmethod
    def isfinite(x): return True if isinstance(x, S) else np.isfinite(x)
    @staticmethod
    def abs(x): return abs(x)
    @staticmethod
    def empty(shape, dtype=None): return np.empty(shape, dtype=object)
    @staticmethod
    def sqrt(x):
        if isinstance(x, S):
            if x < 0: raise FloatingPointError("sqrt neg")
            return x.sqrt()
        return np.sqrt(x)
ls.np = NPshim(); ea.np = NPshim()
ls.float = lambda x: x if isinstance(x, S) else builtins.float(x)
# pow for Sym with float exponent in ptw power
import sys
maxit, maxzoom = int(sys.argv[1]), int(sys.argv[2])
d = ift.UnstructuredDomain(1)
c = {k: S(z3.Real(k)) for k in ["c1","c2","c3","c4","x0","p"]}
def run():
    x = ift.ScalingOperator(d, 1.)
    op = (x**4).scale(c["c4"]) + (x**3).scale(c["c3"]) + (x**2).scale(c["c2"]) + x.scale(c["c1"])
    op = op.sum()
    pos = ift.makeField(d, np.array([c["x0"]], dtype=object))
    E = ift.EnergyAdapter(pos, op, want_metric=False)
    pk = ift.makeField(d, np.array([c["p"]], dtype=object))
    L = ift.LineSearch(max_iterations=maxit, max_zoom_iterations=maxzoom, preferred_initial_step_size=1.0)
    en, ok = L.perform_line_search(E, pk)
    return en.position.raw[0], ok
t=time.time()
paths, left = explore(run, [], maxpaths=400)
print("paths", len(paths), "left", len(left), round(time.time()-t,1))
import collections
print(collections.Counter((type(e).__name__ if e else ("ok" if r[1] else "fail")) for _,r,e in paths))
for cx,res,err in paths:
    if err is not None and not isinstance(err,(ValueError,)): 
        import traceback; traceback.print_exception(err); break
# Wolfe on success paths
nok=0; tt=time.time()
for cx,res,err in paths:
    if err or not res[1]: continue
    xr = res[0]; x0,p = c["x0"], c["p"]
    phi = lambda x: c["c4"]*x**4 + c["c3"]*x**3 + c["c2"]*x**2 + c["c1"]*x
    dphi = lambda x: (4*c["c4"]*x**3 + 3*c["c3"]*x**2 + 2*c["c2"]*x + c["c1"])*p
    a = z3.Real("alpha")
    s = z3.Tactic("qfnra-nlsat").solver(); s.set("timeout", 60000)
    s.add(*cx.pc); s.add(*cx.side); s.add(xr.e == x0.e + a*p.e, p.e != 0)
    c1_, c2_ = z3.Q(1,10000), z3.Q(9,10)
    wolfe = z3.And(phi(xr).e <= phi(x0).e + c1_*a*dphi(x0).e, z3.If(dphi(xr).e>=0, dphi(xr).e, -dphi(xr).e) <= -c2_*dphi(x0).e)
    s.add(z3.Not(wolfe))
    r = s.check(); nok += (r==z3.unsat)
    if r != z3.unsat: print("  path", cx.taken, r)
print("success paths proven:", nok, round(time.time()-tt,1))
