import numpy as np, z3, time, nifty.cl as ift
from eng import *
import nifty.cl.any_array as aa
aa.cpu_vdot = lambda a,b: np.sum(np.conjugate(a)*b)
np_isnan = np.isnan
import nifty.cl.minimization.conjugate_gradient as cgm
class NPshim:
    def __getattr__(self, k): return getattr(np, k)
    @staticmethod
    def isnan(x): return False if isinstance(x, S) else np_isnan(x)
cgm.np = NPshim()
import sys
n = int(sys.argv[1]); itlim = int(sys.argv[2])
dom = ift.UnstructuredDomain(n)
dv = sarr("d", (n,)); bv = sarr("b", (n,)); tol = S(z3.Real("tol"))
assm = [x.e > 0 for x in dv] + [tol.e > 0]
def run():
    A = ift.makeOp(ift.makeField(dom, dv)); b = ift.makeField(dom, bv)
    ic = ift.GradientNormController(tol_abs_gradnorm=tol, iteration_limit=itlim)
    E = ift.QuadraticEnergy(ift.full(dom, 0.), A, b)
    e, stat = ift.ConjugateGradient(ic)(E)
    return e, stat, ic._itcount
t = time.time()
paths, left = explore(run, assm)
print("paths", len(paths), "left", len(left), time.time()-t)
for c, res, err in paths:
    if err is not None: print("ERR", type(err).__name__, err); continue
    e, stat, itc = res
    x = e.position.raw
    # fresh residual
    r = [dv[i]*x[i] - bv[i] for i in range(n)]
    nrm2 = sum((ri*ri for ri in r), S(0))
    t0 = time.time()
    s = z3.Solver(); s.set("timeout", 60000)
    s.add(*c.pc); s.add(*c.side)
    if stat == 0:
        s.add(z3.And(nrm2.e > tol.e*tol.e, itc < itlim))
    else:
        s.add(z3.BoolVal(False))
    print("path", c.taken, "stat", stat, "it", itc, "->", s.check(), round(time.time()-t0,2))
import traceback
for c,res,err in paths:
    if err: traceback.print_exception(err)
