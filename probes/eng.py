"""probe engine: Sym real scalars w/ forking on __bool__ by path replay."""
import numbers, z3, numpy as np
from fractions import Fraction

import os
LETDIV = bool(int(os.environ.get("LETDIV","0")))
class Ctx:
    cur = None
    def __init__(self, prefix, assumptions=()):
        self.prefix = list(prefix); self.taken = []; self.pc = list(assumptions); self.pending = []
        self.solver = z3.Solver(); self.solver.set("timeout", 20000)
        for a in assumptions: self.solver.add(a)
        self.side = []   # definedness conditions
        self.nfresh = 0
    def chk(self, cond):
        import time
        t0=time.time()
        s = z3.Tactic(os.environ.get("TAC","qfnra-nlsat")).solver(); s.set("timeout", 60000)
        s.add(*self.pc); s.add(cond)
        r = s.check()
        if os.environ.get("DUMP") and r == z3.unknown:
            open("/tmp/probe/q.smt2","w").write(s.to_smt2())
        print("   chk", r, round(time.time()-t0,2), flush=True)
        return r
    def fresh(self, base="t"):
        self.nfresh += 1
        return z3.Real(f"__{base}{self.nfresh}")
    def assume(self, c):
        self.pc.append(c); self.solver.add(c)
    def branch(self, cond):
        cond = z3.simplify(cond)
        if z3.is_true(cond): return True
        if z3.is_false(cond): return False
        i = len(self.taken)
        if i < len(self.prefix):
            v = self.prefix[i]
        else:
            # feasibility
            st = self.chk(cond); sf = self.chk(z3.Not(cond))
            if st == z3.unknown or sf == z3.unknown:
                raise Unknown(f"unknown at branch {cond}")
            if st == z3.sat and sf == z3.sat:
                self.pending.append(self.taken + [False]); v = True
            elif st == z3.sat: v = True
            elif sf == z3.sat: v = False
            else: raise Infeasible()
        self.taken.append(v)
        c = cond if v else z3.Not(cond)
        self.pc.append(c); self.solver.add(c)
        return v

class Infeasible(BaseException): pass
class Unknown(BaseException): pass

def _r(v):
    if isinstance(v, z3.ArithRef): return v
    if isinstance(v, (bool, np.bool_)): return z3.RealVal(int(v))
    if isinstance(v, (int, np.integer)): return z3.RealVal(int(v))
    if isinstance(v, (float, np.floating)):
        f = Fraction(float(v)); return z3.Q(f.numerator, f.denominator)
    raise TypeError(type(v))

class SB:
    def __init__(self, e): self.e = e
    def __bool__(self): return Ctx.cur.branch(self.e)
    def __invert__(self): return SB(z3.Not(self.e))
    def __and__(self, o): return SB(z3.And(self.e, o.e if isinstance(o, SB) else z3.BoolVal(bool(o))))
    def __or__(self, o): return SB(z3.Or(self.e, o.e if isinstance(o, SB) else z3.BoolVal(bool(o))))

class S(numbers.Real):
    """real symbolic scalar"""
    def __init__(self, e): self.e = e if isinstance(e, z3.ArithRef) else _r(e)
    @staticmethod
    def lift(o):
        if isinstance(o, S): return o
        if isinstance(o, (int, float, np.integer, np.floating, bool, np.bool_)): return S(_r(o))
        return None
    def _bin(self, o, f):
        o = S.lift(o)
        return NotImplemented if o is None else S(f(self.e, o.e))
    def __add__(self, o): return self._bin(o, lambda a,b: a+b)
    __radd__ = __add__
    def __sub__(self, o): return self._bin(o, lambda a,b: a-b)
    def __rsub__(self, o): return self._bin(o, lambda a,b: b-a)
    def __mul__(self, o): return self._bin(o, lambda a,b: a*b)
    __rmul__ = __mul__
    def _div(self, a, b):
        c = Ctx.cur
        c.side.append(b != 0)
        if LETDIV:
            if z3.is_rational_value(b): return a/b
            t = c.fresh("q"); c.assume(z3.Implies(b != 0, t*b == a)); return t
        return a/b
    def __truediv__(self, o): return self._bin(o, self._div)
    def __rtruediv__(self, o): return self._bin(o, lambda a,b: self._div(b,a))
    def __neg__(self): return S(-self.e)
    def __pos__(self): return self
    def __abs__(self): return S(z3.If(self.e >= 0, self.e, -self.e))
    def __pow__(self, n):
        if isinstance(n, (int, np.integer)) or float(n) == int(n):
            n = int(n); r = S(1)
            for _ in range(abs(n)): r = r*self
            return r if n >= 0 else 1/r
        if float(n) == 0.5: return self.sqrt()
        raise TypeError
    def __rpow__(self, o): raise TypeError
    def sqrt(self):
        c = Ctx.cur; t = c.fresh("sqrt")
        c.assume(z3.And(t >= 0, t*t == self.e)); c.side.append(self.e >= 0)
        return S(t)
    def conjugate(self): return self
    @property
    def real(self): return self
    @property
    def imag(self): return S(0)
    def _cmp(self, o, f):
        o = S.lift(o); return NotImplemented if o is None else SB(f(self.e, o.e))
    def __lt__(self, o): return self._cmp(o, lambda a,b: a<b)
    def __le__(self, o): return self._cmp(o, lambda a,b: a<=b)
    def __gt__(self, o): return self._cmp(o, lambda a,b: a>b)
    def __ge__(self, o): return self._cmp(o, lambda a,b: a>=b)
    def __eq__(self, o): return self._cmp(o, lambda a,b: a==b)
    def __ne__(self, o): return self._cmp(o, lambda a,b: a!=b)
    __hash__ = None
    def __float__(self): raise TypeError("symbolic value realised")
    def __repr__(self): return f"S({self.e})"
    shape = (); ndim = 0; size = 1
    def __getitem__(self, k):
        assert k == ()
        return self
    def __trunc__(self): raise TypeError
    def __floor__(self): raise TypeError
    def __ceil__(self): raise TypeError
    def __round__(self, n=None): raise TypeError
    def __floordiv__(self, o): raise TypeError
    def __rfloordiv__(self, o): raise TypeError
    def __mod__(self, o): raise TypeError
    def __rmod__(self, o): raise TypeError

def sarr(name, shape):
    a = np.empty(shape, dtype=object)
    for idx in np.ndindex(*shape):
        a[idx] = S(z3.Real(name + "_" + "_".join(map(str, idx))))
    return a

def explore(fn, assumptions=(), maxpaths=200):
    work = [[]]; out = []
    while work and len(out) < maxpaths:
        prefix = work.pop()
        c = Ctx(prefix, assumptions); Ctx.cur = c
        try:
            res = fn(); out.append((c, res, None))
        except Infeasible:
            pass
        except Exception as e:
            out.append((c, None, e))
        work.extend(c.pending)
    return out, work
