import numpy as np, z3, time, builtins, nifty.cl as ift, sys, collections
from eng import *
import nifty.cl.any_array as aa
aa.cpu_vdot = lambda a,b: np.sum(np.conjugate(a)*b)
import nifty.cl.minimization.line_search as ls
class NPshim:
    def __getattr__(self, k): return getattr(np, k)
    @staticmethod
    def isnan(x): return False if isinstance(x, S) else np.isnan(x)
    @staticmethod
    def isfinite(x): return True if isinstance(x, S) else np.isfinite(x)
    @staticmethod
    def abs(x): return abs(x)
    @staticmethod
    def empty(shape, dtype=None): return np.empty(shape, dtype=object)
    @staticmethod
    def sqrt(x):
        if isinstance(x, S):
            if x < 0: raise FloatingPointError("sqrt neg")
            return x.sqrt()
        return np.sqrt(x)
ls.np = NPshim()
ls.float = lambda x: x if isinstance(x, S) else builtins.float(x)
maxit, maxzoom = int(sys.argv[1]), int(sys.argv[2])
d = ift.UnstructuredDomain(1)
PHI = z3.Function("PHI", z3.RealSort(), z3.RealSort()); DPHI = z3.Function("DPHI", z3.RealSort(), z3.RealSort())
class UFEnergy(ift.Energy):
    def __init__(self, position):
        super().__init__(position)
        x = position.raw[0]; x = x if isinstance(x, S) else S(x)
        c = Ctx.cur
        if not hasattr(c, "evals"): c.evals = []
        k = len(c.evals); f = z3.Real(f"f{k}"); g = z3.Real(f"g{k}")
        for (xj, fj, gj) in c.evals:
            c.assume(z3.Implies(x.e == xj, z3.And(f == fj, g == gj)))
        c.evals.append((x.e, f, g))
        self._v = S(f); self._g = ift.makeField(d, np.array([S(g)], dtype=object)); self._k = k
    def at(self, position): return UFEnergy(position)
    @property
    def value(self): return self._v
    @property
    def gradient(self): return self._g
x0, p = S(z3.Real("x0")), S(z3.Real("p"))
def run():
    E = UFEnergy(ift.makeField(d, np.array([x0], dtype=object)))
    pk = ift.makeField(d, np.array([p], dtype=object))
    L = ift.LineSearch(max_iterations=maxit, max_zoom_iterations=maxzoom, preferred_initial_step_size=1.0)
    en, ok = L.perform_line_search(E, pk)
    return en, ok
t=time.time()
paths, left = explore(run, [], maxpaths=2000)
print("paths", len(paths), "left", len(left), round(time.time()-t,1))
print(collections.Counter((type(e).__name__ if e else ("ok" if r[1] else "fail")) for _,r,e in paths))
for cx,res,err in paths:
    if err is not None and not isinstance(err,(ValueError,)):
        import traceback; traceback.print_exception(err); break
nok=0; tt=time.time()
for cx,res,err in paths:
    if err or not res[1]: continue
    en = res[0]; xr = en.position.raw[0]
    a = z3.Real("alpha")
    s = z3.Tactic("qfnra-nlsat").solver(); s.set("timeout", 60000)
    s.add(*cx.pc); s.add(*cx.side); s.add(xr.e == x0.e + a*p.e, p.e != 0)
    from fractions import Fraction as Fr
    c1_, c2_ = [z3.Q(Fr(v).numerator, Fr(v).denominator) for v in (0.0001, 0.9)]
    (_, f0, g0_), (_, fr, gr_) = cx.evals[0], cx.evals[en._k]
    g0 = g0_*p.e; gr = gr_*p.e
    wolfe = z3.And(fr <= f0 + c1_*a*g0, z3.If(gr>=0, gr, -gr) <= -c2_*g0)
    s.add(z3.Not(wolfe))
    r = s.check(); nok += (r==z3.unsat)
    if r != z3.unsat: print("  path", cx.taken, r)
print("success paths proven:", nok, round(time.time()-tt,1))
