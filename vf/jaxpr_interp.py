"""Front end B: symbolic interpretation of jaxprs (the compiler IR of nifty.re functions).

``jcall(B, fn, *args)`` traces the *real* function with ``jax.make_jaxpr`` at the
shapes of ``args`` and evaluates the resulting equations over NumPy object arrays
of symbolic scalars (``vf.symcore``).  Sub-computations all of whose inputs are
concrete are executed by JAX itself (``primitive.bind``); data movement with
concrete indices (gather, slice, transpose, pad, concatenate, dynamic_slice, ...)
is handled by *index tracing*: the primitive is run by JAX on an array of element
positions and the symbolic elements are moved accordingly, so JAX's own indexing
semantics are used rather than a re-implementation.  Control flow: ``cond`` /
``select_n`` on symbolic predicates become if-then-else terms, ``scan`` is
unrolled, ``while`` is unrolled to a bound with an unwinding obligation.

An unknown primitive raises ``NotEncodable`` (never silently skipped).
"""
import functools
import itertools
import math
import os

import numpy as np

os.environ.setdefault("JAX_PLATFORMS", "cpu")
import jax  # noqa: E402

jax.config.update("jax_enable_x64", True)
import jax.numpy as jnp  # noqa: E402
from jax import lax  # noqa: E402

from . import symcore as sc  # noqa: E402
from .symcore import SB, SC, SI, SR  # noqa: E402


class NotEncodable(sc.HarnessError):
    pass


STATS = {"jaxprs": 0, "eqns_symbolic": 0, "eqns_concrete": 0, "validated": 0, "primitives": set()}


def is_sym(v):
    return isinstance(v, np.ndarray) and v.dtype == object


def _np(v):
    """jax / python value -> numpy array (concrete)"""
    if isinstance(v, np.ndarray):
        return v
    try:
        return np.asarray(v)
    except TypeError:          # e.g. typed PRNG key arrays: keep the JAX value (only ever consumed by JAX itself)
        return v


def _obj(v):
    a = np.empty(np.shape(v), dtype=object)
    vv = np.asarray(v)
    for idx in np.ndindex(*a.shape):
        a[idx] = vv[idx] if vv.dtype == object else vv[idx].item()
    return a


def _scalar_fn(name):
    def f(x):
        if isinstance(x, (SR, SC)):
            return getattr(x, name)()
        if isinstance(x, complex):
            import cmath
            return getattr(cmath, name)(x)
        mp = {"log1p": math.log1p, "expm1": math.expm1, "exp": math.exp, "log": math.log, "sqrt": math.sqrt,
              "sin": math.sin, "cos": math.cos, "tan": math.tan, "tanh": math.tanh, "arctan": math.atan,
              "sinh": math.sinh, "cosh": math.cosh, "erf": math.erf}
        if name in mp:
            return mp[name](x)
        if name == "sigmoid":
            return 1.0 / (1.0 + math.exp(-x))
        if name == "ncdf":
            return 0.5 * (1 + math.erf(x / math.sqrt(2.0)))
        if name == "rsqrt":
            return 1.0 / math.sqrt(x)
        raise NotEncodable(name)
    return np.frompyfunc(f, 1, 1)


def _elem(name):
    uf = _scalar_fn(name)

    def impl(self, ins, params, eqn):
        return [np.asarray(uf(ins[0]), dtype=object).reshape(np.shape(ins[0]))]
    return impl


def _lift_num(x):
    return x


def _sigmoid(x):
    if isinstance(x, (SR, SC)):
        e = (-x).exp()
        return 1 / (1 + e)
    return 1.0 / (1.0 + math.exp(-x))


def _rsqrt(x):
    if isinstance(x, (SR, SC)):
        return 1 / x.sqrt()
    return 1.0 / math.sqrt(x)


def _b(x):
    """truth value as z3 Bool term or python bool"""
    if isinstance(x, SB):
        return x
    if isinstance(x, (SR, SI)):
        return x != 0
    return bool(x)


def _placeholder(v):
    """a non-finite float constant selected against a symbolic value (jnp.inf placeholders in loop carries): an
    unconstrained fresh real -- an over-approximation for everything except finiteness tests, which refuse such terms"""
    if isinstance(v, (float, np.floating)) and not math.isfinite(v):
        c = sc.cur()
        e = c.fresh("nonfinite")
        c.data.setdefault("nonfinite", set()).add(str(e))
        return SR(e)
    return v


def _ph_arr(a):
    """non-finite float constants meeting symbolic arithmetic -> placeholders (see _placeholder)"""
    if a.dtype != object:
        return a
    flat = a.reshape(-1)
    if not any(isinstance(v, (float, np.floating)) and not math.isfinite(v) for v in flat):
        return a
    out = np.empty(a.shape, dtype=object)
    for idx in np.ndindex(*a.shape):
        out[idx] = _placeholder(a[idx])
    return out


def _nan_mask(a):
    """boolean mask of the NaN float constants in a, None if there are none"""
    if a.dtype == object:
        m = np.asarray(np.frompyfunc(lambda v: isinstance(v, (float, np.floating)) and math.isnan(v), 1, 1)(a), dtype=bool)
    elif np.issubdtype(a.dtype, np.floating):
        m = np.isnan(a)
    else:
        return None
    return m if np.any(m) else None


def _mentions_nonfinite(v):
    names = sc.cur().data.get("nonfinite")
    if not names or not isinstance(v, (SR, SC)):
        return False
    import z3
    seen, todo = set(), ([v.n, v.d] if isinstance(v, SR) else [v.re.n, v.re.d, v.im.n, v.im.d])
    while todo:
        t = todo.pop()
        if t.get_id() in seen:
            continue
        seen.add(t.get_id())
        if z3.is_const(t) and t.decl().kind() == z3.Z3_OP_UNINTERPRETED and str(t) in names:
            return True
        todo.extend(t.children())
    return False


NAN_EXACT = [False]   # harness switch: NaN constants propagate exactly through +, -, *, / instead of becoming placeholders
FORK = [False]     # fork mode: symbolic conditions become path decisions (Ctx.branch) instead of ite terms


def _ite(c, a, b):
    if isinstance(c, SB):
        import z3 as _z3
        ce = _z3.simplify(c.e)
        if _z3.is_true(ce):
            return a
        if _z3.is_false(ce):
            return b
        if FORK[0]:
            return a if sc.cur().branch(ce) else b
        if isinstance(a, SB) or isinstance(b, SB) or isinstance(a, (bool, np.bool_)) and isinstance(b, (bool, np.bool_)):
            import z3
            return SB(z3.If(c.e, SB._l(a), SB._l(b)))
        a, b = _placeholder(a), _placeholder(b)
        ints = (int, np.integer, SI)
        if isinstance(a, ints) and isinstance(b, ints) and not isinstance(a, (bool, np.bool_)) and not isinstance(b, (bool, np.bool_)):
            import z3
            return SI(z3.If(c.e, SI._o(a), SI._o(b)))
        return sc.ite(c, a, b)
    return a if c else b


def _cmp(op):
    def f(a, b):
        if isinstance(a, SB) or isinstance(b, SB):
            if op == "eq":
                return SB(SB._l(a) == SB._l(b))
            if op == "ne":
                return SB(SB._l(a) != SB._l(b))
            raise NotEncodable("ordering of booleans")
        if isinstance(a, SC) or isinstance(b, SC):
            if op == "eq":
                return SC._c(a) == b
            if op == "ne":
                return SC._c(a) != b
        return {"lt": lambda: a < b, "le": lambda: a <= b, "gt": lambda: a > b, "ge": lambda: a >= b,
                "eq": lambda: a == b, "ne": lambda: a != b}[op]()
    return np.frompyfunc(f, 2, 1)


def _isinf(v, sign):
    return isinstance(v, (float, np.floating)) and math.isinf(v) and (v > 0) == (sign > 0)


def _smax(a, b):
    if isinstance(a, SI) or isinstance(b, SI):
        return (a if isinstance(a, SI) else SI(a)).maximum(b)
    if isinstance(a, (SR,)) or isinstance(b, (SR,)):
        if _isinf(a, -1):
            return b
        if _isinf(b, -1):
            return a
        return sc._lift(a).maximum(b)
    return max(a, b)


def _smin(a, b):
    if isinstance(a, SI) or isinstance(b, SI):
        return (a if isinstance(a, SI) else SI(a)).minimum(b)
    if isinstance(a, (SR,)) or isinstance(b, (SR,)):
        if _isinf(a, +1):
            return b
        if _isinf(b, +1):
            return a
        return sc._lift(a).minimum(b)
    return min(a, b)


def _sabs(a):
    return abs(a)


def _ssign(a):
    if isinstance(a, (SR, SI)):
        return a.sign()
    return (a > 0) - (a < 0)


def _and(a, b):
    if isinstance(a, SB) or isinstance(b, SB):
        return SB(SB._l(a)) & b if isinstance(a, SB) else b & bool(a) if isinstance(b, SB) else None
    return bool(a) and bool(b)


def _or(a, b):
    if isinstance(a, SB):
        return a | b
    if isinstance(b, SB):
        return b | a
    return bool(a) or bool(b)


def _not(a):
    if isinstance(a, SB):
        return ~a
    return not bool(a)


class Interp:
    def __init__(self, while_bound=4, validate=False):
        self.while_bound = while_bound
        self.validate = validate          # force every equation through the symbolic implementations (float objects)
        self.unwinding = []               # SB conditions that must be false (loop bound sufficient)
        self.callbacks = []               # inputs of host callbacks met (no-ops)

    # ------------------------------------------------------------------
    def eval_closed(self, closed, *args):
        return self.eval_jaxpr(closed.jaxpr, closed.consts, *args)

    def eval_jaxpr(self, jaxpr, consts, *args):
        env = {}

        def read(v):
            if type(v).__name__ == "Literal":
                return _np(v.val)
            return env[v]

        def write(v, val):
            env[v] = val
        assert len(jaxpr.invars) == len(args), (len(jaxpr.invars), len(args))
        for v, c in zip(jaxpr.constvars, consts):
            write(v, c if is_sym(c) else _np(c))
        for v, a in zip(jaxpr.invars, args):
            write(v, a if is_sym(a) else _np(a))
        for eqn in jaxpr.eqns:
            ins = [read(v) for v in eqn.invars]
            outs = self.apply(eqn, ins)
            for v, o in zip(eqn.outvars, outs):
                if type(v).__name__ == "DropVar":
                    continue
                if not is_sym(o):
                    o = _np(o)
                shp = tuple(v.aval.shape)
                if tuple(np.shape(o)) != shp:
                    o = np.broadcast_to(o, shp) if np.size(o) == 1 or len(shp) >= np.ndim(o) else o.reshape(shp)
                write(v, o)
        return [read(v) for v in jaxpr.outvars]

    # ------------------------------------------------------------------
    def apply(self, eqn, ins):
        name = eqn.primitive.name
        STATS["primitives"].add(name)
        anysym = any(is_sym(v) for v in ins)
        force = self.validate and name in self.PURE and np.issubdtype(eqn.outvars[0].aval.dtype, np.inexact)
        if not anysym and not force:
            STATS["eqns_concrete"] += 1
            if name in self.CONTROL:          # keep interpreting so nested symbolic consts are honoured
                return getattr(self, "p_" + self.CONTROL[name])(ins, eqn.params, eqn)
            sub = eqn.primitive.bind(*[(v if not isinstance(v, np.ndarray) else jnp.asarray(v)) for v in ins], **eqn.params)
            return [_np(o) for o in (sub if eqn.primitive.multiple_results else [sub])]
        STATS["eqns_symbolic"] += 1
        if self.validate and not anysym:
            ins = [_obj(v) if np.issubdtype(np.asarray(v).dtype, np.inexact) else v for v in ins]
        meth = getattr(self, "p_" + name.replace("-", "_"), None)
        if meth is None and name in self.CONTROL:
            meth = getattr(self, "p_" + self.CONTROL[name])
        if meth is None:
            raise NotEncodable(f"primitive '{name}' is not encodable")
        return meth(ins, eqn.params, eqn)

    CONTROL = {"pjit": "pjit", "jit": "pjit", "closed_call": "pjit", "core_call": "pjit", "custom_jvp_call": "custom_call",
               "custom_vjp_call": "custom_call", "custom_vjp_call_jaxpr": "custom_call", "cond": "cond", "while": "while",
               "scan": "scan", "remat": "pjit", "checkpoint": "pjit", "custom_lin": "custom_call"}
    PURE = {"add", "sub", "mul", "div", "neg", "exp", "log", "log1p", "expm1", "sqrt", "rsqrt", "tanh", "logistic", "sin", "cos",
            "tan", "integer_pow", "pow", "square", "reduce_sum", "dot_general", "cumsum", "max", "min", "abs", "sign", "erf", "atan"}

    # -- arithmetic ------------------------------------------------------
    def _bin(self, f, ins, arith=False):
        a, b = _asobj(ins[0]), _asobj(ins[1])
        if arith:
            # NaN constants propagate exactly through +, -, *, / (IEEE: any operation with a NaN operand is NaN)
            ma, mb = (_nan_mask(a), _nan_mask(b)) if NAN_EXACT[0] else (None, None)
            if ma is not None or mb is not None:
                shape = np.broadcast_shapes(a.shape, b.shape)
                m = np.zeros(shape, dtype=bool)
                if ma is not None:
                    a = np.where(ma, 1.0, a).astype(object) if a.dtype == object else np.where(ma, 1.0, a)
                    m |= np.broadcast_to(ma, shape)
                if mb is not None:
                    b = np.where(mb, 1.0, b).astype(object) if b.dtype == object else np.where(mb, 1.0, b)
                    m |= np.broadcast_to(mb, shape)
                out = np.array(np.broadcast_to(np.asarray(f(_ph_arr(a), _ph_arr(b)), dtype=object), shape), dtype=object)
                out[m] = float("nan")
                return [out]
            # +-inf constants met by +, -, *, / become placeholders; max / min treat them exactly
            a, b = _ph_arr(a), _ph_arr(b)
        return [np.asarray(f(a, b), dtype=object)]

    def p_add(self, ins, params, eqn):
        return self._bin(lambda a, b: a + b, ins, arith=True)

    p_add_any = p_add

    def p_sub(self, ins, params, eqn):
        return self._bin(lambda a, b: a - b, ins, arith=True)

    def p_mul(self, ins, params, eqn):
        return self._bin(lambda a, b: a * b, ins, arith=True)

    def p_div(self, ins, params, eqn):
        if np.issubdtype(eqn.outvars[0].aval.dtype, np.integer):
            # XLA integer division truncates toward zero
            def tdiv(a, b):
                a = a if isinstance(a, SI) else SI(a)
                return a.trunc_div(b)
            return self._bin(np.frompyfunc(tdiv, 2, 1), ins)
        return self._bin(lambda a, b: a / b, ins, arith=True)

    def p_rem(self, ins, params, eqn):
        if not np.issubdtype(eqn.outvars[0].aval.dtype, np.integer):
            raise NotEncodable("floating-point remainder of symbolic values")

        def trem(a, b):
            a = a if isinstance(a, SI) else SI(a)
            return a.trunc_rem(b)
        return self._bin(np.frompyfunc(trem, 2, 1), ins)

    def p_round(self, ins, params, eqn):
        """round to nearest: fresh integer r with |x - r| <= 1/2 (the tie-breaking rule is left open)"""
        def rnd(v):
            if not isinstance(v, (SR, SI)):
                return float(np.rint(v))
            if isinstance(v, SI):
                return v
            c = sc.cur()
            r = c.fresh("rnd", sort="int")
            import z3
            rr = z3.ToReal(r)
            n, d = v.n, v.d
            if d is None:
                c.pc.append(z3.And(rr - z3.Q(1, 2) <= n, n <= rr + z3.Q(1, 2)))
            else:
                c.pc.append(z3.And(rr - z3.Q(1, 2) <= n / d, n / d <= rr + z3.Q(1, 2)))
            return SR(rr)
        return [np.asarray(np.frompyfunc(rnd, 1, 1)(_asobj(ins[0])), dtype=object)]

    def p_neg(self, ins, params, eqn):
        return [np.asarray(-_asobj(ins[0]), dtype=object)]

    def p_max(self, ins, params, eqn):
        return self._bin(np.frompyfunc(_smax, 2, 1), ins)

    def p_min(self, ins, params, eqn):
        return self._bin(np.frompyfunc(_smin, 2, 1), ins)

    def p_abs(self, ins, params, eqn):
        return [np.asarray(np.frompyfunc(_sabs, 1, 1)(_asobj(ins[0])), dtype=object)]

    def p_sign(self, ins, params, eqn):
        return [np.asarray(np.frompyfunc(_ssign, 1, 1)(_asobj(ins[0])), dtype=object)]

    def p_integer_pow(self, ins, params, eqn):
        y = int(params["y"])
        return [np.asarray(np.frompyfunc(lambda v: v ** y, 1, 1)(_asobj(ins[0])), dtype=object)]

    def p_square(self, ins, params, eqn):
        return [np.asarray(np.frompyfunc(lambda v: v * v, 1, 1)(_asobj(ins[0])), dtype=object)]

    def p_pow(self, ins, params, eqn):
        def pw(a, b):
            if not isinstance(a, (SR, SC)) and not isinstance(b, (SR, SC)):
                return a ** b
            return sc._lift(a) ** b
        return self._bin(np.frompyfunc(pw, 2, 1), ins)

    p_exp = _elem("exp")
    p_log = _elem("log")
    p_log1p = _elem("log1p")
    p_expm1 = _elem("expm1")
    p_sqrt = _elem("sqrt")
    p_tanh = _elem("tanh")
    p_sin = _elem("sin")
    p_cos = _elem("cos")
    p_tan = _elem("tan")
    p_atan = _elem("arctan")
    p_sinh = _elem("sinh")
    p_cosh = _elem("cosh")
    p_erf = _elem("erf")

    def p_erfc(self, ins, params, eqn):
        def f(v):
            if isinstance(v, (SR, SC)):
                return v.erfc()
            return math.erfc(v)
        return [np.asarray(np.frompyfunc(f, 1, 1)(_asobj(ins[0])), dtype=object)]

    def p_logistic(self, ins, params, eqn):
        return [np.asarray(np.frompyfunc(_sigmoid, 1, 1)(_asobj(ins[0])), dtype=object)]

    def p_rsqrt(self, ins, params, eqn):
        return [np.asarray(np.frompyfunc(_rsqrt, 1, 1)(_asobj(ins[0])), dtype=object)]

    def p_exp2(self, ins, params, eqn):
        return [np.asarray(np.frompyfunc(lambda v: sc._lift(v).exp2() if isinstance(v, (SR, SC)) else 2.0 ** v, 1, 1)(_asobj(ins[0])), dtype=object)]

    def p_erf_inv(self, ins, params, eqn):
        raise NotEncodable("erf_inv (inverse error function) has no algebraic/axiomatic encoding here")

    def p_lgamma(self, ins, params, eqn):
        raise NotEncodable("lgamma")

    def p_digamma(self, ins, params, eqn):
        raise NotEncodable("digamma")

    def p_is_finite(self, ins, params, eqn):
        for v in _asobj(ins[0]).reshape(-1):
            if _mentions_nonfinite(v):
                raise NotEncodable("finiteness test of a value that may be a non-finite placeholder")
        return [np.ones(np.shape(ins[0]), dtype=bool)]

    def p_real(self, ins, params, eqn):
        return [np.asarray(np.frompyfunc(lambda v: v.real if hasattr(v, "real") else v, 1, 1)(_asobj(ins[0])), dtype=object)]

    def p_imag(self, ins, params, eqn):
        return [np.asarray(np.frompyfunc(lambda v: v.imag if hasattr(v, "imag") else 0, 1, 1)(_asobj(ins[0])), dtype=object)]

    def p_conj(self, ins, params, eqn):
        return [np.asarray(np.frompyfunc(lambda v: v.conjugate() if hasattr(v, "conjugate") else v, 1, 1)(_asobj(ins[0])), dtype=object)]

    def p_complex(self, ins, params, eqn):
        return self._bin(np.frompyfunc(lambda a, b: SC(sc._lift(a), sc._lift(b)), 2, 1), ins)

    def p_stop_gradient(self, ins, params, eqn):
        return [ins[0]]

    p_copy = p_stop_gradient
    p_copy_p = p_stop_gradient
    p_optimization_barrier = lambda self, ins, params, eqn: list(ins)
    p_reduce_precision = p_stop_gradient

    def p_convert_element_type(self, ins, params, eqn):
        new = np.dtype(params["new_dtype"])
        x = _asobj(ins[0])
        if np.issubdtype(new, np.inexact):
            def cv(v):
                if isinstance(v, (SB, SI)):
                    return sc._lift(v)
                if isinstance(v, SC) and not np.issubdtype(new, np.complexfloating):
                    return v.real
                return v
            return [np.asarray(np.frompyfunc(cv, 1, 1)(x), dtype=object)]
        if new == np.bool_:
            return [np.asarray(np.frompyfunc(lambda v: v if isinstance(v, SB) else (sc._lift(v) != 0), 1, 1)(x), dtype=object)]
        if np.issubdtype(new, np.integer):
            def ci(v):
                import z3
                if isinstance(v, SB):
                    return SI(z3.If(v.e, z3.IntVal(1), z3.IntVal(0)))
                if isinstance(v, SI) or not isinstance(v, (SR, SC)):
                    return v if isinstance(v, SI) else int(v)
                if isinstance(v, SR) and v.d is None:
                    e = z3.simplify(v.n)
                    if z3.is_app_of(e, z3.Z3_OP_TO_REAL):
                        return SI(e.arg(0))         # value produced by rounding / an integer carried as a real
                raise NotEncodable("float -> integer conversion of a symbolic value")
            return [np.asarray(np.frompyfunc(ci, 1, 1)(x), dtype=object)]
        raise NotEncodable(f"convert_element_type to {new}")

    # -- comparisons / logic ------------------------------------------------
    def p_lt(self, ins, params, eqn):
        return [np.asarray(_cmp("lt")(_asobj(ins[0]), _asobj(ins[1])), dtype=object)]

    def p_le(self, ins, params, eqn):
        return [np.asarray(_cmp("le")(_asobj(ins[0]), _asobj(ins[1])), dtype=object)]

    def p_gt(self, ins, params, eqn):
        return [np.asarray(_cmp("gt")(_asobj(ins[0]), _asobj(ins[1])), dtype=object)]

    def p_ge(self, ins, params, eqn):
        return [np.asarray(_cmp("ge")(_asobj(ins[0]), _asobj(ins[1])), dtype=object)]

    def p_eq(self, ins, params, eqn):
        return [np.asarray(_cmp("eq")(_asobj(ins[0]), _asobj(ins[1])), dtype=object)]

    def p_ne(self, ins, params, eqn):
        return [np.asarray(_cmp("ne")(_asobj(ins[0]), _asobj(ins[1])), dtype=object)]

    def p_and(self, ins, params, eqn):
        return [np.asarray(np.frompyfunc(lambda a, b: (_b(a) & _b(b)) if isinstance(_b(a), SB) or isinstance(_b(b), SB) else (_b(a) and _b(b)), 2, 1)(_asobj(ins[0]), _asobj(ins[1])), dtype=object)]

    def p_or(self, ins, params, eqn):
        return [np.asarray(np.frompyfunc(lambda a, b: (_b(a) | _b(b)) if isinstance(_b(a), SB) or isinstance(_b(b), SB) else (_b(a) or _b(b)), 2, 1)(_asobj(ins[0]), _asobj(ins[1])), dtype=object)]

    def p_not(self, ins, params, eqn):
        return [np.asarray(np.frompyfunc(lambda a: _not(_b(a)), 1, 1)(_asobj(ins[0])), dtype=object)]

    def p_select_n(self, ins, params, eqn):
        pred, cases = ins[0], ins[1:]
        if not is_sym(pred):
            p = np.asarray(pred).astype(int)
            out = np.empty(np.shape(cases[0]), dtype=object)
            cs = [np.broadcast_to(_asobj(c), out.shape) for c in cases]
            pb = np.broadcast_to(p, out.shape)
            for idx in np.ndindex(*out.shape):
                out[idx] = cs[int(pb[idx])][idx]
            return [out]
        if len(cases) != 2:
            raise NotEncodable("select_n with a symbolic integer selector")
        out = np.empty(np.shape(cases[0]), dtype=object)
        c0, c1 = (np.broadcast_to(_asobj(c), out.shape) for c in cases)
        pb = np.broadcast_to(pred, out.shape)
        for idx in np.ndindex(*out.shape):
            out[idx] = _ite(_b(pb[idx]), c1[idx], c0[idx])
        return [out]

    def p_clamp(self, ins, params, eqn):
        lo, x, hi = (_asobj(v) for v in ins)
        mx = np.frompyfunc(_smax, 2, 1)
        mn = np.frompyfunc(_smin, 2, 1)
        return [np.asarray(mn(mx(x, lo), hi), dtype=object)]

    # -- reductions -----------------------------------------------------------
    def p_reduce_sum(self, ins, params, eqn):
        x = _asobj(ins[0])
        axes = tuple(params["axes"])
        if x.size == 0:
            return [np.zeros([s for i, s in enumerate(x.shape) if i not in axes])]
        return [np.asarray(np.sum(x, axis=axes), dtype=object)]

    def _reduce(self, ins, params, f):
        x = _asobj(ins[0])
        axes = tuple(sorted(params["axes"]))
        keep = [i for i in range(x.ndim) if i not in axes]
        xt = np.transpose(x, keep + list(axes)).reshape([x.shape[i] for i in keep] + [-1])
        out = np.empty(xt.shape[:-1], dtype=object)
        for idx in np.ndindex(*out.shape):
            out[idx] = functools.reduce(f, list(xt[idx]))
        return [out]

    def p_reduce_max(self, ins, params, eqn):
        return self._reduce(ins, params, _smax)

    def p_reduce_min(self, ins, params, eqn):
        return self._reduce(ins, params, _smin)

    def p_reduce_prod(self, ins, params, eqn):
        return self._reduce(ins, params, lambda a, b: a * b)

    def p_reduce_and(self, ins, params, eqn):
        return self._reduce(ins, params, lambda a, b: (_b(a) & _b(b)) if isinstance(_b(a), SB) or isinstance(_b(b), SB) else (_b(a) and _b(b)))

    def p_reduce_or(self, ins, params, eqn):
        return self._reduce(ins, params, lambda a, b: (_b(a) | _b(b)) if isinstance(_b(a), SB) or isinstance(_b(b), SB) else (_b(a) or _b(b)))

    def p_cumsum(self, ins, params, eqn):
        x = _asobj(ins[0])
        ax = params["axis"]
        if params.get("reverse", False):
            return [np.flip(np.cumsum(np.flip(x, ax), axis=ax), ax)]
        return [np.asarray(np.cumsum(x, axis=ax), dtype=object)]

    def p_cumprod(self, ins, params, eqn):
        x = _asobj(ins[0])
        ax = params["axis"]
        if params.get("reverse", False):
            return [np.flip(np.cumprod(np.flip(x, ax), axis=ax), ax)]
        return [np.asarray(np.cumprod(x, axis=ax), dtype=object)]

    def p_dot_general(self, ins, params, eqn):
        a, b = _asobj(ins[0]), _asobj(ins[1])
        (lc, rc), (lb, rb) = params["dimension_numbers"]
        letters = iter("abcdefghijklmnopqrstuvwxyz")
        la, lbb = [None] * a.ndim, [None] * b.ndim
        for i, j in zip(lb, rb):
            la[i] = lbb[j] = next(letters)
        for i, j in zip(lc, rc):
            la[i] = lbb[j] = next(letters)
        for i in range(a.ndim):
            if la[i] is None:
                la[i] = next(letters)
        for j in range(b.ndim):
            if lbb[j] is None:
                lbb[j] = next(letters)
        out = [la[i] for i in lb] + [la[i] for i in range(a.ndim) if i not in lb and i not in lc] + \
              [lbb[j] for j in range(b.ndim) if j not in rb and j not in rc]
        # explicit index sums (np.einsum on object arrays goes through the same Python operators, but keep it independent)
        sizes = {}
        for l, s in zip(la, a.shape):
            sizes[l] = s
        for l, s in zip(lbb, b.shape):
            sizes[l] = s
        res = np.empty([sizes[l] for l in out], dtype=object)
        summed = [l for l in sizes if l not in out]
        for oidx in np.ndindex(*res.shape):
            env = dict(zip(out, oidx))
            acc = 0
            for sidx in itertools.product(*[range(sizes[l]) for l in summed]):
                env.update(zip(summed, sidx))
                acc = acc + a[tuple(env[l] for l in la)] * b[tuple(env[l] for l in lbb)]
            res[oidx] = acc
        return [res]

    # -- data movement by index tracing ------------------------------------------
    def _trace_move(self, eqn, data, others_before=(), others_after=(), params=None):
        """run the primitive on an int64 array of element positions of `data` (other operands concrete)"""
        pos = np.arange(max(data.size, 1), dtype=np.int64)[:data.size].reshape(data.shape)
        args = [jnp.asarray(o) for o in others_before] + [jnp.asarray(pos)] + [jnp.asarray(o) for o in others_after]
        out = eqn.primitive.bind(*args, **(params if params is not None else eqn.params))
        return np.asarray(out)

    def _take(self, data, posarr, fill=None):
        flat = data.reshape(-1)
        out = np.empty(posarr.shape, dtype=object)
        for idx in np.ndindex(*posarr.shape):
            p = int(posarr[idx])
            out[idx] = flat[p] if p >= 0 else fill
        return out

    def _simple_move(self, ins, params, eqn):
        x = _asobj(ins[0])
        for o in ins[1:]:
            if is_sym(o):
                raise NotEncodable(f"{eqn.primitive.name} with symbolic indices")
        return [self._take(x, self._trace_move(eqn, x, others_after=ins[1:]))]

    p_reshape = p_transpose = p_squeeze = p_expand_dims = p_rev = p_slice = p_broadcast_in_dim = _simple_move
    p_dynamic_slice = _simple_move

    def p_gather(self, ins, params, eqn):
        x, idx = _asobj(ins[0]), ins[1]
        if is_sym(idx):
            raise NotEncodable("gather with symbolic indices")
        p = dict(params)
        # out-of-bounds 'fill' entries must be recognisable: fill the position array with -1
        if "fill_value" in p:
            p["fill_value"] = -1
        pos = self._trace_move(eqn, x, others_after=[idx], params=p)
        fv = params.get("fill_value", None)
        fill = (float("nan") if fv is None else fv)
        if (pos < 0).any() and fv is None:
            raise NotEncodable("gather: out-of-bounds fill with NaN")
        return [self._take(x, pos, fill)]

    def p_concatenate(self, ins, params, eqn):
        offs, pieces, flats = 0, [], []
        for v in ins:
            v = _asobj(v)
            pieces.append(np.arange(offs, offs + v.size, dtype=np.int64).reshape(v.shape))
            flats.append(v.reshape(-1))
            offs += v.size
        pos = np.asarray(eqn.primitive.bind(*[jnp.asarray(p) for p in pieces], **params))
        allflat = np.concatenate(flats) if flats else np.zeros(0, dtype=object)
        return [self._take(allflat, pos)]

    p_stack = p_concatenate

    def p_pad(self, ins, params, eqn):
        x, padv = _asobj(ins[0]), _asobj(ins[1])
        pos = np.arange(x.size, dtype=np.int64).reshape(x.shape)
        out = np.asarray(eqn.primitive.bind(jnp.asarray(pos), jnp.asarray(np.int64(-1)), **params))
        return [self._take(x, out, padv.reshape(-1)[0] if padv.size else 0)]

    def p_dynamic_update_slice(self, ins, params, eqn):
        x, upd = _asobj(ins[0]), _asobj(ins[1])
        for o in ins[2:]:
            if is_sym(o):
                raise NotEncodable("dynamic_update_slice with symbolic indices")
        px = np.arange(x.size, dtype=np.int64).reshape(x.shape)
        pu = -(np.arange(upd.size, dtype=np.int64).reshape(upd.shape) + 1)
        out = np.asarray(eqn.primitive.bind(jnp.asarray(px), jnp.asarray(pu), *[jnp.asarray(o) for o in ins[2:]], **params))
        res = np.empty(out.shape, dtype=object)
        xf, uf = x.reshape(-1), upd.reshape(-1)
        for idx in np.ndindex(*out.shape):
            p = int(out[idx])
            res[idx] = xf[p] if p >= 0 else uf[-p - 1]
        return [res]

    def _scatter(self, ins, params, eqn, add):
        x, idx, upd = _asobj(ins[0]), ins[1], _asobj(ins[2])
        if is_sym(idx):
            raise NotEncodable("scatter with symbolic indices")
        res = x.copy().reshape(x.shape)
        res = np.array(res, dtype=object)
        uf = upd.reshape(-1)
        add_prim = jax.lax.scatter_add_p
        p = {k: v for k, v in params.items()}
        for k in range(uf.size):
            onehot = np.zeros(upd.size, dtype=np.int64)
            onehot[k] = 1
            hit = np.asarray(add_prim.bind(jnp.zeros(x.shape, dtype=np.int64), jnp.asarray(idx), jnp.asarray(onehot.reshape(upd.shape)),
                                           **{**p, "update_jaxpr": None, "update_consts": ()}))
            for ii in zip(*np.nonzero(hit)):
                res[ii] = (res[ii] + uf[k]) if add is True else ((res[ii] * uf[k]) if add == "mul" else uf[k])
        return [res]

    def p_scatter_add(self, ins, params, eqn):
        return self._scatter(ins, params, eqn, True)

    def p_scatter(self, ins, params, eqn):
        return self._scatter(ins, params, eqn, False)

    def p_scatter_mul(self, ins, params, eqn):
        return self._scatter(ins, params, eqn, "mul")

    def p_iota(self, ins, params, eqn):
        return [np.asarray(eqn.primitive.bind(**params))]

    def p_split(self, ins, params, eqn):
        x = _asobj(ins[0])
        pos = np.arange(x.size, dtype=np.int64).reshape(x.shape)
        outs = eqn.primitive.bind(jnp.asarray(pos), **params)
        return [self._take(x, np.asarray(o)) for o in outs]

    p_unstack = p_split

    def p_fft(self, ins, params, eqn):
        """complex forward / inverse DFT over the trailing len(fft_lengths) axes, written out (exact twiddles for N in 1,2,4)"""
        from .dft import dft_axes
        ft = params["fft_type"]
        kind = int(getattr(ft, "value", ft))
        if kind not in (0, 1):
            raise NotEncodable("real-to-complex / complex-to-real FFT")
        a = _asobj(ins[0])
        nax = len(params["fft_lengths"])
        axes = tuple(range(a.ndim - nax, a.ndim))
        return [dft_axes(a, axes, inverse=(kind == 1))]

    def p_eigh(self, ins, params, eqn):
        """symmetric eigendecomposition, closed form for 1x1 and 2x2 (ascending eigenvalues; the eigenvector signs LAPACK
        may choose are irrelevant to callers that square the components); leading batch axes are looped over.
        Degenerate 2x2 input (equal eigenvalues) is excluded by a definedness side condition."""
        a = _asobj(ins[0])
        n = a.shape[-1]
        if a.shape[-2] != n or n > 2:
            raise NotEncodable("eigh beyond 2x2")
        batch = a.shape[:-2]
        V = np.empty(batch + (n, n), dtype=object)
        W = np.empty(batch + (n,), dtype=object)
        for idx in np.ndindex(*batch):
            m = a[idx]
            if n == 1:
                V[idx + (0, 0)] = 1
                W[idx + (0,)] = m[0, 0]
                continue
            p, q, b = sc._lift(m[0, 0]), sc._lift(m[1, 1]), sc._lift(m[1, 0])     # lower triangle
            mean, half = (p + q) / 2, (p - q) / 2
            r = (half * half + b * b).sqrt()
            ctx = sc.Ctx.cur
            if ctx is not None:
                ctx.need((r > 0).e)
            l1, l2 = mean - r, mean + r
            t1 = ((l2 - p) / (2 * r)).sqrt()          # first components: tau1^2 = (l2 - p)/(2r), tau2^2 = (p - l1)/(2r)
            t2 = ((p - l1) / (2 * r)).sqrt()
            sgn = sc.ite(b > 0, sc.SR(sc.q(-1)), sc.SR(sc.q(1)))
            V[idx + (0, 0)], V[idx + (0, 1)] = t1, t2
            V[idx + (1, 0)], V[idx + (1, 1)] = sgn * t2, (sgn * t1) * (-1)
            W[idx + (0,)], W[idx + (1,)] = l1, l2
        outs = []
        for ov in eqn.outvars:
            outs.append(V if len(ov.aval.shape) == len(batch) + 2 else W)
        return outs

    def p_debug_callback(self, ins, params, eqn):
        """host callbacks (logging, conditional_raise) have no results: no-ops here; the symbolic inputs are kept for harnesses"""
        self.callbacks.append(ins)
        return []

    # -- control flow ---------------------------------------------------------------
    def p_pjit(self, ins, params, eqn):
        closed = params.get("jaxpr") or params.get("call_jaxpr")
        if hasattr(closed, "jaxpr"):
            return self.eval_jaxpr(closed.jaxpr, closed.consts, *ins)
        return self.eval_jaxpr(closed, (), *ins)

    def p_custom_call(self, ins, params, eqn):
        closed = params.get("call_jaxpr") or params.get("fun_jaxpr")
        fname = ""
        try:
            fname = (closed.jaxpr if hasattr(closed, "jaxpr") else closed).debug_info.func_name
        except Exception:
            pass
        if fname == "log_ndtr" and any(is_sym(v) for v in ins):
            # stub with the documented contract of jax.scipy.special.log_ndtr: log(ndtr(x)).  (The real body switches to
            # asymptotic series in the tails -- a numerical approximation of the same function, outside exact arithmetic.)
            from jax.scipy.special import ndtr
            x = ins[-1]
            cj = jax.make_jaxpr(ndtr)(np.zeros(np.shape(x)))
            val = self.eval_closed(cj, x)[0]
            return [np.asarray(np.frompyfunc(lambda v: sc._lift(v).log(), 1, 1)(_asobj(val)), dtype=object)]
        if closed is None:
            raise NotEncodable(f"{eqn.primitive.name}: no primal jaxpr")
        nconsts = 0
        if hasattr(closed, "jaxpr"):
            return self.eval_jaxpr(closed.jaxpr, closed.consts, *ins[nconsts:])
        return self.eval_jaxpr(closed, (), *ins)

    def p_cond(self, ins, params, eqn):
        idx, ops = ins[0], ins[1:]
        branches = params["branches"]
        if not is_sym(idx):
            k = int(np.clip(int(np.asarray(idx)), 0, len(branches) - 1))
            return self.eval_jaxpr(branches[k].jaxpr, branches[k].consts, *ops)
        i = idx.reshape(-1)[0]
        if FORK[0]:
            ctx = sc.cur()
            for k in range(len(branches) - 1):
                c = (i == k) if not isinstance(i, SB) else (~i if k == 0 else i)
                if ctx.branch(SB._l(c)):
                    return self.eval_jaxpr(branches[k].jaxpr, branches[k].consts, *ops)
            return self.eval_jaxpr(branches[-1].jaxpr, branches[-1].consts, *ops)
        outs = [self.eval_jaxpr(b.jaxpr, b.consts, *ops) for b in branches]
        res = outs[-1]
        for k in range(len(branches) - 2, -1, -1):
            c = (i == k) if not isinstance(i, SB) else (~i if k == 0 else i)
            res = [self._merge(c, a, b) for a, b in zip(outs[k], res)]
        return res

    def _merge(self, c, a, b):
        """elementwise ite(c, a, b) on arrays"""
        a, b = _asobj(a), _asobj(b)
        out = np.empty(a.shape, dtype=object)
        bb = np.broadcast_to(b, a.shape)
        for idx in np.ndindex(*a.shape):
            out[idx] = _ite(c, a[idx], bb[idx])
        return out

    def p_while(self, ins, params, eqn):
        """Bounded unrolling without symbolic loop counters: the body is applied to the *unmerged* states s_0, s_1, ...
        (s_{k+1} = body(s_k)), c_k = cond(s_k), and the result is ite(c_0, ite(c_1, ..., s_1), s_0).  Definedness side
        conditions and definitional constraints created while computing s_{k+1} are guarded by c_0 & ... & c_k (JAX would
        compute inf/nan there and the loop has already stopped).  If c_K is still satisfiable after `while_bound`
        iterations an unwinding obligation fails (bound too small), never a silent truncation."""
        import z3
        cj, bj = params["cond_jaxpr"], params["body_jaxpr"]
        nc, nb = params["cond_nconsts"], params["body_nconsts"]
        cconst, bconst, state = ins[:nc], ins[nc:nc + nb], list(ins[nc + nb:])
        states, conds = [state], []
        ctx = sc.Ctx.cur
        guard = None
        for k in range(10 ** 6):
            c = self.eval_jaxpr(cj.jaxpr, cj.consts, *cconst, *states[-1])[0]
            if is_sym(c):
                cb = _b(c.reshape(-1)[0])
                if isinstance(cb, SB):
                    ce = z3.simplify(cb.e)
                    cb = True if z3.is_true(ce) else (False if z3.is_false(ce) else cb)
                if isinstance(cb, SB) and FORK[0]:
                    if k > 4 * self.while_bound + 64:
                        raise sc.Inconclusive("while loop exceeds the unrolling bound in fork mode")
                    cb = bool(ctx.branch(cb.e))
            else:
                cb = bool(np.asarray(c))
            if cb is False:
                break
            symbolic_so_far = any(isinstance(x, SB) for x in conds) or isinstance(cb, SB)
            if symbolic_so_far and len([x for x in conds if isinstance(x, SB)]) + (1 if isinstance(cb, SB) else 0) > self.while_bound:
                g = guard if guard is not None else z3.BoolVal(True)
                self.unwinding.append(SB(z3.And(g, cb.e if isinstance(cb, SB) else z3.BoolVal(True))))
                break
            conds.append(cb)
            if isinstance(cb, SB):
                guard = cb.e if guard is None else z3.And(guard, cb.e)
            npc, nside = (len(ctx.pc), len(ctx.side)) if ctx is not None else (0, 0)
            new = self.eval_jaxpr(bj.jaxpr, bj.consts, *bconst, *states[-1])
            if ctx is not None and guard is not None:
                ctx.pc[npc:] = [z3.Implies(guard, t) for t in ctx.pc[npc:]]
                ctx.side[nside:] = [z3.Implies(guard, t) for t in ctx.side[nside:]]
            states.append(new)
        result = states[-1]
        for k in range(len(conds) - 1, -1, -1):
            if isinstance(conds[k], SB):
                result = [self._merge(conds[k], a, b) for a, b in zip(result, states[k])]
        return result

    def p_scan(self, ins, params, eqn):
        closed = params["jaxpr"]
        length, reverse = params["length"], params["reverse"]
        if "num_consts" in params:
            nconst, ncarry = params["num_consts"], params["num_carry"]
        else:                     # newer JAX: flattened structure descriptors
            fti = params["ft_in"]
            elts = fti.elts if hasattr(fti, "elts") else list(fti)
            nconst, ncarry = len(elts[0]), len(elts[1])
        consts, carry, xs = ins[:nconst], list(ins[nconst:nconst + ncarry]), ins[nconst + ncarry:]
        ys = None
        order = range(length - 1, -1, -1) if reverse else range(length)
        for i in order:
            xi = [(_asobj(x)[i] if is_sym(x) else np.asarray(x)[i]) for x in xs]
            out = self.eval_jaxpr(closed.jaxpr, closed.consts, *consts, *carry, *xi)
            carry, y = list(out[:ncarry]), out[ncarry:]
            if ys is None:
                ys = [[None] * length for _ in y]
            for k, yk in enumerate(y):
                ys[k][i] = yk
        stacked = []
        nys = len(closed.jaxpr.outvars) - ncarry
        if ys is None:
            ys = [[] for _ in range(nys)]
        for k, lst in enumerate(ys):
            if any(is_sym(v) for v in lst):
                stacked.append(np.stack([_asobj(v) for v in lst]) if lst else np.zeros((0,), dtype=object))
            else:
                av = closed.jaxpr.outvars[ncarry + k].aval
                stacked.append(np.stack([np.asarray(v) for v in lst]) if lst else np.zeros((0,) + tuple(av.shape), dtype=av.dtype))
        return carry + stacked


# ----------------------------------------------------------------------------
# an *uninterpreted* JAX primitive: lets real higher-order code (smap, lmap, vmap, leapfrog, ...) be traced
# with an arbitrary function argument; the interpreter maps every application to B.ufun (fresh symbols + congruence)

try:
    from jax.extend.core import Primitive as _Primitive
except Exception:  # pragma: no cover
    from jax.core import Primitive as _Primitive
from jax.interpreters import batching as _batching

uf_p = _Primitive("vf_uf")


def _uf_abstract(x, *, name, out_shape, nbatch):
    from jax.core import ShapedArray
    return ShapedArray(tuple(x.shape[:nbatch]) + tuple(out_shape), x.dtype)


uf_p.def_abstract_eval(_uf_abstract)


def _uf_batch(args, dims, *, name, out_shape, nbatch):
    (x,), (d,) = args, dims
    x = jnp.moveaxis(x, d, 0)
    return uf_p.bind(x, name=name, out_shape=out_shape, nbatch=nbatch + 1), 0


_batching.primitive_batchers[uf_p] = _uf_batch


def make_uf(B, name, out_shape):
    """an arbitrary function  R^k -> R^out_shape  (k = size of the single array argument).
    symbolic back end: uninterpreted (every application yields fresh symbols, equal arguments give equal values);
    concrete back end (replay): a fixed generic smooth function."""
    out_shape = tuple(out_shape)
    m = int(np.prod(out_shape)) if out_shape else 1
    if B.mode == "sym":
        return lambda x: uf_p.bind(jnp.asarray(x), name=name, out_shape=out_shape, nbatch=0)
    rng = np.random.default_rng(abs(hash(name)) % (2 ** 31))

    def f(x):
        x = jnp.ravel(x)
        w = jnp.asarray(rng.normal(size=(m, x.shape[0])))
        w = jnp.asarray(np.random.default_rng(len(name) + m).normal(size=(m, x.shape[0])))
        return (jnp.sin(w @ x) + (w @ x) ** 2).reshape(out_shape)
    return f


def _p_vf_uf(self, ins, params, eqn):
    x = _asobj(ins[0])
    nb, out_shape, name = params["nbatch"], tuple(params["out_shape"]), params["name"]
    bshape = x.shape[:nb]
    m = int(np.prod(out_shape)) if out_shape else 1
    out = np.empty(bshape + (m,), dtype=object)
    for bidx in np.ndindex(*bshape):
        args = list(x[bidx].reshape(-1))
        for j in range(m):
            out[bidx + (j,)] = self.B.ufun(f"{name}{j}", args)
    return [out.reshape(bshape + out_shape)]


def _asobj(v):
    if is_sym(v):
        return v
    a = np.asarray(v)
    if a.dtype == object:
        return a
    out = np.empty(a.shape, dtype=object)
    for idx in np.ndindex(*a.shape):
        out[idx] = a[idx].item()
    return out


# ----------------------------------------------------------------------------
# harness entry point


def _example(leaf):
    a = np.asarray(leaf) if not isinstance(leaf, np.ndarray) else leaf
    if a.dtype == object:
        if a.size and all(isinstance(v, SI) for v in a.reshape(-1)):
            return np.zeros(a.shape, dtype=np.int64)
        cplx = any(isinstance(v, SC) for v in a.reshape(-1))
        return np.zeros(a.shape, dtype=np.complex128 if cplx else np.float64)
    return a


def jcall(B, fn, *args, while_bound=4, interp=None, fork=False):
    """call the real JAX function ``fn`` on a pytree of NumPy arrays.

    symbolic back end: trace to a jaxpr at the arguments' shapes and interpret it over the symbolic leaves;
    concrete back end (replay): call the real function on jnp arrays."""
    leaves, treedef = jax.tree_util.tree_flatten(args, is_leaf=lambda x: isinstance(x, np.ndarray) or isinstance(x, (SR, SC, SI)))
    leaves = [np.asarray(l, dtype=object) if isinstance(l, (SR, SC, SI)) else l for l in leaves]
    if B.mode != "sym":
        def _num(l):
            l = np.asarray(l)
            if l.dtype == object:            # concrete numbers that travelled through an object array
                l = np.array(l.tolist())
            return jnp.asarray(l)
        cargs = jax.tree_util.tree_unflatten(treedef, [_num(l) for l in leaves])
        out = fn(*cargs)
        return jax.tree_util.tree_map(lambda x: np.asarray(x), out)
    examples = [_example(l) for l in leaves]

    def flat_fn(*ls):
        return fn(*jax.tree_util.tree_unflatten(treedef, list(ls)))
    closed, out_shape = jax.make_jaxpr(flat_fn, return_shape=True)(*examples)
    STATS["jaxprs"] += 1
    it = interp or Interp(while_bound=while_bound)
    it.B = B
    old = FORK[0]
    FORK[0] = bool(fork)
    try:
        outs = it.eval_closed(closed, *leaves)
    finally:
        FORK[0] = old
    for cnd in it.unwinding:
        B.holds("unwinding assertion: loop bound sufficient", ~cnd if isinstance(cnd, SB) else (not cnd))
    it.unwinding = []
    out_leaves, out_tree = jax.tree_util.tree_flatten(out_shape)
    return jax.tree_util.tree_unflatten(out_tree, outs)


def validate(fn, *args, rtol=1e-9, seed=0):
    """Serval-style translator validation: interpret the jaxpr with *float* object arrays through the symbolic
    implementations and compare with the real function.  -> number of outputs compared (raises on mismatch)"""
    leaves, treedef = jax.tree_util.tree_flatten(args)
    leaves = [np.asarray(l) for l in leaves]

    def flat_fn(*ls):
        return fn(*jax.tree_util.tree_unflatten(treedef, list(ls)))
    closed, out_shape = jax.make_jaxpr(flat_fn, return_shape=True)(*leaves)
    real = jax.tree_util.tree_leaves(flat_fn(*[jnp.asarray(l) for l in leaves]))
    it = Interp(validate=True)
    ins = [_asobj(l) if np.issubdtype(l.dtype, np.inexact) else l for l in leaves]
    got = it.eval_closed(closed, *ins)
    n = 0
    for g, r in zip(got, real):
        g = np.array([complex(v) if not isinstance(v, (bool, np.bool_)) else v for v in np.asarray(g, dtype=object).reshape(-1)])
        r = np.asarray(r).reshape(-1).astype(complex)
        if g.shape != r.shape or not np.allclose(g.astype(complex), r, rtol=rtol, atol=1e-12):
            raise sc.HarnessError(f"jaxpr interpreter disagrees with the real function: {g} vs {r}")
        n += 1
    STATS["validated"] += n
    return n


Interp.p_vf_uf = _p_vf_uf
