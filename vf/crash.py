"""Crash-point injection for persistence properties.

A run is "killed" at the k-th mutation of the file system made through the names the code under test uses (open for
writing, os.remove / Path.unlink, os.replace / os.rename, makedirs): either just BEFORE the operation, or -- for a file
opened for writing -- AFTER it has been created/truncated but before any content reached it (the state a kill between
open() and the first flush leaves behind).  k and the variant are symbolic integers of the harness; the kill is a
BaseException that unwinds the run."""
import builtins
import os
import pathlib


class Kill(BaseException):
    pass


class Injector:
    def __init__(self, modules, crash_at=None, variant="before", root=None):
        """modules: module objects whose global name `open` / `makedirs` is redirected; os.* and pathlib are patched globally
        while active.  Only paths below `root` count."""
        self.modules = modules
        self.crash_at = crash_at
        self.variant = variant
        self.root = os.path.realpath(root) if root else None
        self.count = 0
        self.log = []

    def _mine(self, path):
        try:
            p = os.path.realpath(os.fspath(path))
        except TypeError:
            return False
        return self.root is None or p.startswith(self.root)

    def _tick(self, what, path):
        """-> True if the run dies before this operation"""
        k = self.count
        self.count += 1
        self.log.append(f"{k}:{what}:{os.path.relpath(os.fspath(path), self.root) if self.root else path}")
        return self.crash_at is not None and k == self.crash_at

    def __enter__(self):
        inj = self
        self._saved = []
        real_open = builtins.open

        def open_(file, mode="r", *a, **k):
            if isinstance(file, (str, bytes, os.PathLike)) and any(c in mode for c in "wax+") and inj._mine(file):
                if inj._tick("open-" + mode, file):
                    if inj.variant == "truncated":
                        real_open(file, mode, *a, **k).close()     # created / truncated, nothing written
                    raise Kill(inj.log[-1])
            return real_open(file, mode, *a, **k)
        for m in self.modules:
            self._saved.append((m, "open", m.__dict__.get("open", None)))
            m.open = open_

        def wrap(obj, name, what, patharg=0):
            orig = getattr(obj, name)

            def f(*a, **k):
                p = a[patharg] if len(a) > patharg else None
                if p is not None and inj._mine(p):
                    if inj._tick(what, p):
                        raise Kill(inj.log[-1])
                return orig(*a, **k)
            self._saved.append((obj, name, orig))
            setattr(obj, name, f)
        wrap(os, "remove", "remove")
        wrap(os, "unlink", "remove")
        wrap(os, "replace", "replace", 1)
        wrap(os, "rename", "rename", 1)
        orig_unlink = pathlib.Path.unlink

        def unlink(self_, *a, **k):
            if inj._mine(self_) and os.path.lexists(self_):
                if inj._tick("remove", self_):
                    raise Kill(inj.log[-1])
            return orig_unlink(self_, *a, **k)
        self._saved.append((pathlib.Path, "unlink", orig_unlink))
        pathlib.Path.unlink = unlink
        return self

    def __exit__(self, *a):
        for obj, name, orig in reversed(self._saved):
            if name == "open" and not isinstance(obj, type) and hasattr(obj, "__dict__") and obj is not os:
                if orig is None:
                    obj.__dict__.pop("open", None)
                else:
                    obj.open = orig
            else:
                setattr(obj, name, orig)
        return False
