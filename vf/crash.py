"""Crash-point injection for persistence properties.

A run is "killed" at the k-th mutation of the file system made through the names the code under test uses (open for
writing, os.remove / Path.unlink, os.replace / os.rename): either just BEFORE the operation, or -- for a file opened for
writing -- AFTER it has been created/truncated but before any content reached it, or -- for remove / replace -- right AFTER
the operation completed.  Files opened for writing are wrapped: their data reaches the disk only at flush() / close(), and a
kill discards whatever is still buffered (the unwinding exception runs `with` blocks, a real kill would not flush).  k and the variant are symbolic integers of the harness; the kill is a
BaseException that unwinds the run."""
import builtins
import os
import pathlib


class Kill(BaseException):
    pass


class _Writer:
    """file opened for writing below the root: data reaches the file only at flush() / close(), and never once the run
    has been killed -- a kill loses whatever sits in user-space buffers"""

    def __init__(self, inj, real):
        self._inj, self._real, self._buf = inj, real, []

    def write(self, data):
        self._buf.append(data)
        return len(data)

    def writelines(self, lines):
        for l in lines:
            self.write(l)

    def flush(self):
        if self._inj.dead:
            self._buf = []
            return
        for d in self._buf:
            self._real.write(d)
        self._buf = []
        self._real.flush()

    def close(self):
        if not self._real.closed:
            self.flush()
            self._real.close()

    def __enter__(self):
        return self

    def __exit__(self, *a):
        self.close()
        return False

    def __getattr__(self, k):
        return getattr(self._real, k)


class Injector:
    def __init__(self, modules, crash_at=None, variant="before", root=None):
        """modules: module objects whose global name `open` / `makedirs` is redirected; os.* and pathlib are patched globally
        while active.  Only paths below `root` count."""
        self.modules = modules
        self.crash_at = crash_at
        self.variant = variant
        self.root = os.path.realpath(root) if root else None
        self.count = 0
        self.log = []
        self.dead = False

    def _mine(self, path):
        try:
            p = os.path.realpath(os.fspath(path))
        except TypeError:
            return False
        return self.root is None or p.startswith(self.root)

    def _tick(self, what, path):
        """-> True if the run dies before this operation"""
        k = self.count
        self.count += 1
        self.log.append(f"{k}:{what}:{os.path.relpath(os.fspath(path), self.root) if self.root else path}")
        return self.crash_at is not None and k == self.crash_at

    def __enter__(self):
        inj = self
        self._saved = []
        real_open = builtins.open

        def open_(file, mode="r", *a, **k):
            if isinstance(file, (str, bytes, os.PathLike)) and any(c in mode for c in "wax+") and inj._mine(file):
                if inj._tick("open-" + mode, file):
                    if inj.variant == "truncated":
                        real_open(file, mode, *a, **k).close()     # created / truncated, nothing written
                    inj.dead = True
                    raise Kill(inj.log[-1])
                return _Writer(inj, real_open(file, mode, *a, **k))
            return real_open(file, mode, *a, **k)
        for m in self.modules:
            self._saved.append((m, "open", m.__dict__.get("open", None)))
            m.open = open_

        def wrap(obj, name, what, patharg=0):
            orig = getattr(obj, name)

            def f(*a, **k):
                p = a[patharg] if len(a) > patharg else None
                if p is not None and inj._mine(p):
                    if inj._tick(what, p):
                        if inj.variant == "after":
                            try:
                                orig(*a, **k)           # the operation itself completed, the process dies right after it
                            except OSError:
                                pass
                        inj.dead = True
                        raise Kill(inj.log[-1])
                return orig(*a, **k)
            self._saved.append((obj, name, orig))
            setattr(obj, name, f)
        wrap(os, "remove", "remove")
        wrap(os, "unlink", "remove")
        wrap(os, "replace", "replace", 1)
        wrap(os, "rename", "rename", 1)
        orig_unlink = pathlib.Path.unlink

        def unlink(self_, *a, **k):
            if inj._mine(self_) and os.path.lexists(self_):
                if inj._tick("remove", self_):
                    if inj.variant == "after":
                        try:
                            orig_unlink(self_, *a, **k)
                        except OSError:
                            pass
                    inj.dead = True
                    raise Kill(inj.log[-1])
            return orig_unlink(self_, *a, **k)
        self._saved.append((pathlib.Path, "unlink", orig_unlink))
        pathlib.Path.unlink = unlink
        return self

    def __exit__(self, *a):
        for obj, name, orig in reversed(self._saved):
            if name == "open" and not isinstance(obj, type) and hasattr(obj, "__dict__") and obj is not os:
                if orig is None:
                    obj.__dict__.pop("open", None)
                else:
                    obj.open = orig
            else:
                setattr(obj, name, orig)
        return False
