"""Scenario scheduling, replay, known findings, evidence, exit codes."""
import concurrent.futures as cf
import fnmatch
import hashlib
import importlib
import json
import multiprocessing as mp
import os
import tempfile
import sys
import time
import traceback

VERIF_ROOT = os.path.dirname(os.path.dirname(os.path.abspath(__file__)))
REPO = os.environ.get("VERIF_REPO", "/repo")


def _worker_init(repo, own_group=False):
    if own_group:
        try:
            os.setpgrp()          # solver subprocesses share the worker's group and are killed with it
        except OSError:
            pass
        import threading
        parent = os.getppid()

        def _watch():
            # if the check itself is killed from outside, the worker and its solvers must not linger
            import signal
            while True:
                time.sleep(1.0)
                if os.getppid() != parent:
                    try:
                        os.killpg(0, signal.SIGKILL)
                    except Exception:
                        os._exit(1)
        threading.Thread(target=_watch, daemon=True).start()
    os.environ.setdefault("JAX_PLATFORMS", "cpu")
    os.environ.setdefault("OMP_NUM_THREADS", "1")
    os.environ.setdefault("XLA_FLAGS", "--xla_cpu_multi_thread_eigen=false intra_op_parallelism_threads=1")
    if repo not in sys.path:
        sys.path.insert(0, repo)
    if VERIF_ROOT not in sys.path:
        sys.path.insert(0, VERIF_ROOT)


def _load(prop):
    return importlib.import_module(f"vf.props.{prop.lower()}")


def _work(args):
    prop, hname, desc, opts = args
    from . import harness
    mod = _load(prop)
    if hasattr(mod, "setup"):
        mod.setup()
    hfn = mod.HARNESSES[hname]
    t0 = time.time()
    import io
    real_stdout = sys.stdout
    sys.stdout = io.StringIO()   # the code under test may print (e.g. MatrixProductOperator.apply)
    try:
        if getattr(hfn, "custom", False):
            out = hfn(desc, opts)
        else:
            out = harness.run_symbolic(prop, hname, hfn, desc,
                                       max_paths=opts.get("max_paths", 256),
                                       branch_timeout_ms=opts.get("branch_timeout_ms", 20000),
                                       obl_timeout_ms=opts.get("obl_timeout_ms"))
            # replay inside the worker (shims are dtype-dispatching -> inert on floats)
            for v in out["violations"]:
                v["replay"] = harness.run_concrete(hfn, desc, v["model"])
            for e in out["error_paths"]:
                if e.get("model") is not None and not e.get("inconclusive"):
                    e["replay"] = harness.run_concrete(hfn, desc, e["model"])
            for inc in out["inconclusive"]:
                if inc.get("candidate_model"):
                    inc["replay"] = harness.run_concrete(hfn, desc, inc["candidate_model"])
    except Exception as e:
        out = {"prop": prop, "harness": hname, "desc": desc, "harness_error":
               "".join(traceback.format_exception(type(e), e, e.__traceback__))[-3000:]}
    finally:
        sys.stdout = real_stdout
    out.setdefault("wall", time.time() - t0)
    from . import symcore
    out["solver_stats"] = dict(symcore.STATS)
    for k in symcore.STATS:
        symcore.STATS[k] = 0 if isinstance(symcore.STATS[k], int) else 0.0
    return out


def load_known(prop):
    known, fixed = [], []
    p = os.path.join(VERIF_ROOT, "known_findings.txt")
    if not os.path.exists(p):
        return known, fixed
    for line in open(p):
        line = line.strip()
        if not line or line.startswith("#"):
            continue
        kind, _, rest = line.partition(":")
        rest = rest.strip()
        toks = rest.split()
        kv = {}
        for t in toks:
            if "=" in t:
                a, b = t.split("=", 1)
                kv[a] = b
            else:
                break
        if kv.get("property") != prop:
            continue
        if kind == "known":
            known.append({"scenario": kv.get("scenario", "*"), "label": kv.get("label", "*"),
                          "text": rest})
        elif kind == "fixed":
            fixed.append(rest)
    return known, fixed


def scenario_key(hname, desc):
    return hname + "/" + ",".join(f"{k}={desc[k]}" for k in sorted(desc)).replace(" ", "")


def run_property(prop, scenarios, opts, meta):
    """scenarios: list of (hname, desc).  meta: dict with evidence texts.
    Returns process exit code."""
    t0 = time.time()
    tier = opts.get("tier", "quick")
    seed = int(os.environ.get("VERIF_SEED", "0"))
    nproc = int(os.environ.get("VERIF_JOBS", str(min(opts.get("jobs", 16), os.cpu_count() or 4))))
    deadline = t0 + opts.get("budget_s", 150 if tier == "quick" else 1500)
    jobs = [(prop, h, d, opts) for (h, d) in scenarios]
    results = []
    not_run = 0
    ctx = mp.get_context("spawn")
    if nproc <= 1 or len(jobs) <= 1:
        _worker_init(REPO)
        for j in jobs:
            if time.time() > deadline:
                not_run += 1
                continue
            results.append(_work(j))
    else:
        with cf.ProcessPoolExecutor(max_workers=min(nproc, len(jobs)), mp_context=ctx,
                                    initializer=_worker_init, initargs=(REPO, True)) as ex:
            futs = [ex.submit(_work, j) for j in jobs]
            for f, j in zip(futs, jobs):
                left = deadline - time.time()
                try:
                    results.append(f.result(timeout=max(left, 1)))
                except cf.TimeoutError:
                    not_run += 1
                    print(f"NOT-FINISHED {scenario_key(j[1], j[2])}")
                    f.cancel()
                except Exception as e:
                    results.append({"harness_error": repr(e), "prop": prop, "harness": "?", "desc": {}})
            if not_run:
                import signal
                for p in list(ex._processes.values()):
                    try:
                        os.killpg(p.pid, signal.SIGKILL)
                    except Exception:
                        try:
                            p.kill()
                        except Exception:
                            pass
    return finish(prop, results, not_run, opts, meta, t0, tier, seed)


def finish(prop, results, not_run, opts, meta, t0, tier, seed):
    known, fixed = load_known(prop)
    viol_new, viol_known, harness_errors, inconclusive = [], [], [], []
    tot = dict(paths=0, obligations=0, discharged=0, trivial=0, t_solver=0.0)
    samples = []
    nontrivial_scen = 0
    labels = {}
    stats = {}
    incomplete = 0
    incomplete_keys = []
    for r in results:
        if "harness_error" in r:
            harness_errors.append({"scenario": scenario_key(r.get("harness", "?"), r.get("desc", {})),
                                   "error": r["harness_error"]})
            continue
        key = scenario_key(r["harness"], r["desc"])
        for k in tot:
            tot[k] += r.get(k, 0)
        for k, v in r.get("solver_stats", {}).items():
            stats[k] = stats.get(k, 0) + v
        for k, v in r.get("labels", {}).items():
            labels[k] = labels.get(k, 0) + v
        if r.get("obligations", 0) - r.get("trivial", 0) > 0:
            nontrivial_scen += 1
        if not r.get("complete", True):
            incomplete += 1
            incomplete_keys.append(key)
        if len(samples) < 4 and r.get("samples"):
            s = dict(r["samples"][0])
            s["scenario"] = key
            samples.append(s)
        for v in r.get("violations", []):
            rp = v.get("replay") or {}
            reproduced = (v["label"] in (rp.get("failed") or [])) or (rp.get("raised") is not None and rp.get("raised_origin") == "repo")
            if rp.get("assumption_broken"):
                reproduced = False
            item = {"scenario": key, "harness": r["harness"], "desc": r["desc"], "label": v["label"],
                    "model": v["model"], "replay": rp}
            if not reproduced:
                harness_errors.append({"scenario": key, "error":
                                       f"solver model for '{v['label']}' does not reproduce on the real code "
                                       f"(replay={rp})", "model": v["model"]})
                continue
            _classify(item, known, viol_known, viol_new)
        for e in r.get("error_paths", []):
            if e.get("inconclusive"):
                inconclusive.append({"scenario": key, "label": "path:" + e["msg"][:80]})
                continue
            rp = e.get("replay")
            if rp is not None and rp.get("raised") and not rp.get("assumption_broken") \
                    and rp["raised"].split(":")[0] == e["type"] and e.get("origin") == "repo" \
                    and rp.get("raised_origin") == "repo":
                item = {"scenario": key, "harness": r["harness"], "desc": r["desc"],
                        "label": "raises:" + e["type"], "model": e["model"], "replay": rp}
                _classify(item, known, viol_known, viol_new)
            else:
                harness_errors.append({"scenario": key, "error": f"path ended in {e['type']}: {e['msg']}\n{e.get('tb','')}",
                                       "replay": rp})
        for inc in r.get("inconclusive", []):
            rp = inc.get("replay") or {}
            if rp.get("failed") and not rp.get("assumption_broken"):
                item = {"scenario": key, "harness": r["harness"], "desc": r["desc"],
                        "label": inc["label"], "model": inc["candidate_model"], "replay": rp}
                if inc["label"] in rp["failed"]:
                    _classify(item, known, viol_known, viol_new)
                    continue
            inconclusive.append({"scenario": key, "label": inc["label"]})

    if os.environ.get("VERIF_VERBOSE"):
        slow = sorted([r for r in results if "harness" in r], key=lambda r: -r.get("wall", 0))[:12]
        for r in slow:
            print(f"SLOW {r.get('wall', 0):.1f}s paths={r.get('paths')} obl={r.get('obligations')} "
                  f"{scenario_key(r['harness'], r['desc'])}")
    # replay files + output lines
    code = 0
    rdir = os.path.join(VERIF_ROOT, "replays", prop)
    printed_known = set()
    for it in viol_known:
        if it["known_text"] not in printed_known:
            printed_known.add(it["known_text"])
            print(f"KNOWN-FINDING: {it['known_text']}")
    seen_v = set()
    for it in viol_new:
        if (it["scenario"], it["label"]) in seen_v:
            continue
        seen_v.add((it["scenario"], it["label"]))
        os.makedirs(rdir, exist_ok=True)
        h = hashlib.sha1((it["scenario"] + it["label"]).encode()).hexdigest()[:12]
        path = os.path.join(rdir, f"{h}.json")
        with open(path, "w") as f:
            json.dump({"property": prop, "harness": it["harness"], "desc": it["desc"],
                       "label": it["label"], "model": it["model"], "replay_result": it["replay"]},
                      f, indent=1, default=str)
        print(f"VIOLATION property={prop} replay={path}")
        print(f"  scenario={it['scenario']} label={it['label']} replay={it['replay']}")
        code = 1
    for he in harness_errors[:10]:
        print(f"HARNESS-ERROR property={prop} scenario={he['scenario']}\n  {he['error'][-2500:]}")
    for inc in inconclusive[:10]:
        print(f"INCONCLUSIVE property={prop} scenario={inc['scenario']} label={inc['label']}")
    for k in incomplete_keys[:10]:
        print(f"INCOMPLETE property={prop} scenario={k}: the path limit was reached before all feasible paths were explored")
    if not_run:
        print(f"NOT-RUN property={prop}: {not_run} scenarios did not finish inside the time budget")
    if harness_errors and code == 0:
        code = 2
    if os.environ.get("VERIF_STRICT") and code == 0 and (inconclusive or not_run or incomplete):
        code = 2

    wall = time.time() - t0
    n_scen = len([r for r in results if "harness_error" not in r])
    cov = {
        "explanation": meta.get("explanation", ""),
        "evaluations": n_scen,
        "distinct_nontrivial": nontrivial_scen,
        "rule": meta.get("rule", "one evaluation = one scenario (configuration) executed symbolically over all "
                         "its feasible paths; non-trivial = at least one of its obligations was not already "
                         "normalised to 'false' by the solver's rewriter and needed a decision-procedure call"),
        "samples": samples if samples else [{"note": "no non-trivial obligation text captured"}],
        "functions_encoded": meta.get("functions_encoded", []),
        "bounds": meta.get("bounds", {}),
        "stubs": meta.get("stubs", []),
        "outside_claim": meta.get("outside", []),
        "paths": tot["paths"],
        "obligations": tot["obligations"],
        "discharged": tot["discharged"],
        "discharged_by_rewriter": tot["trivial"],
        "inconclusive": len(inconclusive),
        "inconclusive_list": inconclusive[:20],
        "scenarios_not_run": not_run,
        "scenarios_incomplete_exploration": incomplete,
        "obligation_labels": labels,
        "solver": {k: (round(v, 3) if isinstance(v, float) else v) for k, v in stats.items()},
        "solver_portfolio": "out-of-process, hard time-outs: /usr/bin/z3 4.8.12, then race of z3 4.8.12 | "
                            "z3 5.1 default | z3 5.1 qfnra-nlsat (vf/smt.py)",
        "known_findings_hit": sorted(printed_known),
        "fixed_findings": fixed,
        "harness_errors": len(harness_errors),
        "exhaustive": False,
        "repo": REPO,
    }
    cov.update(meta.get("extra_coverage", {}))
    ev = {
        "property_id": prop, "tier": tier, "seed": seed, "level": meta.get("level", "other"),
        "coverage": cov,
        "assumptions": meta.get("assumptions", []) + [
            "exact real arithmetic: round-off, overflow, NaN/Inf are outside the claim",
            "transcendental functions are uninterpreted with the axiom instances listed in vf/symcore.AXIOMS_DOC",
        ],
        "wall_s": round(wall, 2),
        "violations": len(viol_new),
    }
    # evidence describes runs against /repo itself; runs against a scratch tree (seeded changes, mutations) and runs of a
    # scenario subset (--only / --limit) write elsewhere so that they can never be mistaken for it
    evdir = os.path.join(VERIF_ROOT, "evidence")
    if os.path.realpath(REPO) != os.path.realpath("/repo") or opts.get("subset"):
        evdir = os.path.join(tempfile.gettempdir(), "vf_evidence_scratch")
    os.makedirs(evdir, exist_ok=True)
    with open(os.path.join(evdir, f"{prop}.json"), "w") as f:
        json.dump(ev, f, indent=1, default=str)
    print(f"{prop} tier={tier}: scenarios={n_scen} paths={tot['paths']} obligations={tot['obligations']} "
          f"discharged={tot['discharged']} inconclusive={len(inconclusive)} violations={len(viol_new)} "
          f"known={len(viol_known)} harness_errors={len(harness_errors)} wall={wall:.1f}s exit={code}")
    return code


def _classify(item, known, viol_known, viol_new):
    for k in known:
        if fnmatch.fnmatch(item["scenario"], k["scenario"]) and fnmatch.fnmatch(item["label"], k["label"]):
            item["known_text"] = k["text"]
            viol_known.append(item)
            return
    viol_new.append(item)


def replay_file(path):
    """./vcheck <id> --replay <file>: re-run the stored counterexample concretely."""
    from . import harness
    d = json.load(open(path))
    _worker_init(REPO)
    mod = _load(d["property"])
    if hasattr(mod, "setup"):
        mod.setup()
    hfn = mod.HARNESSES[d["harness"]]
    if getattr(hfn, "custom", False):
        out = hfn.replay(d)
    else:
        out = harness.run_concrete(hfn, d["desc"], d["model"])
    print(json.dumps(out, indent=1, default=str))
    bad = bool(out.get("failed")) or out.get("raised") is not None
    print("REPRODUCED" if bad else "NOT-REPRODUCED")
    return 1 if bad else 0
