"""Stubs that let unmodified ``nifty.cl`` run on object arrays of symbolic scalars.

Every stub dispatches on ``dtype == object`` (or on a symbolic scalar argument)
and calls the original implementation otherwise, so concrete replays run through
the real kernels.  Each stub is listed in ``STUBS`` with its contract; the list
is copied into every evidence file that uses this front end.
"""
import builtins
import contextlib

import numpy as np

from . import symcore as sc
from .symcore import SR, SC, SB

STUBS = [
    "any_array.cpu_vdot (ducc0.misc.vdot): sum(conj(a)*b) for object arrays",
    "diagonal_operator.mul_conj2/div_conj2 (ducc0 experimental): a*conj(b), a/conj(b) -- the module's own ImportError fallback",
    "utilities.iscomplextype: object dtype counts as complex iff the scenario runs in complex mode",
    "AnyArray.norm on object arrays: sqrt(sum |x_i|^2), sum |x_i|, max |x_i| written out (np.linalg.norm omits the conjugation for object dtype)",
    "AnyArray.real/.imag: element-wise on object arrays (NumPy returns self / zeros for object dtype)",
    "module-level numpy proxy: isnan/isfinite (False/True on symbolic reals), empty/zeros/ones/full (object arrays "
    "while a symbolic path is active), sqrt/exp/log/... on scalars call the symbolic scalar's method; "
    "bincount/searchsorted/unique/nonzero have pure-Python object versions that fork on symbolic comparisons",
    "builtin float() in line_search / rg_space: identity on symbolic scalars",
    "utilities.check_dtype_or_none: dtype `object` (a symbolic field) is accepted as a sampling dtype",
    "DiagonalOperator._fill_rest: a symbolic diagonal counts as complex iff it holds a complex symbolic scalar (the real code asks the dtype)",
]

_installed = False
COMPLEX_MODE = [False]


@contextlib.contextmanager
def complex_mode(flag):
    old = COMPLEX_MODE[0]
    COMPLEX_MODE[0] = bool(flag)
    try:
        yield
    finally:
        COMPLEX_MODE[0] = old


def is_sym(x):
    return isinstance(x, (SR, SC, SB))


def _isobj(a):
    return isinstance(a, np.ndarray) and a.dtype == object


def symbolic_active():
    return sc.Ctx.cur is not None


# ---------------------------------------------------------------------------
# numpy proxy


def _elemwise(name, npf):
    def f(x, *a, **k):
        if is_sym(x):
            return getattr(x, name)(*a)
        if symbolic_active() and isinstance(x, (int, float, np.integer, np.floating)) and not a and not k \
                and name in ("sqrt", "exp", "log", "log10", "log1p", "expm1", "sin", "cos", "tan", "tanh",
                             "sinh", "cosh", "arctan"):
            # keep run-time constants exact (np.sqrt(0.5) -> algebraic number)
            return getattr(SR(sc.q(x)), name)()
        return npf(x, *a, **k)
    return f


class NPProxy:
    """stand-in for the ``np`` name inside one NIFTy module"""

    def __init__(self, extra=None):
        self._extra = extra or {}

    def __getattr__(self, k):
        if k in self._extra:
            return self._extra[k]
        return getattr(np, k)

    @staticmethod
    def isnan(x, *a, **k):
        if is_sym(x):
            return False
        if _isobj(x):
            return np.zeros(x.shape, dtype=bool)
        if hasattr(x, "val") and _isobj(getattr(x, "val", None)):
            return np.zeros(x.shape, dtype=bool)
        return np.isnan(x, *a, **k)

    @staticmethod
    def isfinite(x, *a, **k):
        if is_sym(x):
            return True
        if _isobj(x):
            return np.ones(x.shape, dtype=bool)
        return np.isfinite(x, *a, **k)

    @staticmethod
    def isinf(x, *a, **k):
        if is_sym(x):
            return False
        if _isobj(x):
            return np.zeros(x.shape, dtype=bool)
        return np.isinf(x, *a, **k)

    @staticmethod
    def empty(shape, dtype=None, **k):
        if symbolic_active() and (dtype is None or np.issubdtype(np.dtype(dtype), np.inexact)):
            return np.empty(shape, dtype=object).view(sc.SymArr)
        return np.empty(shape, dtype=dtype, **k)

    @staticmethod
    def zeros(shape, dtype=None, **k):
        if symbolic_active() and (dtype is None or np.issubdtype(np.dtype(dtype), np.inexact)):
            a = np.empty(shape, dtype=object)
            a.fill(0)
            return a.view(sc.SymArr)
        return np.zeros(shape, dtype=dtype, **k)

    @staticmethod
    def ones(shape, dtype=None, **k):
        if symbolic_active() and (dtype is None or np.issubdtype(np.dtype(dtype), np.inexact)):
            a = np.empty(shape, dtype=object)
            a.fill(1)
            return a.view(sc.SymArr)
        return np.ones(shape, dtype=dtype, **k)

    @staticmethod
    def full(shape, val, dtype=None, **k):
        if is_sym(val):
            a = np.empty(shape, dtype=object)
            a.fill(val)
            return a.view(sc.SymArr)
        return np.full(shape, val, dtype=dtype, **k)

    @staticmethod
    def abs(x, *a, **k):
        if is_sym(x):
            return abs(x)
        return np.abs(x, *a, **k)

    absolute = abs

    @staticmethod
    def sqrt(x, *a, **k):
        return _elemwise("sqrt", np.sqrt)(x, *a, **k)

    @staticmethod
    def exp(x, *a, **k):
        return _elemwise("exp", np.exp)(x, *a, **k)

    @staticmethod
    def log(x, *a, **k):
        return _elemwise("log", np.log)(x, *a, **k)

    @staticmethod
    def log1p(x, *a, **k):
        return _elemwise("log1p", np.log1p)(x, *a, **k)

    @staticmethod
    def expm1(x, *a, **k):
        return _elemwise("expm1", np.expm1)(x, *a, **k)

    @staticmethod
    def log10(x, *a, **k):
        return _elemwise("log10", np.log10)(x, *a, **k)

    @staticmethod
    def sin(x, *a, **k):
        return _elemwise("sin", np.sin)(x, *a, **k)

    @staticmethod
    def cos(x, *a, **k):
        return _elemwise("cos", np.cos)(x, *a, **k)

    @staticmethod
    def tanh(x, *a, **k):
        return _elemwise("tanh", np.tanh)(x, *a, **k)

    @staticmethod
    def arctan(x, *a, **k):
        return _elemwise("arctan", np.arctan)(x, *a, **k)

    @staticmethod
    def sign(x, *a, **k):
        return _elemwise("sign", np.sign)(x, *a, **k)

    @staticmethod
    def asarray(x, dtype=None, **k):
        if is_sym(x):
            a = np.empty((), dtype=object)
            a[()] = x
            return a.view(sc.SymArr)
        if _isobj(x):
            # np.asarray of an ndarray subclass instance is a NEW base-class view (same memory, own flags); the
            # engine's array type is kept, the new-object semantics too
            return x if type(x) is np.ndarray else x.view(type(x))
        return np.asarray(x, dtype=dtype, **k)

    @staticmethod
    def isscalar(x):
        return is_sym(x) or np.isscalar(x)

    @staticmethod
    def isreal(x):
        if isinstance(x, SR):
            return True
        if isinstance(x, SC):
            return False
        return np.isreal(x)

    @staticmethod
    def iscomplex(x):
        if isinstance(x, SC):
            return True
        if isinstance(x, SR):
            return False
        return np.iscomplex(x)

    @staticmethod
    def iscomplexobj(x):
        if isinstance(x, SC):
            return True
        if isinstance(x, SR):
            return False
        if _isobj(x):
            # an object array is complex iff it holds a complex scalar (a real
            # field in a complex-mode scenario is an array of symbolic reals)
            return any(isinstance(v, (SC, complex, np.complexfloating)) for v in x.reshape(-1))
        if hasattr(x, "_val") and _isobj(getattr(x, "_val", None)):
            return any(isinstance(v, (SC, complex, np.complexfloating)) for v in x._val.reshape(-1))
        return np.iscomplexobj(x)

    @staticmethod
    def maximum(a, b, *r, **k):
        if is_sym(a) or is_sym(b):
            a, b = sc._lift(a), sc._lift(b)
            return a.maximum(b)
        return np.maximum(a, b, *r, **k)

    @staticmethod
    def minimum(a, b, *r, **k):
        if is_sym(a) or is_sym(b):
            a, b = sc._lift(a), sc._lift(b)
            return a.minimum(b)
        return np.minimum(a, b, *r, **k)

    @staticmethod
    def bincount(x, weights=None, minlength=0):
        wrapped = hasattr(x, "_val") or hasattr(weights, "_val")
        xv = getattr(x, "_val", x)
        wv = getattr(weights, "_val", weights)
        if wv is not None and _isobj(np.asarray(wv) if not isinstance(wv, np.ndarray) else wv):
            xv = np.asarray(xv)
            n = max(int(xv.max()) + 1 if xv.size else 0, minlength)
            out = np.empty(n, dtype=object)
            out.fill(0)
            for i, w in zip(xv, wv):
                out[int(i)] = out[int(i)] + w
            out = out.view(sc.SymArr)
            if wrapped:
                from nifty.cl.any_array import AnyArray
                return AnyArray(out)
            return out
        return np.bincount(x, weights=weights, minlength=minlength)

    @staticmethod
    def searchsorted(a, v, side="left", sorter=None):
        a_ = np.asarray(a)
        v_ = np.asarray(v)
        if a_.dtype == object or v_.dtype == object:
            assert sorter is None

            def one(val):
                # number of entries of a that are < val (left) or <= val (right); a sorted
                k = 0
                for e in a_:
                    c = (e < val) if side == "left" else (e <= val)
                    if bool(c):
                        k += 1
                    else:
                        break
                return k
            if v_.shape == ():
                return one(v_[()])
            out = np.empty(v_.shape, dtype=np.int64)
            for idx in np.ndindex(*v_.shape):
                out[idx] = one(v_[idx])
            return out
        return np.searchsorted(a, v, side=side, sorter=sorter)

    @staticmethod
    def unique(ar, *a, **k):
        ar_ = np.asarray(ar)
        if ar_.dtype == object:
            if a or any(k.values()):
                raise sc.HarnessError("np.unique shim: extra arguments not supported")
            vals = []
            for e in ar_.reshape(-1):
                # insertion into a sorted list without duplicates, forking on comparisons
                pos = 0
                dup = False
                for u in vals:
                    if bool(e == u):
                        dup = True
                        break
                    if bool(e > u):
                        pos += 1
                    else:
                        break
                if not dup:
                    vals.insert(pos, e)
            out = np.empty(len(vals), dtype=object)
            for i, u in enumerate(vals):
                out[i] = u
            return out.view(sc.SymArr)
        return np.unique(ar, *a, **k)


def sym_float(x):
    if is_sym(x):
        return x
    if isinstance(x, np.ndarray) and x.dtype == object and x.shape == ():
        return x[()]
    return builtins.float(x)


# ---------------------------------------------------------------------------


def install():
    """idempotent; patches module namespaces of the *imported* nifty.cl"""
    global _installed
    if _installed:
        return
    _installed = True
    import nifty.cl as ift  # noqa
    import nifty.cl.any_array as aa
    import nifty.cl.utilities as ut
    import nifty.cl.operators.diagonal_operator as do
    import nifty.cl.operators.energy_operators as eo

    orig_vdot = aa.cpu_vdot

    def vdot(a, b):
        if _isobj(a) or _isobj(b):
            a_ = np.asarray(a).reshape(-1)
            b_ = np.asarray(b).reshape(-1)
            r = 0
            for u, v in zip(a_, b_):
                cu = u.conjugate() if hasattr(u, "conjugate") else u
                r = r + cu * v
            return r
        return orig_vdot(a, b)
    aa.cpu_vdot = vdot

    orig_mul, orig_div = do.mul_conj2, do.div_conj2

    def mul_conj2(a, b):
        if a.dtype == object or b.dtype == object:
            return a * b.conj()
        return orig_mul(a, b)

    def div_conj2(a, b):
        if a.dtype == object or b.dtype == object:
            return a / b.conj()
        return orig_div(a, b)
    do.mul_conj2, do.div_conj2 = mul_conj2, div_conj2

    # DiagonalOperator decides real/complex from the dtype of its diagonal; an
    # object array stands for float64 or complex128 depending on what it holds
    orig_fill = do.DiagonalOperator._fill_rest

    def _fill_rest(self):
        orig_fill(self)
        v = self._ldiag._val if hasattr(self._ldiag, "_val") else self._ldiag
        if _isobj(v):
            self._complex = any(isinstance(e, (SC, complex, np.complexfloating)) for e in v.reshape(-1))
            if not self._complex:
                self._diagmin_cache = None
    do.DiagonalOperator._fill_rest = _fill_rest

    orig_ict = ut.iscomplextype

    def iscomplextype(dtype):
        if isinstance(dtype, dict):
            return ut._getunique(iscomplextype, dtype.values())
        if dtype == object:
            return COMPLEX_MODE[0]
        return orig_ict(dtype)
    ut.iscomplextype = iscomplextype
    eo.iscomplextype = iscomplextype
    try:
        import nifty.cl.minimization.scipy_minimizer as sm
        sm.iscomplextype = iscomplextype
    except Exception:
        pass

    def _part(which):
        def get(self):
            v = self._val
            if v.dtype == object:
                out = np.empty(v.shape, dtype=object)
                for idx in np.ndindex(*v.shape):
                    e = v[idx]
                    if which == "real":
                        out[idx] = e.real if hasattr(e, "real") else e
                    else:
                        out[idx] = e.imag if hasattr(e, "imag") else 0
                return aa.AnyArray(out.view(sc.SymArr))
            return aa.AnyArray(getattr(v, which))
        return property(get)
    orig_norm = aa.AnyArray.norm

    def norm(self, ord=2):
        v = self._val
        if _isobj(v) and sc.Ctx.cur is None and not any(isinstance(e, (sc.SR, SC)) for e in v.reshape(-1)):
            # object array of plain numbers outside a symbolic path (replay of a counterexample): ordinary float norm
            return float(np.linalg.norm(np.asarray(v, dtype=np.complex128).reshape(-1), ord))
        if _isobj(v):
            # np.linalg.norm on object arrays forms x.dot(x) (no conjugation) and forks in max():
            # documented vector norms written out on the elements
            el = list(v.reshape(-1))

            def a2(e):
                e = sc._lift(e)
                return e.r * e.r + e.i * e.i if isinstance(e, SC) else e * e
            if ord == 2 or ord is None:
                t = 0
                for e in el:
                    t = t + a2(e)
                return sc._lift(t).sqrt()
            mags = [abs(sc._lift(e)) if not isinstance(sc._lift(e), SC) else a2(e).sqrt() for e in el]
            if ord == 1:
                t = 0
                for m in mags:
                    t = t + m
                return t
            if ord == np.inf:
                t = mags[0]
                for m in mags[1:]:
                    t = sc._lift(t).maximum(m)
                return t
            raise sc.HarnessError(f"norm(ord={ord}) of a symbolic array not supported")
        return orig_norm(self, ord)
    aa.AnyArray.norm = norm
    aa.AnyArray.real = _part("real")
    aa.AnyArray.imag = _part("imag")
    proxy_np(aa)   # np.isreal/np.iscomplex/np.isscalar on symbolic scalars (AnyArray.full)

    # sampling dtypes: the dtype of a symbolic field is `object`; it stands for float64/complex128
    orig_cd = ut.check_dtype_or_none

    def check_dtype_or_none(obj, domain=None):
        if obj is object or obj == np.dtype(object):
            return
        if isinstance(obj, dict):
            obj = {k: (None if (v is object or v == np.dtype(object)) else v) for k, v in obj.items()}
        return orig_cd(obj, domain)
    ut.check_dtype_or_none = check_dtype_or_none
    import nifty.cl.operators.block_diagonal_operator as bdo
    import nifty.cl.operators.scaling_operator as so
    bdo.check_dtype_or_none = check_dtype_or_none
    so.check_dtype_or_none = check_dtype_or_none


def proxy_np(module, extra=None):
    """replace the name ``np`` in ``module`` by a dispatching proxy"""
    if not isinstance(getattr(module, "np", None), NPProxy):
        module.np = NPProxy(extra)


def proxy_float(module):
    module.float = sym_float
