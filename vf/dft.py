"""Explicit discrete Fourier transforms on object arrays (the documented contract of the FFT kernels).

Twiddle factors are exact: N in {1, 2, 4} gives {1, -1, +-i}; N in {3, 6, 8, 12} uses algebraic sqrt terms."""
from fractions import Fraction

import numpy as np

from . import symcore as sc


def _twiddle(N, m, sign):
    """exp(sign * 2 pi i m / N) as (re, im) of exact numbers"""
    m = m % N
    fr = Fraction(m, N)
    table = {Fraction(0): (1, 0), Fraction(1, 4): (0, 1), Fraction(1, 2): (-1, 0), Fraction(3, 4): (0, -1)}
    if fr in table:
        re, im = table[fr]
    else:
        s3 = sc.SR(sc.q(Fraction(3))).sqrt() / 2
        s2 = sc.SR(sc.q(Fraction(2))).sqrt() / 2
        h = Fraction(1, 2)
        more = {Fraction(1, 3): (-h, s3), Fraction(2, 3): (-h, -s3), Fraction(1, 6): (h, s3), Fraction(5, 6): (h, -s3),
                Fraction(1, 8): (s2, s2), Fraction(3, 8): (-s2, s2), Fraction(5, 8): (-s2, -s2), Fraction(7, 8): (s2, -s2)}
        if fr not in more:
            raise sc.HarnessError(f"no exact twiddle factor for {fr}")
        re, im = more[fr]
    return re, (im if sign > 0 else -im)


def _cmul(x, re, im):
    """x * (re + i im) for x real symbolic / number / SC"""
    if isinstance(x, sc.SC):
        return sc.SC(x.r * re - x.i * im, x.r * im + x.i * re)
    if isinstance(x, complex):
        x = sc.SC(sc.SR(sc.q(x.real)), sc.SR(sc.q(x.imag)))
        return sc.SC(x.r * re - x.i * im, x.r * im + x.i * re)
    x = sc._lift(x)
    return sc.SC(x * re, x * im)


def dft_1d(a, axis, inverse=False, norm=False):
    a = np.asarray(a, dtype=object)
    N = a.shape[axis]
    a = np.moveaxis(a, axis, -1)
    out = np.empty(a.shape, dtype=object)
    sign = +1 if inverse else -1
    for idx in np.ndindex(*a.shape[:-1]):
        for k in range(N):
            tot = None
            for n in range(N):
                re, im = _twiddle(N, k * n, sign)
                t = _cmul(a[idx + (n,)], re, im)
                tot = t if tot is None else tot + t
            if norm:
                tot = tot * sc.SR(sc.q(Fraction(1, N)))
            out[idx + (k,)] = tot
    return np.moveaxis(out, -1, axis)


def dft_axes(a, axes, inverse=False, norm=None):
    """norm=None: numpy convention (inverse divides by N)"""
    a = np.asarray(a, dtype=object)
    if norm is None:
        norm = inverse
    for ax in axes:
        a = dft_1d(a, ax, inverse=inverse, norm=norm)
    return a


def re_im(a):
    a = np.asarray(a, dtype=object)
    re = np.empty(a.shape, dtype=object)
    im = np.empty(a.shape, dtype=object)
    for idx in np.ndindex(*a.shape):
        v = a[idx]
        if isinstance(v, sc.SC):
            re[idx], im[idx] = v.r, v.i
        else:
            re[idx], im[idx] = v, 0
    return re, im
