"""Out-of-process SMT portfolio with hard timeouts.

In-process z3 calls do not reliably honour time-outs on nonlinear real
arithmetic (observed: nlsat stuck for minutes with timeout=2500 ms), and the
three solver builds on this image differ by orders of magnitude per query
(/usr/bin/z3 4.8.12: 0.08 s where z3 5.1 needs 25 s -- and vice versa).  Every
query is therefore serialised to SMT-LIB 2 and handed to solver *processes*
that are killed at the deadline:

  stage 1   /usr/bin/z3 (4.8.12)                        short budget
  stage 2   race of  z3 4.8.12 | z3 5.1 default | z3 5.1 (check-sat-using qfnra-nlsat)

The first definitive answer (sat/unsat) wins.  ``unknown``, time-outs and any
``(error`` output are inconclusive.  ``sat`` answers are only ever used as
counterexample candidates that must survive a concrete replay.
"""
import os
import re
import shutil
import subprocess
import tempfile
import time
from fractions import Fraction

Z3_OLD = os.environ.get("VERIF_Z3_OLD", "/usr/bin/z3")
Z3_NEW = os.environ.get("VERIF_Z3_NEW") or shutil.which("z3-new") or \
    os.path.join(os.path.dirname(os.path.dirname(os.path.abspath(__file__))), ".venv", "bin", "z3")
if not os.path.exists(Z3_OLD):
    Z3_OLD = Z3_NEW

STATS = {"queries": 0, "unsat": 0, "sat": 0, "unknown": 0, "time_s": 0.0, "stage2": 0,
         "won_z3_4.8.12": 0, "won_z3_5.1_default": 0, "won_z3_5.1_nlsat": 0, "errors": 0}

_MODEL_TAIL = "(get-model)\n(set-option :pp.decimal true)\n(set-option :pp.decimal_precision 30)\n(get-model)\n"


def _variants(body, want_model):
    tail = _MODEL_TAIL if want_model else ""
    return {
        "z3_4.8.12": (Z3_OLD, body + "(check-sat)\n" + tail),
        "z3_5.1_default": (Z3_NEW, body + "(check-sat)\n" + tail),
        "z3_5.1_nlsat": (Z3_NEW, body + "(check-sat-using qfnra-nlsat)\n" + tail),
    }


# Solver children must never outlive the check: racing solvers get a hard z3 time limit (-T), the persistent one
# exits on EOF of its stdin, and the runner kills a worker's whole process group (vf/runner.py).

def _spawn(exe, text, hard_s=None):
    cmd = [exe, "-in"] + ([f"-T:{int(hard_s)}"] if hard_s else [])
    p = subprocess.Popen(cmd, stdin=subprocess.PIPE, stdout=subprocess.PIPE,
                         stderr=subprocess.STDOUT, text=True)
    try:
        p.stdin.write(text)
        p.stdin.close()
    except BrokenPipeError:
        pass
    return p


def _verdict(out):
    if "(error" in out:
        # e.g. an old z3 that cannot parse something: inconclusive
        first = out.strip().split("\n", 1)[0].strip()
        if first not in ("sat", "unsat"):
            return "error"
        # error after the verdict (e.g. get-model issues): keep verdict only if unsat
        return first if first == "unsat" else "error"
    first = out.strip().split("\n", 1)[0].strip() if out.strip() else ""
    return first if first in ("sat", "unsat") else "unknown"


class Persistent:
    """one long-lived ``z3 -in`` process; every query is preceded by (reset), so
    the solver runs its full (non-incremental) strategy each time."""
    SENT = "@@done@@"

    def __init__(self, exe):
        self.exe = exe
        self.p = None
        self.buf = b""

    def start(self):
        self.p = subprocess.Popen([self.exe, "-in"], stdin=subprocess.PIPE, stdout=subprocess.PIPE,
                                  stderr=subprocess.STDOUT)
        self.buf = b""

    def stop(self):
        if self.p is not None:
            try:
                self.p.kill()
                self.p.wait(timeout=5)
            except Exception:
                pass
            for f in (self.p.stdin, self.p.stdout):
                try:
                    f.close()
                except Exception:
                    pass
            self.p = None

    def send(self, text):
        if self.p is None or self.p.poll() is not None:
            self.stop()
            self.start()
        msg = "(reset)\n" + text + f'(echo "{self.SENT}")\n'
        try:
            self.p.stdin.write(msg.encode())
            self.p.stdin.flush()
        except (BrokenPipeError, OSError):
            self.stop()
            self.start()
            self.p.stdin.write(msg.encode())
            self.p.stdin.flush()

    def poll(self, wait_s):
        """-> output text if the sentinel arrived within wait_s, else None"""
        import select
        fd = self.p.stdout.fileno()
        end = time.time() + wait_s
        sent = self.SENT.encode()
        while True:
            if sent in self.buf:
                i = self.buf.index(sent)
                out = self.buf[:i].decode(errors="replace")
                rest = self.buf[i + len(sent):]
                self.buf = rest.lstrip(b'"\n')
                return out.rstrip().rstrip('"').rstrip()
            left = end - time.time()
            if left <= 0:
                return None
            r, _, _ = select.select([fd], [], [], min(left, 0.5))
            if r:
                chunk = os.read(fd, 1 << 16)
                if not chunk:
                    self.stop()
                    return "(error \"solver process died\")"
                self.buf += chunk


_OLD = None


def _old():
    global _OLD
    if _OLD is None:
        _OLD = Persistent(Z3_OLD)
    return _OLD


def solve(body, timeout_s=20.0, want_model=False, short_s=1.5):
    """body: SMT-LIB declarations+assertions (no check-sat).  -> (verdict, model dict or None, winner)"""
    STATS["queries"] += 1
    t0 = time.time()
    var = _variants(body, want_model)
    # stage 1: persistent z3 4.8.12
    per = _old()
    per.send(var["z3_4.8.12"][1])
    out = per.poll(min(short_s, timeout_s))
    if out is not None:
        v = _verdict(out)
        if v == "error":
            STATS["errors"] += 1
            v = "unknown"
        if v in ("sat", "unsat"):
            return _done(v, out, want_model, "z3_4.8.12", t0)
    if timeout_s <= short_s:
        if out is None:
            per.stop()
        return _done("unknown", "", False, None, t0)
    # stage 2: the persistent solver keeps running; race it against z3 5.1 (two strategies)
    STATS["stage2"] += 1
    procs = {k: _spawn(*var[k], hard_s=timeout_s + 10) for k in ("z3_5.1_default", "z3_5.1_nlsat")}
    deadline = t0 + timeout_s
    res = ("unknown", "", None)
    live = dict(procs)
    old_running = out is None
    try:
        while (live or old_running) and time.time() < deadline:
            if old_running:
                o = per.poll(0.01)
                if o is not None:
                    old_running = False
                    vv = _verdict(o)
                    if vv in ("sat", "unsat"):
                        res = (vv, o, "z3_4.8.12")
                        break
            else:
                time.sleep(0.01)
            hit = False
            for k, pr in list(live.items()):
                if pr.poll() is not None:
                    o = pr.stdout.read()
                    del live[k]
                    vv = _verdict(o)
                    if vv == "error":
                        STATS["errors"] += 1
                    if vv in ("sat", "unsat"):
                        res = (vv, o, k)
                        hit = True
                        break
            if hit:
                break
    finally:
        for pr in procs.values():
            _kill(pr)
        if old_running:
            per.stop()
    return _done(res[0], res[1], want_model, res[2], t0)


def _communicate(p, timeout):
    out = p.stdout
    import select
    end = time.time() + timeout
    while True:
        if p.poll() is not None:
            return out.read(), None
        if time.time() > end:
            raise subprocess.TimeoutExpired(p.args, timeout)
        time.sleep(0.002)


def _kill(p):
    try:
        if p.poll() is None:
            p.kill()
        p.wait(timeout=5)
    except Exception:
        pass
    try:
        p.stdout.close()
    except Exception:
        pass


def _done(v, out, want_model, winner, t0):
    STATS["time_s"] += time.time() - t0
    STATS[v] += 1
    if winner:
        STATS["won_" + winner] += 1
    model = None
    if v == "sat" and want_model:
        model = parse_models(out)
    return v, model, winner


# --------------------------------------------------------------------------
# model parsing

_TOK = re.compile(r"\(|\)|[^\s()]+")


def _sexprs(text):
    toks = _TOK.findall(text)
    pos = 0

    def parse():
        nonlocal pos
        t = toks[pos]
        pos += 1
        if t == "(":
            lst = []
            while toks[pos] != ")":
                lst.append(parse())
            pos += 1
            return lst
        return t
    out = []
    while pos < len(toks):
        if toks[pos] == ")":
            pos += 1
            continue
        out.append(parse())
    return out


def _num(e):
    """exact Fraction of a numeral s-expression, None if not exactly representable"""
    if isinstance(e, str):
        if e.endswith("?"):
            return None
        try:
            return Fraction(e)
        except ValueError:
            return None
    if not e:
        return None
    h = e[0]
    if h == "-" and len(e) == 2:
        v = _num(e[1])
        return None if v is None else -v
    if h == "/" and len(e) == 3:
        a, b = _num(e[1]), _num(e[2])
        return None if a is None or b is None or b == 0 else a / b
    if h == "to_real" and len(e) == 2:
        return _num(e[1])
    return None


def _approx(e):
    if isinstance(e, str):
        try:
            return Fraction(e.rstrip("?"))
        except ValueError:
            return None
    if e and e[0] == "-" and len(e) == 2:
        v = _approx(e[1])
        return None if v is None else -v
    if e and e[0] == "/" and len(e) == 3:
        a, b = _approx(e[1]), _approx(e[2])
        return None if a is None or b is None or b == 0 else a / b
    return None


def parse_models(out):
    """-> {name: Fraction}; exact where the model is rational, 30-digit decimal otherwise"""
    # drop the verdict line
    body = out.split("\n", 1)[1] if "\n" in out else ""
    exprs = _sexprs(body)
    models = []
    for e in exprs:
        if isinstance(e, list):
            if e and e[0] == "model":
                e = e[1:]
            models.append(e)
    res = {}
    for mi, m in enumerate(models[:2]):
        for d in m:
            if not (isinstance(d, list) and len(d) == 5 and d[0] == "define-fun" and d[2] == []):
                continue
            name = d[1].strip("|")
            if d[3] == "Bool":
                res.setdefault(name, d[4] == "true")
                continue
            v = _num(d[4]) if mi == 0 else _approx(d[4])
            if v is not None and name not in res:
                res[name] = v
    return res
