import re,sys
for f in sys.argv[1:]:
    src=open(f).read()
    src=re.sub(r'"""(?:.|\n)*?"""','',src)
    src="\n".join(l for l in src.split("\n") if l.strip() and not l.strip().startswith("#"))
    print("#####",f); print(src)
