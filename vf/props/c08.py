"""C08 -- domain geometry is self-consistent and domain identity is canonical.

geometry: RGSpace and PowerSpace are constructed for real with SYMBOLIC grid distances and bin bounds (the float coercions
          of the constructors are redirected to the engine's reals; searchsorted / unique compare symbolic values, every
          undetermined comparison is a path).  z3 proves for ALL distances: total volume == sum of pixel volumes == product
          of the extents, per-pixel volumes agree with the scalar volume, the k-length table is sqrt(sum (min(i, N-i) d)^2),
          the unique k-lengths are strictly increasing and are exactly the values of the table; a PowerSpace partitions
          its partner into non-empty bins (membership by the bin bounds), bin volumes are the sums and bin k-lengths the
          averages over the member pixels.
identity: histories of DomainTuple.make / MultiDomain.make / pickle round trips (choices = symbolic integers): equal
          descriptions yield the identical object, also after pickling."""
import pickle

import numpy as np

from .. import shims_cl
from .. import symcore as sc
from ..clcommon import ift, setup_cl


def _bincount(x, weights=None, minlength=0):
    x = np.asarray(x)
    if weights is None or np.asarray(weights).dtype != object:
        return np.bincount(x, weights=weights, minlength=minlength)
    w = np.asarray(weights, dtype=object).reshape(-1)
    n = max(int(x.max()) + 1 if x.size else 0, minlength)
    out = np.zeros(n, dtype=object)
    for i, v in zip(x.reshape(-1), w):
        out[int(i)] = out[int(i)] + v
    return out.view(sc.SymArr)


def _allclose(a, b, rtol=1e-5, atol=1e-8, **k):
    """np.allclose for symbolic entries: |a - b| <= atol + rtol |b| elementwise (every undetermined comparison is a path)"""
    aa, bb = np.asarray(a, dtype=object), np.asarray(b, dtype=object)
    if not any(isinstance(v, (sc.SR, sc.SI)) for v in list(aa.reshape(-1)) + list(bb.reshape(-1))):
        return np.allclose(np.asarray(a, dtype=np.float64), np.asarray(b, dtype=np.float64), rtol=rtol, atol=atol, **k)
    aa, bb = np.broadcast_arrays(aa, bb)
    for u, v in zip(aa.reshape(-1), bb.reshape(-1)):
        u, v = sc._lift(u), sc._lift(v)
        if not bool(abs(u - v) <= abs(v) * rtol + atol):
            return False
    return True


def setup():
    setup_cl()
    import nifty.cl.domains.rg_space as rg
    import nifty.cl.domains.power_space as ps
    import nifty.cl.domains.structured_domain as sd
    shims_cl.proxy_np(rg, {"allclose": _allclose})
    shims_cl.proxy_float(rg)
    shims_cl.proxy_np(ps, {"bincount": _bincount})
    shims_cl.proxy_float(ps)
    shims_cl.proxy_np(sd)


def _vals(x):
    return list(np.asarray(x, dtype=object).reshape(-1))


def h_rg(B, shape, harmonic, scalar=False):
    shape = tuple(shape)
    nd = len(shape)
    d = B.reals("d", (nd,))
    B.assume_all([t > 0 for t in d])
    if scalar:                    # one scalar distance for all axes (documented: the same distance along each axis)
        d = np.array([d[0]] * nd, dtype=object if B.mode == "sym" else np.float64)
    dist = d[0] if (nd == 1 or scalar) else tuple(d)
    dom = ift.RGSpace(shape, distances=dist, harmonic=harmonic)
    B.eq("the grid distances are the ones given", list(dom.distances), list(d))
    size = int(np.prod(shape))
    # volumes
    dv = dom.dvol
    B.eq("dvol == scalar_dvol", [dv], [dom.scalar_dvol])
    B.eq("total volume == sum of the pixel volumes", [dom.total_volume], [sum([dom.scalar_dvol] * size, 0)])
    ext = 1
    for e in dom.extents:
        ext = ext * e
    B.eq("total volume == product of the extents", [dom.total_volume], [ext])
    pd = 1
    for t in dom.distances:
        pd = pd * t
    B.eq("pixel volume == product of the pixel distances", [dom.scalar_dvol], [pd])
    if not harmonic:
        # the default codomain has the reciprocal extents: distances_k = 1 / (N d)
        cod = dom.get_default_codomain()
        B.eq("codomain distances == 1 / (N d)", list(cod.distances), [1 / (shape[a] * dom.distances[a]) for a in range(nd)])
        B.eq("pixel volume x codomain pixel volume x number of pixels == 1", [dom.scalar_dvol * cod.scalar_dvol * size], [1])
        return
    k = dom.get_k_length_array()
    kv = np.asarray(k.val.val, dtype=object)
    ref = np.empty(shape, dtype=object)
    for idx in np.ndindex(*shape):
        s2 = 0
        for a in range(nd):
            m = min(idx[a], shape[a] - idx[a])
            s2 = s2 + (m * dom.distances[a]) * (m * dom.distances[a])
        ref[idx] = s2
    B.eq("k-length table squared == sum (min(i, N - i) d)^2", [v * v for v in _vals(kv)], _vals(ref))
    B.holds("k-lengths are non-negative", _all([_rel(B, v, ">=", 0) for v in _vals(kv)], B))
    if nd > 1:
        # multi-dimensional grids: lengths closer than 1e-12 x the largest length are merged (documented tolerance)
        u = _vals(dom.get_unique_k_lengths())
        kmax = None
        for v in _vals(kv):
            kmax = (sc._lift(v) if B.mode == "sym" else float(v)) if kmax is None else (sc._lift(kmax).maximum(v) if B.mode == "sym" else max(kmax, float(v)))
        tol = kmax * 2e-12
        B.holds("unique k-lengths are increasing", _all([_rel(B, u[i], "<", u[i + 1]) for i in range(len(u) - 1)], B))
        B.holds("every pixel's k-length is (within the merging tolerance) one of the unique k-lengths",
                _all([_any([_rel(B, abs((sc._lift(v) if B.mode == "sym" else float(v)) - w), "<=", tol) for w in u], B) for v in _vals(kv)], B))
        B.holds("every unique k-length occurs in the table", _all([_any([_rel(B, v, "==", w) for v in _vals(kv)], B) for w in u], B))
    if nd == 1:
        u = _vals(dom.get_unique_k_lengths())
        B.holds("unique k-lengths are strictly increasing", _all([_rel(B, u[i], "<", u[i + 1]) for i in range(len(u) - 1)], B))
        B.holds("every pixel's k-length is one of the unique k-lengths", _all([_any([_rel(B, v, "==", w) for w in u], B) for v in _vals(kv)], B))
        B.holds("every unique k-length occurs in the table", _all([_any([_rel(B, v, "==", w) for v in _vals(kv)], B) for w in u], B))


def _rel(B, a, op, b):
    """a op b as a symbolic truth value (symbolic back end) or a plain bool on floats (replay)"""
    if B.mode == "sym":
        a = sc._lift(a)
        return {"<": a < b, "<=": a <= b, ">=": a >= b, "==": a == b}[op]
    a, b = float(a), float(b)
    return {"<": a < b, "<=": a <= b, ">=": a >= b, "==": a == b}[op]


def _all(cs, B):
    if B.mode != "sym":
        return all(bool(c) for c in cs)
    t = sc.SB(True)
    for c in cs:
        t = t & (c if isinstance(c, sc.SB) else sc.SB(bool(c)))
    return t


def _any(cs, B):
    if B.mode != "sym":
        return any(bool(c) for c in cs)
    t = sc.SB(False)
    for c in cs:
        t = t | (c if isinstance(c, sc.SB) else sc.SB(bool(c)))
    return t


def h_power(B, n, binning):
    # the class-level binning cache is keyed by (partner, bounds): a symbolic key is structurally the same on every path,
    # a cached result would carry one path's comparisons into another
    ift.PowerSpace._powerIndexCache.clear()
    d = B.reals("d", ())
    B.assume(d > 0)
    hp = ift.RGSpace((n,), distances=d, harmonic=True)
    kv = _vals(hp.get_k_length_array().val.val)
    if binning == "natural":
        bb = None
    else:
        nb = int(binning)
        b = list(B.reals("b", (nb,)))
        B.assume(b[0] > 0)
        B.assume_all([b[i] < b[i + 1] for i in range(nb - 1)])
        bb = tuple(b)
    try:
        p = ift.PowerSpace(hp, binbounds=bb)
    except ValueError as e:
        if "empty bins" in str(e):
            B.note("constructor refused: empty bins")
            B.is_true("a binning with an empty bin is refused by the constructor", True)
            return
        raise
    pindex = [int(i) for i in np.asarray(p.pindex).reshape(-1)]
    nbin = p.shape[0]
    B.is_true("bin indices lie in range", all(0 <= i < nbin for i in pindex))
    B.is_true("every bin has at least one pixel", all(pindex.count(bn) > 0 for bn in range(nbin)))
    if bb is not None:
        # membership by the bounds: bounds[i-1] < k <= bounds[i]
        conds = []
        for kk, i in zip(kv, pindex):
            if i > 0:
                conds.append(_rel(B, bb[i - 1], "<", kk))
            if i < len(bb):
                conds.append(_rel(B, kk, "<=", bb[i]))
        B.holds("every pixel lies between the bounds of its bin", _all(conds, B))
    else:
        # natural binning: pixels share a bin iff they have the same k-length
        conds = []
        for a in range(len(kv)):
            for c in range(a + 1, len(kv)):
                same = _rel(B, kv[a], "==", kv[c])
                if pindex[a] == pindex[c]:
                    conds.append(same)
                else:
                    conds.append(~same if B.mode == "sym" else (not same))
        B.holds("natural binning: pixels share a bin iff their k-lengths are equal", _all(conds, B))
    dvol = _vals(p.dvol)
    kl = _vals(p.k_lengths)
    pd = hp.scalar_dvol
    B.eq("bin volume == number of member pixels x pixel volume", dvol, [pindex.count(bn) * pd for bn in range(nbin)])
    B.eq("sum of the bin volumes == total volume of the harmonic partner", [sum(dvol, 0)], [hp.total_volume])
    B.eq("bin k-length == average over the member pixels", [kl[bn] * pindex.count(bn) for bn in range(nbin)],
         [sum([kk for kk, i in zip(kv, pindex) if i == bn], 0) for bn in range(nbin)])
    B.eq("total_volume of the power space == sum of its bin volumes", [p.total_volume], [sum(dvol, 0)])


def _descr(kind):
    if kind == 0:
        return lambda: ift.RGSpace((4,), distances=0.5)
    if kind == 1:
        return lambda: (ift.RGSpace((2, 3), distances=(0.5, 1.0)), ift.UnstructuredDomain(3))
    if kind == 2:
        return lambda: ift.PowerSpace(ift.RGSpace((6,), distances=0.25, harmonic=True))
    if kind == 3:
        return lambda: (ift.LMSpace(3), ift.HPSpace(2))
    if kind == 4:
        return lambda: ift.GLSpace(4)
    # near misses: each differs from one of the descriptions above in exactly one geometry parameter
    if kind == 5:
        return lambda: ift.RGSpace((4,), distances=0.25)
    if kind == 6:
        return lambda: (ift.LMSpace(3, 2), ift.HPSpace(2))
    if kind == 7:
        return lambda: ift.GLSpace(4, 6)
    if kind == 8:
        return lambda: ift.PowerSpace(ift.RGSpace((6,), distances=0.25, harmonic=True), binbounds=(0.3, 0.6))
    return lambda: ift.RGSpace((4,), distances=0.5, harmonic=True)


NKINDS = 10


def _shape_of(d):
    parts = d if isinstance(d, tuple) else (d,)
    return tuple(x for p in parts for x in p.shape)


def h_identity(B, steps):
    saved, sc.Ctx.cur = sc.Ctx.cur, sc.Ctx.cur
    seen = {}
    mseen = {}
    for s in range(steps):
        kind = B.pick(f"kind{s}", 0, NKINDS - 1)
        op = B.pick(f"op{s}", 0, 3)
        mk = _descr(kind)
        if op in (0, 1):
            t = ift.DomainTuple.make(mk())
            if op == 1:
                t2 = pickle.loads(pickle.dumps(t))
                B.is_true(f"step {s}: a pickled DomainTuple unpickles to the identical object", t2 is t)
            if kind in seen:
                B.is_true(f"step {s}: equal descriptions give the identical DomainTuple", seen[kind] is t)
            B.is_true(f"step {s}: the DomainTuple has the shape and size of ITS description (not of a cached look-alike)",
                      t.shape == _shape_of(mk()) and t.size == int(np.prod(_shape_of(mk()))))
            B.is_true(f"step {s}: descriptions that differ in one geometry parameter give different, unequal DomainTuples",
                      all((t2 is not t) and (t2 != t) for k2, t2 in seen.items() if k2 != kind))
            seen[kind] = t
            B.is_true(f"step {s}: DomainTuple.make is idempotent", ift.DomainTuple.make(t) is t)
            B.is_true(f"step {s}: equal domains compare and hash equal", mk() == mk() and hash(ift.DomainTuple.make(mk())) == hash(t))
        else:
            m = ift.MultiDomain.make({"a": mk(), "b": _descr((kind + 1) % 5)()})
            B.is_true(f"step {s}: the MultiDomain entry has the shape of ITS description", m["a"].shape == _shape_of(mk()))
            B.is_true(f"step {s}: descriptions that differ in one geometry parameter give different MultiDomains",
                      all((m2_ is not m) and (m2_ != m) for k2, m2_ in mseen.items() if k2 != kind))
            if op == 3:
                m2 = pickle.loads(pickle.dumps(m))
                B.is_true(f"step {s}: a pickled MultiDomain unpickles to the identical object", m2 is m)
            if kind in mseen:
                B.is_true(f"step {s}: equal descriptions give the identical MultiDomain", mseen[kind] is m)
            mseen[kind] = m
            B.is_true(f"step {s}: the order of the keys does not matter", ift.MultiDomain.make({"b": _descr((kind + 1) % 5)(), "a": mk()}) is m)
            B.is_true(f"step {s}: sub-domains are the canonical DomainTuples", m["a"] is ift.DomainTuple.make(mk()))


def scenarios(tier, seed):
    quick = [("rg", {"shape": [4], "harmonic": True}), ("rg", {"shape": [5], "harmonic": False}),
             ("rg", {"shape": [2, 3], "harmonic": True}), ("rg", {"shape": [3, 2], "harmonic": False}),
             ("rg", {"shape": [2, 3], "harmonic": True, "scalar": True}), ("rg", {"shape": [3, 2], "harmonic": False, "scalar": True}),
             ("power", {"n": 4, "binning": "natural"}), ("power", {"n": 5, "binning": "2"}),
             ("identity", {"steps": 2})]
    thorough = [("rg", {"shape": [7], "harmonic": True}), ("rg", {"shape": [3, 4], "harmonic": True}),
                ("power", {"n": 7, "binning": "natural"}), ("power", {"n": 6, "binning": "3"}),
                ("identity", {"steps": 3})]
    return quick if tier == "quick" else quick + thorough


HARNESSES = {"rg": h_rg, "power": h_power, "identity": h_identity}
OPTS = {"quick": {"max_paths": 2000, "budget_s": 600, "jobs": 8, "branch_timeout_ms": 10000, "obl_timeout_ms": 60000},
        "thorough": {"max_paths": 20000, "budget_s": 2400, "jobs": 8, "branch_timeout_ms": 10000, "obl_timeout_ms": 120000}}

META = {
    "level": "other",
    "explanation": "RGSpace (1-D, 2-D; position and harmonic) and PowerSpace (natural binning and symbolic bin bounds) are constructed by "
                   "the real constructors with SYMBOLIC distances / bounds (float coercions redirected to the engine's reals; comparisons "
                   "inside searchsorted are path decisions): volumes, extents, codomain distances, k-length tables, unique k-lengths, bin "
                   "membership, bin volumes and bin k-lengths are proved for ALL distances / bounds.  DomainTuple.make / MultiDomain.make / "
                   "pickle histories (choices = symbolic integers) check that equal descriptions give the identical object and that descriptions differing in one geometry parameter give different objects with their own shape.",
    "functions_encoded": ["nifty.cl.domains.rg_space.RGSpace.{__init__,scalar_dvol,extents,_get_dist_array,get_k_length_array,get_unique_k_lengths,get_default_codomain}",
                          "nifty.cl.domains.power_space.PowerSpace.{__init__,dvol,k_lengths,pindex}", "nifty.cl.domains.structured_domain.StructuredDomain.{dvol,total_volume}",
                          "nifty.cl.domain_tuple.DomainTuple.{make,__reduce__}", "nifty.cl.multi_domain.MultiDomain.{make,__reduce__}"],
    "bounds": {"grid": "1-D up to 7 pixels, 2-D up to 3x4", "bin bounds": "2-3 symbolic bounds", "identity histories": "2 (3 thorough) operations over 10 domain descriptions (5 + 5 near misses differing in one geometry parameter: distances, harmonic flag, mmax, nlon, bin bounds)"},
    "stubs": ["float() / np.empty(float64) / astype(float64) inside the domain modules keep symbolic reals; np.bincount with symbolic weights is an explicit sum"],
    "outside": [                "LMSpace / GLSpace / HPSpace geometry (ducc kernels, concrete tables)", "logarithmic / linear bin-bound helpers", "DOFSpace"],
    "assumptions": ["distances > 0, bin bounds positive and strictly increasing"],
}
