"""C21 -- reproducibility and independence of the execution strategy.

(1) JAX side: the sampled KL value/gradient (_kl_vg) and metric action (_kl_met) of nifty.re.optimize_kl are traced with
    map = vmap / smap / lmap and with and without jit and interpreted over symbolic reals: z3 proves the results equal
    for ALL positions, samples, tangents and likelihood parameters.
(2) classic side: nifty.cl.random is a state machine (stacks of seed sequences and generators).  Histories of its API
    (nested Contexts entered with arbitrary seeds, left normally or by an exception, draws, spawning, push/pop) are
    chosen by symbolic integers concretised by solver-decided forking and run on the real module next to an independent
    reference model: after every step the current generator must be the one the model predicts, bit for bit."""
import numpy as np

from .. import symcore as sc
from ..jaxpr_interp import jcall, jax, jnp
from .c12 import setup as setup12, jft, mk_gauss_diag, sym_hp, _flat


def setup():
    setup12()


def _build(sh, model):
    lh = mk_gauss_diag(sh)
    if model == "exp":
        lh = lh.amend(jnp.exp)
    elif model == "square":
        lh = lh.amend(lambda x: x * x)
    return lh


def h_klmap(B, which, nsamples, model, jit):
    import importlib
    ok = importlib.import_module("nifty.re.optimize_kl")
    from jax import core as jcore
    J = jft()
    hp = sym_hp(B, "gauss_diag", (2,))
    pos, t = B.reals("p", (2,)), B.reals("t", (2,))
    smp = B.reals("s", (nsamples, 2))

    def vg(mp):
        def f(sh, pos, smp):
            g = lambda pos, smp: ok._kl_vg(_build(sh, model), pos, J.Samples(pos=pos, samples=smp), map=mp)
            return (jax.jit(g) if jit else g)(pos, smp)
        return f

    def met(mp):
        def f(sh, pos, t, smp):
            g = lambda pos, t, smp: ok._kl_met(_build(sh, model), pos, t, J.Samples(pos=pos, samples=smp), map=mp)
            return (jax.jit(g) if jit else g)(pos, t, smp)
        return f
    old_dev = getattr(jcore.Tracer, "devices", None)
    if which == "lmap" and B.mode == "sym":
        # lmap asks its inputs for their devices (placement only, outside the claim)
        jcore.Tracer.devices = lambda self: set()
    try:
        a = jcall(B, vg(which), hp, pos, smp)
        am = jcall(B, met(which), hp, pos, t, smp)
    finally:
        if which == "lmap" and B.mode == "sym":
            if old_dev is None:
                del jcore.Tracer.devices
            else:
                jcore.Tracer.devices = old_dev
    b = jcall(B, vg("vmap"), hp, pos, smp)
    bm = jcall(B, met("vmap"), hp, pos, t, smp)
    B.eq(f"KL value with map={which} == with vmap", _flat(a[0]), _flat(b[0]))
    B.eq(f"KL gradient with map={which} == with vmap", _flat(a[1]), _flat(b[1]))
    B.eq(f"KL metric action with map={which} == with vmap", _flat(am), _flat(bm))
    # the value is the sample average of the Hamiltonian at pos + residual, whatever the map
    ref = 0
    for i in range(nsamples):
        x = pos + smp[i]
        y = np.array([v.exp() if hasattr(v, "exp") else np.exp(v) for v in x], dtype=object) if model == "exp" else (x * x if model == "square" else x)
        r = hp["s"] * (hp["d"] - y)
        ref = ref + (r * r).sum() / 2 + (x * x).sum() / 2
    B.eq(f"KL value with map={which} == explicit sample average of the Hamiltonian", _flat(a[0]), [ref / nsamples])


# ----------------------------------------------------------------------------------------------
# classic random module

class _Boom(Exception):
    pass


class _BoomBase(BaseException):
    """stands for KeyboardInterrupt / SystemExit / GeneratorExit"""


def _state(g):
    s = g.bit_generator.state
    return (s["bit_generator"], tuple(sorted((k, int(v) if not isinstance(v, dict) else tuple(sorted((kk, int(vv)) for kk, vv in v.items())))
                                             for k, v in s.items() if k != "bit_generator")))


def h_context(B, depth, steps, first=None):
    from nifty.cl import random as rnd
    import nifty.cl as ift
    base_state = rnd.getState()
    base_depth = len(rnd._sseq)
    log = []
    # reference: for every open context an independent generator built from its seed that mirrors the draws
    refs = [None]                      # bottom entry: the module's own generator (identity + untouched-state check)
    bottom = rnd.current_rng()
    bottom_state0 = _state(bottom)
    bottom_draws = [0]
    seeds = [3, 17]                    # re-entering a context with a seed used before must start from scratch again

    def draw_both():
        x = ift.from_random(ift.UnstructuredDomain(2)).asnumpy()
        if refs[-1] is None:
            bottom_draws[0] += 1
            y = None
        else:
            y = refs[-1].normal(0., 1., (2,))
        return x, y

    def check(label):
        B.is_true(f"{label}: stack depth is the model's", len(rnd._sseq) == base_depth + len(refs) - 1 and len(rnd._rng) == len(rnd._sseq))
        if refs[-1] is None:
            B.is_true(f"{label}: the outer generator is current again (same object)", rnd.current_rng() is bottom)
            if bottom_draws[0] == 0:
                B.is_true(f"{label}: the outer generator's state is untouched", _state(bottom) == bottom_state0)
        else:
            B.is_true(f"{label}: the current generator is in the state a fresh generator with the context's seed would be in",
                      _state(rnd.current_rng()) == _state(refs[-1]))

    def body(level, budget):
        """run up to `budget` picked operations at nesting `level`; returns remaining budget"""
        while budget[0] > 0:
            budget[0] -= 1
            k = len(log)
            op = first if (k == 0 and first is not None) else B.pick(f"op{k}", 0, 5)
            if op == 0:                # draw
                x, y = draw_both()
                log.append("draw")
                if y is not None:
                    B.is_true(f"step {k}: a draw inside a context depends only on the context's seed and the draws made in it",
                              bool(np.all(x.view(np.int64) == np.asarray(y).view(np.int64))))
                check(f"step {k} (draw)")
            elif op in (1, 2) and level < depth:     # enter a context; leave normally (1) or by an exception (2)
                seed = seeds[B.pick(f"seed{k}", 0, len(seeds) - 1)]
                log.append(f"enter({seed})")
                outer = rnd.current_rng()
                outer_state = _state(outer)
                try:
                    with rnd.Context(seed):
                        refs.append(np.random.default_rng(np.random.SeedSequence(seed)))
                        check(f"step {k} (entered Context({seed}))")
                        body(level + 1, budget)
                        if op == 2:
                            exc = (_Boom, _BoomBase)[B.pick(f"exc{k}", 0, 1)]
                            log.append("raise " + exc.__name__)
                            raise exc()
                        log.append("leave")
                except (_Boom, _BoomBase):
                    pass
                finally:
                    refs.pop()
                B.is_true(f"step {k}: leaving the context ({'exception' if op == 2 else 'normally'}) restores the previous generator object",
                          rnd.current_rng() is outer)
                B.is_true(f"step {k}: the restored generator's state is what it was when the context was entered",
                          _state(rnd.current_rng()) == outer_state)
                check(f"step {k} (left context)")
            elif op == 3:              # spawning child seed sequences does not disturb the generator
                before = _state(rnd.current_rng())
                ch = rnd.spawn_sseq(2)
                log.append("spawn")
                B.is_true(f"step {k}: spawn_sseq leaves the current generator untouched", _state(rnd.current_rng()) == before)
                B.is_true(f"step {k}: spawned sequences are distinct", ch[0].spawn_key != ch[1].spawn_key)
            elif op == 4 and level < depth:          # a context given a SeedSequence object
                ss = np.random.SeedSequence(99)
                log.append("enter(sseq)")
                outer = rnd.current_rng()
                with rnd.Context(ss):
                    refs.append(np.random.default_rng(np.random.SeedSequence(99)))
                    check(f"step {k} (entered Context(SeedSequence))")
                    body(level + 1, budget)
                refs.pop()
                B.is_true(f"step {k}: leaving the context (normally) restores the previous generator object", rnd.current_rng() is outer)
            else:                      # op 5 (or a context at maximal depth): return to the enclosing level
                log.append("return")
                return
    try:
        body(0, [steps])
    finally:
        # whatever happened, put the module back (the worker process is reused)
        while len(rnd._sseq) > base_depth:
            rnd.pop_sseq()
        rnd.setState(base_state)
    B.note("history: " + " ".join(log))


def scenarios(tier, seed):
    quick, thorough = [], []
    for which in ("smap", "lmap"):
        quick.append(("klmap", {"which": which, "nsamples": 2, "model": "none", "jit": False}))
        quick.append(("klmap", {"which": which, "nsamples": 2, "model": "exp", "jit": True}))
        thorough.append(("klmap", {"which": which, "nsamples": 3, "model": "square", "jit": True}))
        thorough.append(("klmap", {"which": which, "nsamples": 3, "model": "exp", "jit": False}))
    quick.append(("klmap", {"which": "vmap", "nsamples": 2, "model": "exp", "jit": True}))
    quick.append(("context", {"depth": 2, "steps": 3}))
    for first in (0, 1, 2, 3, 4):
        thorough.append(("context", {"depth": 3, "steps": 5, "first": first}))
    return quick if tier == "quick" else quick + thorough


HARNESSES = {"klmap": h_klmap, "context": h_context}
OPTS = {"quick": {"max_paths": 3000, "budget_s": 600, "jobs": 8, "branch_timeout_ms": 10000, "obl_timeout_ms": 60000},
        "thorough": {"max_paths": 60000, "budget_s": 3000, "jobs": 8, "branch_timeout_ms": 10000, "obl_timeout_ms": 120000}}

META = {
    "level": "other",
    "explanation": "JAX: _kl_vg and _kl_met (sampled KL value, gradient, metric action; Gaussian likelihood with symbolic data and "
                   "noise, identity / exp / square forward model) traced with map = smap, lmap, vmap, jitted or not, interpreted over "
                   "z3 reals: equal to the vmap result and to the explicit sample average for ALL inputs.  Classic: histories of the "
                   "nifty.cl.random API (draw, nested Context by int seed or SeedSequence left normally, by an Exception or by a BaseException, "
                   "spawn_sseq), every choice a symbolic integer concretised by solver-decided forking, executed on the real module "
                   "next to a reference model (fresh generators per context): generator identity and bit-exact generator state after "
                   "every step, draws inside a context bit-identical to a fresh generator with that seed.",
    "functions_encoded": ["nifty.re.optimize_kl.{_kl_vg,_kl_met,_StandardHamiltonian}", "nifty.re.custom_map.{smap,lmap}",
                          "nifty.re.evi.Samples", "nifty.cl.random.{Context,push_sseq,pop_sseq,spawn_sseq,current_rng,Random.normal}"],
    "bounds": {"samples": "2 (3 thorough)", "parameters": 2, "history length": "3 (5 thorough)", "context nesting": "2 (3 thorough)"},
    "stubs": ["jax Tracer.devices() returns the empty set while lmap is traced", "exp uninterpreted"],
    "outside": ["bit-identity across processes / machines (no hidden inputs such as hash order or time are modelled)",
                "whole OptimizeVI runs", "pmap / sharding"],
    "assumptions": ["noise_std_inv > 0 and noise_cov_inv = noise_std_inv^2 (documented contract)"],
}
