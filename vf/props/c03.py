"""C03 -- nonlinear operator values and Jacobians are exact derivatives (front end A + dual numbers)."""
import random

import numpy as np

from .. import shims_cl
from .. import symcore as sc
from ..clcommon import ift, field_of, flat_of, setup_cl, unflat, vdot_flat

N = 2
PI = float(np.pi)


def setup():
    setup_cl()
    import nifty.cl.pointwise as pw
    shims_cl.proxy_np(pw)


# --------------------------------------------------------------------------
# independent reference: forward-mode dual numbers with a hand-written table


class Dual:
    """value + directional derivative (both symbolic or float scalars)"""
    __slots__ = ("v", "d")

    def __init__(self, v, d=0):
        self.v, self.d = v, d

    @staticmethod
    def lift(o):
        return o if isinstance(o, Dual) else Dual(o, 0)

    def __add__(self, o):
        o = Dual.lift(o)
        return Dual(self.v + o.v, self.d + o.d)

    __radd__ = __add__

    def __sub__(self, o):
        o = Dual.lift(o)
        return Dual(self.v - o.v, self.d - o.d)

    def __rsub__(self, o):
        return Dual.lift(o) - self

    def __mul__(self, o):
        o = Dual.lift(o)
        return Dual(self.v * o.v, self.d * o.v + self.v * o.d)

    __rmul__ = __mul__

    def __truediv__(self, o):
        o = Dual.lift(o)
        return Dual(self.v / o.v, (self.d * o.v - self.v * o.d) / (o.v * o.v))

    def __rtruediv__(self, o):
        return Dual.lift(o) / self

    def __neg__(self):
        return Dual(-self.v, -self.d)

    def conjugate(self):
        c = lambda t: t.conjugate() if hasattr(t, "conjugate") else t
        return Dual(c(self.v), c(self.d))


def _f(x, name):
    """elementary function on a symbolic/float scalar"""
    if hasattr(x, name) and not isinstance(x, (float, np.floating, complex, np.complexfloating)):
        return getattr(x, name)()
    return getattr(np, name)(x)


def d_fn(name, u, B, args=(), region=None):
    """reference value and derivative of the point-wise function `name` at the Dual u.
    Adds the function's validity assumptions on u.v through B."""
    v, d = u.v, u.d
    if name == "exp":
        e = _f(v, "exp")
        return Dual(e, e * d)
    if name == "log":
        B.assume(v > 0)
        return Dual(_f(v, "log"), d / v)
    if name == "log10":
        B.assume(v > 0)
        l10 = _f(_const(B, 10.0), "log")
        return Dual(_f(v, "log") / l10, d / (v * l10))
    if name == "log1p":
        B.assume(v > -1)
        return Dual(_f(1 + v, "log"), d / (1 + v))
    if name == "expm1":
        e = _f(v, "exp")
        return Dual(e - 1, e * d)
    if name == "sqrt":
        B.assume(v > 0)
        s = _f(v, "sqrt")
        return Dual(s, d / (2 * s))
    if name == "sin":
        return Dual(_f(v, "sin"), _f(v, "cos") * d)
    if name == "cos":
        return Dual(_f(v, "cos"), -_f(v, "sin") * d)
    if name == "tan":
        s, c = _f(v, "sin"), _f(v, "cos")
        B.assume(c != 0)
        return Dual(s / c, d / (c * c))
    if name == "sinh":
        a, b = _f(v, "exp"), _f(-v, "exp")
        return Dual((a - b) / 2, (a + b) / 2 * d)
    if name == "cosh":
        a, b = _f(v, "exp"), _f(-v, "exp")
        return Dual((a + b) / 2, (a - b) / 2 * d)
    if name == "tanh":
        a, b = _f(v, "exp"), _f(-v, "exp")
        t = (a - b) / (a + b)
        return Dual(t, 4 / ((a + b) * (a + b)) * d)
    if name == "sigmoid":
        a, b = _f(v, "exp"), _f(-v, "exp")
        t = (a - b) / (a + b)
        return Dual(0.5 + 0.5 * t, 2 / ((a + b) * (a + b)) * d)
    if name == "reciprocal":
        B.assume(v != 0)
        return Dual(1 / v, -d / (v * v))
    if name in ("abs", "absolute"):
        B.assume(v != 0)
        sg = _sign(v)
        return Dual(sg * v, sg * d)
    if name == "sign":
        B.assume(v != 0)
        return Dual(_sign(v), 0 * d)
    if name == "arctan":
        return Dual(_f(v, "arctan"), d / (1 + v * v))
    if name == "unitstep":
        B.assume(v != 0)
        return Dual(_ite(v >= 0, 1, 0), 0 * d)
    if name == "sinc":
        B.assume(v != 0)
        p = PI
        s, c = _f(p * v, "sin"), _f(p * v, "cos")
        return Dual(s / (p * v), (c * p * v - s) / (p * v * v) * d)
    if name == "power":
        k = args[0]
        if float(k) == int(k):
            k = int(k)
            val = _ipow(v, k)
            return Dual(val, k * _ipow(v, k - 1) * d)
        if float(k) == 0.5:
            B.assume(v > 0)
            s = _f(v, "sqrt")
            return Dual(s, d / (2 * s))
        raise ValueError("power exponent")
    if name == "exponentiate":
        base = args[0]
        lb = _f(_const(B, base), "log")
        e = _f(v * lb, "exp")
        return Dual(e, lb * e * d)
    if name == "clip":
        lo, hi = args
        if region == "in":
            B.assume(v > lo)
            B.assume(v < hi)
            return Dual(v, d)
        if region == "lo":
            B.assume(v < lo)
            return Dual(0 * v + lo, 0 * d)
        B.assume(v > hi)
        return Dual(0 * v + hi, 0 * d)
    if name == "softplus":
        if region == "mid":
            B.assume(v > -33)
            B.assume(v < 33)
            e = _f(v, "exp")
            return Dual(_f(1 + e, "log"), e / (1 + e) * d)
        if region == "hi":
            B.assume(v > 33)
            return Dual(v, d)
        B.assume(v < -33)
        return Dual(0 * v, 0 * d)
    raise ValueError(name)


def _const(B, c):
    return sc.SR(sc.q(c)) if B.mode == "sym" else c


def _sign(v):
    if isinstance(v, sc.SR):
        return v.sign()
    return np.sign(v)


def _ite(cond, a, b):
    if isinstance(cond, sc.SB):
        return sc.ite(cond, a, b)
    return a if cond else b


def _ipow(v, k):
    r = 1
    for _ in range(abs(k)):
        r = r * v
    return r if k >= 0 else 1 / r


# --------------------------------------------------------------------------
# trees


def dom_of(kind):
    d = ift.DomainTuple.make(ift.UnstructuredDomain(N))
    if kind == "single":
        return d
    return ift.MultiDomain.make({"a": d, "b": d})


def build(tree, dom, consts):
    """tree -> nifty Operator"""
    if isinstance(tree, str):
        if tree == "x":
            return ift.ScalingOperator(dom, 1.)
        return ift.FieldAdapter(dom[tree], tree) if False else ift.ducktape(None, dom, tree)
    k = tree[0]
    if k == "ptw":
        name, sub = tree[1], build(tree[2], dom, consts)
        args = tuple(tree[3]) if len(tree) > 3 else ()
        return sub.ptw(name, *args)
    if k == "neg":
        return -build(tree[1], dom, consts)
    if k == "scale":
        return build(tree[1], dom, consts).scale(consts["c"])
    if k == "addc":
        return build(tree[1], dom, consts) + consts["c"]
    if k == "diag":
        sub = build(tree[1], dom, consts)
        return ift.makeOp(field_of(sub.target, consts["w"])) @ sub
    if k == "pow":
        return build(tree[1], dom, consts) ** tree[2]
    if k == "sum":
        return build(tree[1], dom, consts).sum()
    if k == "conj":
        return build(tree[1], dom, consts).conjugate()
    a, b = build(tree[1], dom, consts), build(tree[2], dom, consts)
    if k == "add":
        return a + b
    if k == "sub":
        return a - b
    if k == "mul":
        return a * b
    if k == "div":
        return a / b
    if k == "vdot":
        return a.vdot(b)
    raise ValueError(k)


def ref_eval(tree, inp, consts, B):
    """tree -> list of Dual (flat target)"""
    if isinstance(tree, str):
        return list(inp[tree])
    k = tree[0]
    if k == "ptw":
        name = tree[1]
        sub = ref_eval(tree[2], inp, consts, B)
        args = tuple(tree[3]) if len(tree) > 3 else ()
        region = tree[4] if len(tree) > 4 else None
        return [d_fn(name, u, B, args, region) for u in sub]
    if k == "neg":
        return [-u for u in ref_eval(tree[1], inp, consts, B)]
    if k == "scale":
        return [u * consts["c"] for u in ref_eval(tree[1], inp, consts, B)]
    if k == "addc":
        return [u + consts["c"] for u in ref_eval(tree[1], inp, consts, B)]
    if k == "diag":
        return [u * w for u, w in zip(ref_eval(tree[1], inp, consts, B), consts["w"])]
    if k == "pow":
        return [d_fn("power", u, B, (tree[2],)) for u in ref_eval(tree[1], inp, consts, B)]
    if k == "sum":
        r = Dual(0, 0)
        for u in ref_eval(tree[1], inp, consts, B):
            r = r + u
        return [r]
    if k == "conj":
        return [u.conjugate() for u in ref_eval(tree[1], inp, consts, B)]
    a, b = ref_eval(tree[1], inp, consts, B), ref_eval(tree[2], inp, consts, B)
    if k == "add":
        return [u + v for u, v in zip(a, b)]
    if k == "sub":
        return [u - v for u, v in zip(a, b)]
    if k == "mul":
        return [u * v for u, v in zip(a, b)]
    if k == "div":
        for v in b:
            B.assume(v.v != 0)
        return [u / v for u, v in zip(a, b)]
    if k == "vdot":
        r = Dual(0, 0)
        for u, v in zip(a, b):
            r = r + u.conjugate() * v
        return [r]
    raise ValueError(k)


def _has_conj(tree):
    if isinstance(tree, str):
        return False
    if tree[0] in ("conj", "vdot"):
        return True
    if tree[0] == "ptw":
        return _has_conj(tree[2])
    return any(_has_conj(t) for t in tree[1:] if isinstance(t, (list, str)))


def h_tree(B, tree, kind, cplx, metric=False):
    with shims_cl.complex_mode(cplx):
        dom = dom_of(kind)
        keys = ["x"] if kind == "single" else ["a", "b"]
        xs = {k: B.values("x" + k, (N,), cplx) for k in keys}
        dxs = {k: B.values("d" + k, (N,), cplx) for k in keys}
        consts = {"c": B.values("c", (), cplx), "w": B.values("w", (N,), cplx)}
        # reference first: its validity assumptions must precede the code under test
        ref = ref_eval(tree, {k: [Dual(v, d) for v, d in zip(xs[k], dxs[k])] for k in keys}, consts, B)
        rv = np.array([u.v for u in ref], dtype=object if B.mode == "sym" else None)
        rd = np.array([u.d for u in ref], dtype=object if B.mode == "sym" else None)
        n_side = len(sc.cur().side) if B.mode == "sym" else 0
        with B.setup():
            op = build(tree, dom, consts)
        if kind == "single":
            x, dx = field_of(dom, xs["x"]), field_of(dom, dxs["x"])
        else:
            x = ift.MultiField.from_dict({k: field_of(dom[k], xs[k]) for k in keys}, dom)
            dx = ift.MultiField.from_dict({k: field_of(dom[k], dxs[k]) for k in keys}, dom)
        B.is_true("operator domain", op.domain is dom)
        plain = op(x)
        B.eq("op(x) == reference value", flat_of(plain), rv)
        lin = op(ift.Linearization.make_var(x, want_metric=metric))
        B.eq("op(Lin).val == op(x)", flat_of(lin.val), flat_of(plain))
        B.is_true("want_metric flag carried through", lin.want_metric == metric)
        B.is_true("linearization target", lin.target is op.target and lin.jac.target is op.target and lin.jac.domain is dom)
        jdx = lin.jac(dx)
        B.eq("Jacobian(dx) == true directional derivative", flat_of(jdx), rd)
        y = B.values("y", (op.target.size,), cplx)
        jty = lin.jac.adjoint_times(unflat(op.target, y))
        dxflat = np.concatenate([dxs[k] for k in keys])
        lhs, rhs = vdot_flat(y, flat_of(jdx)), vdot_flat(flat_of(jty), dxflat)
        if cplx and _has_conj(tree):
            B.eq("Re<y,J dx> == Re<J^H y,dx> (anti-linear part present)", lhs.real, rhs.real)
        else:
            B.eq("<y,J dx> == <J^H y,dx>", lhs, rhs)
        _defined(B, n_side, [flat_of(plain), flat_of(jdx)])


def _defined(B, n_side, results, label=None):
    """the code under test must be defined wherever the documented function is: every division / root / logarithm it
    performed (definedness side conditions recorded by the engine after the reference was evaluated) has to be implied
    by the documented validity range.  Replay: the float results must be finite."""
    label = label or "value and Jacobian are defined (finite) on the whole documented range"
    if B.mode != "sym":
        ok = all(bool(np.all(np.isfinite(np.asarray(r, dtype=complex)))) for r in results)
        B.is_true(label, ok)
        return
    import z3
    ctx = sc.cur()
    new = list(ctx.side[n_side:])
    if not new:
        B.is_true(label, True)
        return
    ctx.side = ctx.side[:n_side]
    try:
        B.holds(label, sc.SB(z3.And(*new)))
    finally:
        ctx.side = ctx.side + new


def _ref_einsum(subscripts, arrays):
    """explicit index sums (independent of np.einsum); arrays: list of object arrays of Dual"""
    iss, oss = subscripts.split("->")
    terms = iss.split(",")
    sizes = {}
    for t, a in zip(terms, arrays):
        for ax, letter in enumerate(t):
            sizes[letter] = a.shape[ax]
    letters = sorted(sizes)
    out = np.empty([sizes[o] for o in oss], dtype=object)
    for idx in np.ndindex(*out.shape):
        out[idx] = Dual(0, 0)
    import itertools
    for assign in itertools.product(*[range(sizes[l]) for l in letters]):
        env = dict(zip(letters, assign))
        prod = Dual(1, 0)
        for t, a in zip(terms, arrays):
            prod = prod * a[tuple(env[l] for l in t)]
        oi = tuple(env[o] for o in oss)
        out[oi] = out[oi] + prod
    return out


def h_einsum(B, subscripts, key_order, shapes, static=(), use_key_order=True):
    """MultiLinearEinsum: value and Jacobian vs explicit index sums on dual numbers"""
    U = ift.UnstructuredDomain
    doms = {k: ift.DomainTuple.make(tuple(U(n) for n in shapes[k])) for k in key_order}
    var = [k for k in key_order if k not in static]
    xs = {k: B.reals("x" + k, tuple(shapes[k])) for k in key_order}
    dxs = {k: B.reals("d" + k, tuple(shapes[k])) for k in var}
    with B.setup():
        mdom = ift.MultiDomain.make({k: doms[k] for k in var})
        smf = {k: field_of(doms[k], xs[k]) for k in static} if static else None
        op = ift.MultiLinearEinsum(mdom, subscripts, key_order=tuple(key_order) if use_key_order else None, static_mf=smf)
    arrs = []
    for k in key_order:
        a = np.empty(tuple(shapes[k]), dtype=object)
        for idx in np.ndindex(*a.shape):
            a[idx] = Dual(xs[k][idx], dxs[k][idx] if k in var else 0)
        arrs.append(a)
    ref = _ref_einsum(subscripts, arrs)
    rv = np.array([u.v for u in ref.reshape(-1)], dtype=object if B.mode == "sym" else None)
    rd = np.array([u.d for u in ref.reshape(-1)], dtype=object if B.mode == "sym" else None)
    x = ift.MultiField.from_dict({k: field_of(doms[k], xs[k]) for k in var}, mdom)
    dx = ift.MultiField.from_dict({k: field_of(doms[k], dxs[k]) for k in var}, mdom)
    plain = op(x)
    B.eq("einsum: op(x) == explicit index sum", flat_of(plain), rv)
    lin = op(ift.Linearization.make_var(x))
    B.eq("einsum: op(Lin).val == op(x)", flat_of(lin.val), flat_of(plain))
    jdx = lin.jac(dx)
    B.eq("einsum: Jacobian(dx) == true directional derivative", flat_of(jdx), rd)
    y = B.reals("y", (op.target.size,))
    jty = lin.jac.adjoint_times(unflat(op.target, y))
    dxflat = np.concatenate([dxs[k].reshape(-1) for k in mdom.keys()])
    B.eq("einsum: <y,J dx> == <J^T y,dx>", vdot_flat(y, flat_of(jdx)), vdot_flat(flat_of(jty), dxflat))


# --------------------------------------------------------------------------

REAL_FNS = [("exp",), ("log",), ("log10",), ("log1p",), ("expm1",), ("sqrt",), ("sin",), ("cos",), ("tan",),
            ("sinh",), ("cosh",), ("tanh",), ("sigmoid",), ("reciprocal",), ("abs",), ("absolute",), ("sign",),
            ("arctan",), ("unitstep",), ("sinc",), ("power", (2,)), ("power", (3,)), ("power", (-1,)), ("power", (0.5,)),
            ("exponentiate", (2.0,)), ("clip", (-1.0, 2.0), "in"), ("clip", (-1.0, 2.0), "lo"), ("clip", (-1.0, 2.0), "hi"),
            ("softplus", (), "mid"), ("softplus", (), "hi"), ("softplus", (), "lo")]
HOLO_FNS = [("exp",), ("sin",), ("cos",), ("tan",), ("sinh",), ("cosh",), ("tanh",), ("sigmoid",), ("reciprocal",),
            ("expm1",), ("power", (2,)), ("power", (-1,))]


def P(fn, t):
    """tree node applying the point-wise function descriptor fn to tree t"""
    name = fn[0]
    args = list(fn[1]) if len(fn) > 1 else []
    node = ["ptw", name, t, args]
    if len(fn) > 2:
        node.append(fn[2])
    return node


def scenarios(tier, seed):
    rng = random.Random(seed)
    out = []
    # every table entry on a plain variable, with and without the metric flag
    for fn in REAL_FNS:
        out.append(("tree", {"tree": P(fn, "x"), "kind": "single", "cplx": False, "metric": False}))
    for fn in HOLO_FNS:
        out.append(("tree", {"tree": P(fn, "x"), "kind": "single", "cplx": True, "metric": False}))
    cheap = [("exp",), ("sin",), ("tanh",), ("reciprocal",), ("power", (2,)), ("log",), ("sqrt",), ("arctan",),
             ("sigmoid",), ("softplus", (), "mid"), ("abs",)]
    multi = [
        ["mul", "a", "b"], ["add", "a", "b"], ["sub", "a", "b"], ["div", "a", "b"], ["vdot", "a", "b"],
        ["sum", ["mul", "a", "b"]], ["mul", P(("exp",), "a"), "b"], ["add", P(("sin",), "a"), ["mul", "a", "b"]],
        ["mul", ["mul", "a", "b"], "a"], ["pow", ["mul", "a", "b"], 2], ["scale", ["mul", "a", "b"]],
        ["addc", ["sub", "a", "b"]], ["diag", ["mul", "a", "b"]], ["neg", ["div", "a", P(("exp",), "b")]],
        ["vdot", ["mul", "a", "b"], P(("tanh",), "a")], ["mul", ["sum", ["mul", "a", "a"]], ["sum", "b"]],
        P(("tanh",), ["add", ["mul", "a", "b"], "b"]), ["div", ["add", "a", "b"], ["addc", ["mul", "b", "b"]]],
        ["sub", ["diag", "a"], ["scale", P(("sigmoid",), "b")]], ["mul", ["conj", "a"], "b"],
    ]
    heavy = (["vdot", ["mul", "a", "b"], P(("tanh",), "a")], P(("tanh",), ["add", ["mul", "a", "b"], "b"]),
             ["div", ["add", "a", "b"], ["addc", ["mul", "b", "b"]]])
    for t in multi:
        for cplx in (False, True):
            if cplx and t in heavy and tier == "quick":
                continue   # complex tanh of products: > 60 s per obligation, thorough tier only
            out.append(("tree", {"tree": t, "kind": "multi", "cplx": cplx, "metric": cplx}))
    # compositions f(g(x)), f(x)*g(x), f(a)+g(b)
    n2 = {"quick": 30, "thorough": 400}[tier]
    pool = []
    for f in cheap:
        for g in cheap:
            pool.append((P(f, P(g, "x")), "single"))
            pool.append((["mul", P(f, "x"), P(g, "x")], "single"))
            pool.append((["add", P(f, "a"), ["mul", P(g, "b"), "a"]], "multi"))
            pool.append((P(f, ["mul", "a", P(g, "b")]), "multi"))
    for t, kind in rng.sample(pool, min(n2, len(pool))):
        out.append(("tree", {"tree": t, "kind": kind, "cplx": False, "metric": True}))
    # MultiLinearEinsum: operand orders that differ from the sorted key order, static operands, mixed shapes
    ein = [
        ("ij,jk,k->i", ["b", "a", "c"], {"b": [2, 2], "a": [2, 2], "c": [2]}, []),
        ("ij,jk,k->i", ["a", "b", "c"], {"a": [2, 2], "b": [2, 2], "c": [2]}, []),
        ("ij,jk,k->i", ["c", "a", "b"], {"c": [2, 3], "a": [3, 2], "b": [2]}, []),
        ("ij,jk,k->i", ["b", "a", "c"], {"b": [2, 2], "a": [2, 2], "c": [2]}, ["a"]),
        ("i,i->i", ["q", "p"], {"q": [2], "p": [2]}, []),
        ("i,j->ij", ["q", "p"], {"q": [2], "p": [3]}, []),
        ("ij,j->i", ["m", "v"], {"m": [2, 3], "v": [3]}, ["m"]),
        ("i,i,i->i", ["c", "b", "a"], {"a": [2], "b": [2], "c": [2]}, []),
        ("ij,ij,j->i", ["z", "x", "y"], {"z": [2, 2], "x": [2, 2], "y": [2]}, []),
        ("ij,kj,k,i->j", ["d", "b", "c", "a"], {"d": [2, 2], "b": [2, 2], "c": [2], "a": [2]}, []),
    ]
    for subs, ko, shp, st in ein:
        out.append(("einsum", {"subscripts": subs, "key_order": ko, "shapes": shp, "static": st}))
    out.append(("einsum", {"subscripts": "ij,jk,k->i", "key_order": ["a", "b", "c"], "shapes": {"a": [2, 2], "b": [2, 2], "c": [2]},
                           "static": [], "use_key_order": False}))
    return out


HARNESSES = {"tree": h_tree, "einsum": h_einsum}
OPTS = {"quick": {"max_paths": 64}, "thorough": {"max_paths": 128, "budget_s": 1500}}

META = {
    "level": "other",
    "explanation": "Operator expression trees are built through the public API (ptw, +, -, *, /, **, scale, vdot, sum, "
                   "makeOp, conjugate, ducktape) and evaluated on Linearization.make_var of symbolic fields; value, "
                   "Jacobian action and adjoint Jacobian are compared by z3 with an independent forward-mode dual-number "
                   "evaluation of the same tree that uses a hand-written derivative table for all 24 point-wise functions "
                   "(transcendentals uninterpreted with minimal axioms).  Each function is checked on its valid range "
                   "(assumptions recorded), softplus and clip per branch.",
    "functions_encoded": ["nifty.cl.operators.operator.{Operator.__call__,_OpChain.apply,_OpProd.apply,_OpSum.apply,_FunctionApplier.apply,"
                          "Operator.{ptw,scale,vdot,sum,conjugate,__pow__,__truediv__,__add__,__mul__,__sub__}}",
                          "nifty.cl.linearization.Linearization.{make_var,new,prepend_jac,__mul__,_myadd,__pow__,__truediv__,vdot,sum,ptw,conjugate}",
                          "nifty.cl.pointwise.ptw_dict (all 24 entries) and helper functions", "nifty.cl.operators.einsum.{MultiLinearEinsum.apply,LinearEinsum.apply}",
                          "nifty.cl.field.Field.{ptw,ptw_with_deriv}, nifty.cl.any_array.AnyArray.{ptw,ptw_with_deriv}"],
    "bounds": {"tree_depth": "<= 3", "pixels": 2, "keys": "1 or 2"},
    "stubs": shims_cl.STUBS[:5],
    "outside": ["JaxOperator", "points of non-differentiability (|x| at 0, clip/softplus branch points)",
                "non-holomorphic functions on complex input", "MultiLinearEinsum with complex operands"],
    "assumptions": ["function arguments in the function's valid range (log/sqrt/power(0.5): > 0; reciprocal/abs/sign/sinc/unitstep: != 0; "
                    "tan: cos != 0; softplus/clip: one branch per scenario)"],
}
