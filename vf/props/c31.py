"""C31 -- multi-grid index maps are consistent at every level (front end B, integer sort).

The index maps are traced with an integer index; in the interpreter the index is a
vector of z3 *Int* variables constrained to the level's range, so one solver
query covers ALL indices of a level (XLA's truncating div/rem, Python's floor
div/mod, clipping and sign handling are encoded with their exact semantics)."""
import itertools

import numpy as np

from .. import symcore as sc
from ..jaxpr_interp import jcall, jax, jnp
from .c12 import setup, _flat  # noqa: F401


def mg():
    import nifty.re.multi_grid.grid as g
    return g


GRIDS = {
    "reg1": lambda G: G.Grid(shape0=(2,), splits=((2,), (3,))),
    "reg1b": lambda G: G.Grid(shape0=(3,), splits=((2,),)),
    "reg2": lambda G: G.Grid(shape0=(2, 3), splits=((2, 2),)),
    "reg2b": lambda G: G.Grid(shape0=(2, 2), splits=((2, 3), (2, 2))),
    "open1": lambda G: G.OpenGrid(shape0=(5,), splits=((2,), (2,)), padding=((1,), (2,))),
    "open2": lambda G: G.OpenGrid(shape0=(4, 6), splits=((2, 2),), padding=((1, 1),)),
    "open2b": lambda G: G.OpenGrid(shape0=(4, 5), splits=((2, 3),), padding=((1, 2),)),
    "open2c": lambda G: G.OpenGrid(shape0=(3, 4), splits=((2, 2),), padding=((0, 1),)),
    "prod": lambda G: G.MGrid(G.Grid(shape0=(2,), splits=((2,),)), G.OpenGrid(shape0=(5,), splits=((2,),), padding=((1,),))),
}


def make(name, flat=None):
    G = mg()
    g = GRIDS[name](G)
    if flat:
        g = G.FlatGrid(g, ordering=flat)
    return g


def _open_parts(gl):
    """(padding vector or zeros) of a level (for the 'refined' precondition)"""
    if hasattr(gl, "grid_at_level"):
        return _open_parts(gl.grid_at_level)
    if hasattr(gl, "grids"):
        return np.concatenate([_open_parts(x) for x in gl.grids])
    pad = getattr(gl, "padding", None)
    return np.zeros(gl.ndim, dtype=int) if pad is None else np.asarray(pad)


def _nd_level(gl):
    return gl.grid_at_level if hasattr(gl, "grid_at_level") else gl


def sym_index(B, name, shape):
    i = B.ints(name, (len(shape),))
    for k, n in enumerate(shape):
        B.assume(i[k] >= 0)
        B.assume(i[k] < int(n))
    return i


def h_tree(B, grid, flat, level):
    g = make(grid, flat)
    gl, gn = g.at(level), g.at(level + 1)
    i = sym_index(B, "i", gl.shape)
    # precondition of children(): the index is refined (inside the padding of open grids)
    ref = jcall(B, lambda i: gl._is_index_refined(i), i)
    refv = ref.reshape(-1)[0] if hasattr(ref, "reshape") else ref
    B.assume(refv != 0 if not isinstance(refv, (bool, np.bool_)) else bool(refv))
    ch = jcall(B, lambda i: gl.children(i), i)                 # (ndim, *splits) or (1, nchild)
    ch = np.asarray(ch, dtype=object)
    nd = ch.shape[0]
    kids = ch.reshape(nd, -1)
    B.is_true("number of children == product of the splits", kids.shape[1] == int(np.prod(_nd_level(gl).splits)))
    for c in range(kids.shape[1]):
        kid = kids[:, c]
        for k in range(nd):
            B.holds("children lie inside the next level", (kid[k] >= 0) & (kid[k] < int(gn.shape[k])))
        par = jcall(B, lambda j: gn.parent(j), kid)
        B.eq("parent(children(i)[c]) == i", _flat(par), list(i))
    # children are pairwise distinct
    for a, b in itertools.combinations(range(kids.shape[1]), 2):
        diff = None
        for k in range(nd):
            t = (kids[k, a] != kids[k, b])
            diff = t if diff is None else (diff | t)
        B.holds("children of one index are pairwise distinct", diff)


def h_kids_valid(B, grid, flat, level):
    """no precondition on the index"""
    g = make(grid, flat)
    gl, gn = g.at(level), g.at(level + 1)
    i = sym_index(B, "i", gl.shape)
    # EVERY index of the level (also the padding band of open grids, which the code maps to the nearest refined cell,
    # "jax-array inspired out of bounds handling"): the children are valid indices of the next level
    ch_all = np.asarray(jcall(B, lambda i: gl.children(i), i), dtype=object)
    kids_all = ch_all.reshape(ch_all.shape[0], -1)
    for c in range(kids_all.shape[1]):
        for k in range(kids_all.shape[0]):
            B.holds("every index (refined or padding): children lie inside the next level",
                    (kids_all[k, c] >= 0) & (kids_all[k, c] < int(gn.shape[k])))


def h_cover(B, grid, flat, level):
    """every index j of level+1 is a child of its parent: the children of all indices cover (hence partition) the next level"""
    g = make(grid, flat)
    gl, gn = g.at(level), g.at(level + 1)
    j = sym_index(B, "j", gn.shape)
    par = np.asarray(jcall(B, lambda j: gn.parent(j), j), dtype=object).reshape(-1)
    for k in range(len(par)):
        B.holds("parent index lies inside the previous level", (par[k] >= 0) & (par[k] < int(gl.shape[k])))
    ref = jcall(B, lambda p: gl._is_index_refined(p), par)
    refv = ref.reshape(-1)[0] if hasattr(ref, "reshape") else ref
    B.holds("the parent of every fine index is a refined index", refv != 0 if not isinstance(refv, (bool, np.bool_)) else bool(refv))
    ch = np.asarray(jcall(B, lambda p: gl.children(p), par), dtype=object)
    kids = ch.reshape(ch.shape[0], -1)
    hit = None
    for c in range(kids.shape[1]):
        same = None
        for k in range(kids.shape[0]):
            t = (kids[k, c] == j[k])
            same = t if same is None else (same & t)
        hit = same if hit is None else (hit | same)
    B.holds("j is among children(parent(j))  (children partition the next level)", hit)


def h_flat(B, grid, flat, level):
    g = make(grid, flat)
    gl = g.at(level)
    ndl = gl.grid_at_level
    f = sym_index(B, "f", gl.shape)
    idx = np.asarray(jcall(B, lambda f: gl.flatindex2index(f), f), dtype=object).reshape(-1)
    for k in range(len(idx)):
        B.holds("flatindex2index lands inside the level", (idx[k] >= 0) & (idx[k] < int(ndl.shape[k])))
    back = jcall(B, lambda f: gl.index2flatindex(gl.flatindex2index(f)), f)
    B.eq("index2flatindex(flatindex2index(f)) == f", _flat(back), list(f))
    i = sym_index(B, "i", ndl.shape)
    fl = np.asarray(jcall(B, lambda i: gl.index2flatindex(i), i), dtype=object).reshape(-1)
    B.holds("index2flatindex lands inside the flat level", (fl[0] >= 0) & (fl[0] < int(gl.shape[0])))
    back2 = jcall(B, lambda i: gl.flatindex2index(gl.index2flatindex(i)), i)
    B.eq("flatindex2index(index2flatindex(i)) == i", _flat(back2), list(i))
    # flat children / parent agree with the n-d maps
    if level < g.depth:
        ref = jcall(B, lambda i: ndl._is_index_refined(i), i)
        refv = ref.reshape(-1)[0] if hasattr(ref, "reshape") else ref
        B.assume(refv != 0 if not isinstance(refv, (bool, np.bool_)) else bool(refv))
        gn = g.at(level + 1)
        fc = np.asarray(jcall(B, lambda i: gl.children(gl.index2flatindex(i)), i), dtype=object).reshape(-1)
        ndc = np.asarray(jcall(B, lambda i: ndl.children(i), i), dtype=object)
        ndc = ndc.reshape(ndc.shape[0], -1)
        for c in range(ndc.shape[1]):
            want = jcall(B, lambda k: gn.index2flatindex(k), ndc[:, c])
            B.eq("flat children == flat index (next level) of the n-d children", [fc[c]], _flat(want))


def h_coord(B, grid, level):
    g = make(grid)
    gl = g.at(level)
    i = sym_index(B, "i", gl.shape)
    if "open" in grid:
        # (GridAtLevel.coord2index calls numpy.rint on its argument and cannot be traced; the open-grid version uses jnp.rint)
        back = jcall(B, lambda i: gl.coord2index(gl.index2coord(i)), i)
        B.eq("coord2index(index2coord(i)) == i", _flat(back), list(i))
    co = np.asarray(jcall(B, lambda i: gl.index2coord(i), i), dtype=object).reshape(-1)
    for v in co:
        B.holds("coordinates lie in the unit interval", (v > 0) & (v < 1))
    j = sym_index(B, "j", gl.shape)
    B.assume(i[0] < j[0])
    co2 = np.asarray(jcall(B, lambda i: gl.index2coord(i), j), dtype=object).reshape(-1)
    B.holds("coordinates increase with the index", co[0] < co2[0])


def h_neigh(B, grid, level, w):
    g = make(grid)
    gl = g.at(level)
    nd = gl.ndim
    i = sym_index(B, "i", gl.shape)
    nb = np.asarray(jcall(B, lambda i: gl.neighborhood(i, (w,) * nd), i), dtype=object)
    nb = nb.reshape(nd, -1)
    offs = list(itertools.product(*[range(w)] * nd))
    B.is_true("window has w^ndim entries", nb.shape[1] == len(offs))
    is_open = (_open_parts(gl) > 0).any() or "open" in grid
    for c, off in enumerate(offs):
        for k in range(nd):
            raw = i[k] + (off[k] - w // 2)
            n = int(gl.shape[k])
            if "open" in grid:
                want = sc.ite(raw < 0, 0, sc.ite(raw > n - 1, n - 1, raw)) if B.mode == "sym" else min(max(raw, 0), n - 1)
                # the regular-grid neighbourhood wraps first, then the open grid clips to the level
                B.holds("open-grid neighbours lie inside the level", (nb[k, c] >= 0) & (nb[k, c] <= n - 1))
            else:
                want = raw % n
                B.eq("neighbourhood wraps: (i + c - w//2) mod shape", [nb[k, c]], [want])


def h_hp_neigh(B, nside0, level, window):
    """HEALPix level: the arithmetic neighbourhood windows (1 = the pixel itself, size = the whole sphere); the 9-pixel
    window goes through jhealpix bit manipulation and stays outside the claim"""
    import nifty.re.multi_grid as MG
    g = MG.HEALPixGrid(nside0=nside0, depth=1)
    gl = g.at(level)
    size = int(gl.size)
    w = 1 if window == "one" else size
    i = sym_index(B, "i", (size,))
    nb = np.asarray(jcall(B, lambda i: gl.neighborhood(i, (w,)), i), dtype=object).reshape(-1)
    B.is_true("window has the requested number of entries", nb.shape[0] == w)
    B.holds("HEALPix neighbours lie inside the level", _conj([(nb[c] >= 0) & (nb[c] <= size - 1) for c in range(w)], B))
    B.holds("the pixel belongs to its own neighbourhood", _disj([nb[c] == i[0] for c in range(w)], B))
    if w == size:
        B.holds("the full-sphere window is a permutation of all pixels (pairwise distinct)",
                _conj([~(nb[a] == nb[b]) if B.mode == "sym" else (nb[a] != nb[b]) for a in range(w) for b in range(a + 1, w)], B))


def _conj(cs, B):
    if B.mode != "sym":
        return all(bool(c) for c in cs)
    t = sc.SB(True)
    for c in cs:
        t = t & c
    return t


def _disj(cs, B):
    if B.mode != "sym":
        return any(bool(c) for c in cs)
    t = sc.SB(False)
    for c in cs:
        t = t | c
    return t


def h_volume(B, grid, level):
    g = make(grid)
    gl, gn = g.at(level), g.at(level + 1)
    i0 = np.zeros((gl.ndim,), dtype=np.int64)
    v = float(np.asarray(gl.index2volume(i0)).reshape(-1)[0])
    vn = float(np.asarray(gn.index2volume(np.zeros((gn.ndim,), dtype=np.int64))).reshape(-1)[0])
    nchild = int(np.prod(gl.splits))
    B.is_true("refinement never creates volume: sum of the children's volumes <= parent volume", nchild * vn <= v * (1 + 1e-12))
    if "open" not in grid and grid != "prod":
        B.is_true("regular grids: the children's volumes add up to the parent volume", abs(nchild * vn - v) <= 1e-12 * v)
    B.is_true("level volumes sum to at most 1", gl.size * v <= 1 + 1e-12)


def scenarios(tier, seed):
    out = []
    for name, mk in GRIDS.items():
        depth = make(name).depth
        for flat in (None, "serial", "nest"):
            if flat == "nest" and ("open" in name or name == "prod"):
                continue          # documented: nest ordering is not supported for open grids
            for lvl in range(depth):
                if tier == "quick" and flat == "nest" and name == "reg2b" and lvl == 1:
                    continue      # nested div/mod chains of the nest ordering on the second level: thorough tier
                out.append(("tree", {"grid": name, "flat": flat, "level": lvl}))
                if name.startswith("open") or name == "prod":
                    out.append(("kids_valid", {"grid": name, "flat": flat, "level": lvl}))
                out.append(("cover", {"grid": name, "flat": flat, "level": lvl}))
            if flat:
                for lvl in range(depth + 1):
                    out.append(("flat", {"grid": name, "flat": flat, "level": lvl}))
        for lvl in range(depth + 1):
            if name != "prod":
                out.append(("coord", {"grid": name, "level": lvl}))
            if name != "prod":
                out.append(("neigh", {"grid": name, "level": lvl, "w": 3}))
                if tier == "thorough":
                    out.append(("neigh", {"grid": name, "level": lvl, "w": 2}))
        for lvl in range(depth):
            out.append(("volume", {"grid": name, "level": lvl}))
    for window in ("one", "all"):
        out.append(("hp_neigh", {"nside0": 1, "level": 0, "window": window}))
    if tier == "thorough":
        out.append(("hp_neigh", {"nside0": 1, "level": 1, "window": "all"}))
    return out


HARNESSES = {"hp_neigh": h_hp_neigh, "tree": h_tree, "kids_valid": h_kids_valid, "cover": h_cover, "flat": h_flat, "coord": h_coord, "neigh": h_neigh, "volume": h_volume}
OPTS = {"quick": {"max_paths": 8, "budget_s": 400, "jobs": 12, "obl_timeout_ms": 60000}, "thorough": {"max_paths": 8, "budget_s": 1500, "jobs": 12}}

META = {
    "level": "other",
    "explanation": "jaxpr IR of children / parent / _is_index_refined / flatindex2index / index2flatindex / index2coord / coord2index / "
                   "neighborhood of GridAtLevel, OpenGridAtLevel, MGridAtLevel and FlatGridAtLevel (serial and nest ordering) interpreted "
                   "with the index as z3 Int variables constrained to the level's range: ONE query covers all indices of a level.  "
                   "Obligations: children lie in the next level, are pairwise distinct and parent(child) == i for every child; every index "
                   "j of the next level is among children(parent(j)) and its parent is refined (=> the children partition the level); "
                   "flat <-> n-d index round trips in both orderings, flat children agree with the n-d children; coord2index(index2coord(i)) "
                   "== i with monotone coordinates in (0,1); neighbourhoods wrap ((i+c-w//2) mod shape) or stay inside open grids; "
                   "refinement never creates volume.",
    "functions_encoded": ["nifty.re.multi_grid.grid.{GridAtLevel,OpenGridAtLevel,MGridAtLevel,FlatGridAtLevel}.{children,parent,_parse_index,"
                          "_is_index_refined,neighborhood,index2coord,coord2index,index2volume,index2flatindex,flatindex2index,_weights_serial,_weights_nest}",
                          "nifty.re.multi_grid.grid.{Grid,OpenGrid,MGrid,FlatGrid}.at"],
    "bounds": {"grids": "9 configurations: regular 1-D/2-D (depth <= 2, splits 2 and 3, mixed), open 1-D/2-D with paddings 0-2, product, "
                        "each also flattened in serial and nest ordering", "axis lengths": "<= 12"},
    "stubs": ["jaxpr interpreter with an integer sort: XLA div/rem truncate, Python // and % floor; round(x) = integer within 1/2"],
    "outside": ["coord2index of regular grids (uses numpy.rint on its argument: not traceable; the open-grid implementation is covered)", "HEALPix grids except the arithmetic neighbourhood windows 1 and whole-sphere (the rest is jhealpix bit twiddling + ducc)", "logarithmic radial grids (exp/log of coordinates)", "SparseGrid", "out-of-range indices (wrap/clamp of _parse_index)"],
    "assumptions": ["0 <= index < shape; the tree identities only for refined indices (inside the padding); validity of the children of open grids for EVERY index"],
}
