"""C27 -- the classic VI driver accepts every documented configuration.

The real nifty.cl optimize_kl runs a tiny two-parameter model.  Every option of the configuration is a SYMBOLIC variable:
the boolean options (sanity_checks, dry_run, return_final_position) are objects whose truth value is decided -- by
solver-checked forking -- at the moment the driver inspects them; the per-iteration options (n_samples, constants,
point_estimates, transitions, fresh_stochasticity, terminate_callback) are passed in their documented callable form and
their value for iteration i is a symbolic integer concretised when the driver asks for it.  An option the driver never
looks at on a path stays symbolic on that path, so one path covers all of its values; the paths are exactly the
behaviours the driver's own control flow distinguishes.  The numerics of each path are concrete float64.

On every path: the run completes; the return value has the documented form; the callbacks were called as documented;
constants keep their initial value; point estimates carry no sample spread; iterations without fresh stochasticity reuse
the previous random stream and fresh ones do not; the output directory names the last finished iteration and holds the
files of the chosen save strategy; and the global random-number-generator stack holds the same objects as before the call."""
import logging
import os
import shutil
import tempfile

import numpy as np

from .. import symcore as sc
from ..clcommon import ift, setup_cl

_FRESH = None


def setup():
    global _FRESH
    setup_cl()
    from nifty.cl import random as rnd
    _FRESH = rnd.getState()


class _Lazy:
    """boolean option whose value is decided when the driver first inspects it"""

    def __init__(self, pick, name):
        self._pick, self._name, self._v = pick, name, None

    def peek(self):
        return self._v

    def __bool__(self):
        if self._v is None:
            self._v = bool(self._pick(self._name, 0, 1))
        return self._v


def _model():
    dom = ift.RGSpace(3)
    a, b = ift.FieldAdapter(dom, "a"), ift.FieldAdapter(dom, "b")
    R = ift.makeOp(ift.makeField(dom, np.array([1., 2., 0.5]))) @ (a + b).ptw("exp")
    data = ift.makeField(dom, np.array([0.3, 1.2, 2.0]))
    lh = ift.GaussianEnergy(data=data, inverse_covariance=ift.ScalingOperator(dom, 4., float)) @ R
    init = ift.MultiField.from_raw(lh.domain, {"a": np.array([0.1, -0.2, 0.05]), "b": np.array([-0.3, 0.25, 0.15])})
    return dom, lh, init


CONSTANTS = ([], ["a"])
POINT_ESTIMATES = ([], ["b"], ["a"])
NSAMPLES = (2, 0, 1)


def h_config(B, outdir, strategy, plotting, export, niter, symbolic, small=False, start="given"):
    """outdir / strategy / plotting / export: enumerated by the scenario list (they select files, not control flow of the
    optimisation).  `symbolic`: the set of options that are symbolic in this scenario; the others take their default."""
    import nifty.cl.minimization.optimize_kl as okl
    from nifty.cl import random as rnd
    ift.logger.setLevel(logging.CRITICAL)
    logging.getLogger("matplotlib").setLevel(logging.CRITICAL)
    saved_ctx = sc.Ctx.cur
    memo = {}

    def pick(name, lo, hi):
        if name not in memo:
            sc.Ctx.cur = saved_ctx
            try:
                memo[name] = B.pick(name, lo, hi)
            finally:
                sc.Ctx.cur = None
        return memo[name]

    def opt(name, i, values, default=0):
        """value of the per-iteration option `name` for iteration i"""
        if name not in symbolic:
            return values[default]
        return values[pick(f"{name}@{i}", 0, len(values) - 1)]

    NSAMPLES, POINT_ESTIMATES = ((2, 0), ([], ["b"])) if small else (globals()["NSAMPLES"], globals()["POINT_ESTIMATES"])
    dom, lh, init = _model()
    calls = {"transition": [], "inspect": [], "terminate": [], "stream": {}}

    def likelihood_energy(i):
        if len(rnd._sseq) == depth0 + 1:       # called from the main loop, right after the iteration's stream was pushed
            calls["stream"].setdefault(i, repr(rnd.current_rng().bit_generator.state))
        return lh

    def transitions(i):
        if not opt("transitions", i, (False, True)):
            return None

        def t(sl):
            calls["transition"].append((i, isinstance(sl, ift.SampleListBase)))
            return sl.average()
        return t

    def terminate(i):
        r = bool(opt("terminate", i, (False, True)))
        calls["terminate"].append((i, r))
        return r

    def inspect1(sl):
        calls["inspect"].append((None, isinstance(sl, ift.SampleListBase)))

    def inspect2(sl, i):
        calls["inspect"].append((i, isinstance(sl, ift.SampleListBase)))

    def fresh(i):
        return True if i == 0 else bool(opt("fresh", i, (True, False)))

    geo_min = ift.NewtonCG(ift.GradientNormController(iteration_limit=1))
    sanity = _Lazy(pick, "sanity_checks") if "sanity_checks" in symbolic else True
    dry = _Lazy(pick, "dry_run") if "dry_run" in symbolic else False
    retpos = _Lazy(pick, "return_final_position") if "return_final_position" in symbolic else True
    if plotting == "sym":        # the two plotting switches are independent symbolic booleans
        plot_e, plot_m = _Lazy(pick, "plot_energy_history"), _Lazy(pick, "plot_minisanity_history")
    else:
        plot_e = plot_m = bool(plotting)
    kw = dict(likelihood_energy=likelihood_energy, total_iterations=niter,
              n_samples=lambda i: opt("n_samples", i, NSAMPLES),
              kl_minimizer=ift.NewtonCG(ift.GradientNormController(iteration_limit=2)),
              sampling_iteration_controller=ift.AbsDeltaEnergyController(1e-4, iteration_limit=10),
              nonlinear_sampling_minimizer=lambda i: opt("geovi", i, (None, geo_min)),
              constants=lambda i: list(opt("constants", i, CONSTANTS)),
              point_estimates=lambda i: list(opt("point_estimates", i, POINT_ESTIMATES)),
              transitions=transitions, initial_position=init if start == "given" else None,
              plot_energy_history=plot_e, plot_minisanity_history=plot_m,
              save_strategy=strategy, return_final_position=retpos, sanity_checks=sanity, dry_run=dry,
              fresh_stochasticity=fresh)
    if "terminate" in symbolic:
        kw["terminate_callback"] = terminate
    tmp = tempfile.mkdtemp(prefix="vf_c27_") if outdir else None
    out = os.path.join(tmp, "out") if outdir else None
    if outdir:
        kw["output_directory"] = out
    if export:
        kw["export_operator_outputs"] = {"sky": (ift.FieldAdapter(dom, "a") + ift.FieldAdapter(dom, "b")).ptw("exp")}
    err, res, files, last = None, None, [], None
    rnd.setState(_FRESH)
    depth0 = len(rnd._sseq)
    stack0 = list(rnd._sseq)
    sc.Ctx.cur = None
    try:
        insp = opt("inspect", 0, (None, inspect2) if small else (None, inspect1, inspect2)) if "inspect" in symbolic else None
        if insp is not None:
            kw["inspect_callback"] = insp
        try:
            res = ift.optimize_kl(**kw)
        except Exception as e:  # noqa: BLE001  a valid configuration must run to completion
            import traceback
            err = f"{type(e).__name__}: {e} @ " + " <- ".join(f"{f.name}:{f.lineno}" for f in traceback.extract_tb(e.__traceback__)[-3:])
        stack1 = list(rnd._sseq)
        if outdir and os.path.isdir(out):
            for d, _, fs in os.walk(out):
                files += [os.path.relpath(os.path.join(d, f), out) for f in fs]
            lf = os.path.join(out, "last_finished_iteration")
            if os.path.isfile(lf):
                last = open(lf).read().strip()
    finally:
        sc.Ctx.cur = saved_ctx
        rnd.setState(_FRESH)
        try:
            import matplotlib.pyplot as plt
            plt.close("all")
        except Exception:  # noqa: BLE001
            pass
        if tmp:
            shutil.rmtree(tmp, ignore_errors=True)

    # what the configuration of this path says should have happened ------------------------------------------------
    is_dry = bool(dry) if not isinstance(dry, _Lazy) else bool(dry.peek())
    executed = []
    if not is_dry:
        for i in range(niter):
            executed.append(i)
            if "terminate" in symbolic and memo.get(f"terminate@{i}", 0) == 1:
                break
    cfg = ", ".join(f"{k}={v}" for k, v in sorted(memo.items()))
    B.note(f"configuration: {cfg}; executed iterations {executed}")
    stopped = bool(executed) and "terminate" in symbolic and memo.get(f"terminate@{executed[-1]}", 0) == 1
    tag = ("dry run" if is_dry else "stopped by terminate_callback" if stopped else "full run")
    if err:
        B.note("optimize_kl raised " + err[:400])
    B.is_true(f"{tag}: optimize_kl runs to completion on a valid configuration", err is None)
    if err is not None:
        return
    B.is_true(f"{tag}: the global RNG stack holds the same seed sequences as before the call",
              len(stack1) == len(stack0) and all(x is y for x, y in zip(stack0, stack1)))
    want_tuple = bool(retpos) if not isinstance(retpos, _Lazy) else bool(retpos.peek())
    B.is_true("the return value is (samples, mean) iff return_final_position",
              (isinstance(res, tuple) and len(res) == 2 and isinstance(res[0], ift.SampleListBase) and isinstance(res[1], ift.MultiField))
              if want_tuple else isinstance(res, ift.SampleListBase))
    sl = res[0] if isinstance(res, tuple) else res
    mean = res[1] if isinstance(res, tuple) else None
    B.is_true("terminate_callback is asked once after every executed iteration, in order, and stops the loop when it returns True",
              "terminate" not in symbolic or [i for i, _ in calls["terminate"]] == executed)
    if "inspect" in symbolic and memo.get("inspect@0", 0) != 0:
        two = memo["inspect@0"] == 2 or small
        B.is_true("inspect_callback is called after every executed iteration with the sample list (and the iteration index)",
                  [i for i, _ in calls["inspect"]] == (executed if two else [None] * len(executed)) and all(ok for _, ok in calls["inspect"]))
    if "transitions" in symbolic:
        # a dry run goes through the iterations without optimising: its transitions are applied as well
        visited = list(range(niter)) if is_dry else executed
        want = [i for i in visited if memo.get(f"transitions@{i}", 0) == 1]
        B.is_true("the transition of an iteration is applied exactly once, to the current sample list",
                  [i for i, _ in calls["transition"]] == want and all(ok for _, ok in calls["transition"]))
    if executed:
        il = executed[-1]
        n_last = NSAMPLES[memo.get(f"n_samples@{il}", 0)] if "n_samples" in symbolic else NSAMPLES[0]
        B.is_true("the returned sample list has 2 n_samples (mirrored) samples, a single one for n_samples = 0",
                  sl.n_samples == (1 if n_last == 0 else 2 * n_last))
        B.is_true("the returned samples live on the full domain of the likelihood", sl.domain is lh.domain)
        cons = lambda i: CONSTANTS[memo.get(f"constants@{i}", 0)] if "constants" in symbolic else CONSTANTS[0]  # noqa: E731
        trans_any = "transitions" in symbolic and any(memo.get(f"transitions@{i}", 0) == 1 for i in executed)
        if mean is not None and not trans_any and start == "given":
            for key in ("a",):
                if all(key in cons(i) for i in executed):
                    B.is_true(f"a parameter that is constant in every iteration keeps its initial value ({key})",
                              bool(np.all(np.asarray(mean[key].val.val) == np.asarray(init[key].val.val))))
        if n_last > 0:
            pe = POINT_ESTIMATES[memo.get(f"point_estimates@{il}", 0)] if "point_estimates" in symbolic else POINT_ESTIMATES[0]
            samples = [s for s in sl.iterator()]
            mm = sl.average() if mean is None else mean
            for key in ("a", "b"):
                spread = max(float(np.max(np.abs(np.asarray(s[key].val.val) - np.asarray(samples[0][key].val.val)))) for s in samples)
                if key in pe:
                    B.is_true(f"no samples are drawn for a point-estimated parameter ({key}): all samples agree on it", spread == 0.)
                else:
                    B.is_true(f"samples are drawn for a parameter that is not point-estimated ({key})", spread > 0.)
            del mm
        # random streams
        st = calls["stream"]
        for i in executed[1:]:
            if i in st and i - 1 in st:
                is_fresh = not ("fresh" in symbolic and memo.get(f"fresh@{i}", 0) == 1)
                B.is_true("an iteration without fresh stochasticity reuses the previous random stream, a fresh one does not"
                          + (" (fresh)" if is_fresh else " (reused)"), (st[i] != st[i - 1]) == is_fresh)
    if outdir:
        if not executed:
            B.is_true("dry run: no iteration is marked as finished", last is None)
        else:
            il = executed[-1]
            B.is_true("last_finished_iteration names the last executed iteration", last == str(il))
            names = [f"iteration_{i}" for i in executed] if strategy == "all" else ["latest"]
            B.is_true(f"the sample files of the save strategy exist ({strategy})",
                      all(any(f.startswith(os.path.join("pickle", n + ".")) for f in files) for n in names))
            B.is_true("the random state and the energy history needed to resume are saved",
                      os.path.join("pickle", "nifty_random_state") in files
                      and all(os.path.join("pickle", "energy_history_" + n) in files for n in names))
            if strategy == "latest":
                B.is_true("save strategy 'latest' keeps only the latest samples",
                          not any(f.startswith(os.path.join("pickle", "iteration_")) for f in files))
            for flag, sub in ((plot_e, "energy_history"), (plot_m, "minisanity_history")):
                on = bool(flag.peek()) if isinstance(flag, _Lazy) else flag
                has = any(f.startswith(sub + os.sep) and f.endswith(".png") for f in files)
                B.is_true(f"the {sub.replace('_', ' ')} is plotted exactly when its switch is on ({'on' if on else 'off'})", has == on)
            if export:
                B.is_true("the exported operator output is written for every saved iteration",
                          all(os.path.join("sky", n + ".hdf5") in files for n in names))


FLOW = ("sanity_checks", "dry_run", "return_final_position", "terminate", "inspect", "fresh", "n_samples")
MODEL = ("n_samples", "constants", "point_estimates", "transitions", "fresh")
ALL = tuple(sorted(set(FLOW) | set(MODEL)))


def scenarios(tier, seed):
    def s(outdir, strategy, plotting, export, niter, symbolic, **k):
        return ("config", {"outdir": outdir, "strategy": strategy, "plotting": plotting, "export": export, "niter": niter, "symbolic": symbolic, **k})
    quick = [s(False, "latest", False, False, 2, FLOW),
             s(True, "all", False, False, 2, FLOW),
             s(True, "latest", False, True, 2, MODEL),
             s(False, "latest", False, False, 2, MODEL),
             s(True, "latest", "sym", True, 2, ("dry_run", "terminate", "n_samples"))]
    thorough = [s(True, "latest", False, False, 2, FLOW),
                s(True, "all", False, True, 2, MODEL),
                s(True, "all", "sym", False, 2, ("dry_run", "terminate", "n_samples", "sanity_checks", "return_final_position")),
                s(False, "latest", False, False, 3, ("dry_run", "terminate", "fresh", "n_samples", "transitions")),
                s(False, "latest", False, False, 3, ("n_samples", "constants", "point_estimates")),
                s(False, "latest", False, False, 2, ALL, small=True),     # all options together, two values per option
                s(False, "latest", False, False, 2, ("n_samples", "geovi", "constants", "point_estimates", "fresh"), small=True),
                s(True, "all", False, False, 2, ("n_samples", "geovi", "dry_run", "terminate"), start="random")]
    return quick if tier == "quick" else quick + thorough


HARNESSES = {"config": h_config}
OPTS = {"quick": {"max_paths": 3000, "budget_s": 900, "jobs": 8, "branch_timeout_ms": 10000, "obl_timeout_ms": 20000},
        "thorough": {"max_paths": 40000, "budget_s": 3000, "jobs": 12, "branch_timeout_ms": 10000, "obl_timeout_ms": 20000}}

META = {
    "level": "other",
    "explanation": "The real classic optimize_kl runs a two-parameter model (2 or 3 global iterations).  The options are symbolic: sanity_checks, "
                   "dry_run and return_final_position are objects whose truth value is decided by solver-checked forking when the driver "
                   "inspects them; n_samples, constants, point_estimates, transitions, fresh_stochasticity and terminate_callback are "
                   "passed in their documented callable form and their value for iteration i is a symbolic integer concretised when the "
                   "driver asks for it -- an option not inspected on a path stays symbolic there, so the paths are the behaviours the driver's "
                   "control flow distinguishes and together cover EVERY combination of the option values in the bound (not a pairwise sample).  "
                   "Output directory, save strategy and operator export are enumerated by the scenario list; the two plotting switches are independent lazily decided booleans in the plotting scenarios.  Each path is a concrete "
                   "float64 run checked for: completion, form of the return value, callback protocol, constants unchanged, point estimates "
                   "without sample spread, reuse of the random stream without fresh stochasticity, the files of the save strategy, and the "
                   "global RNG stack holding the same seed-sequence objects as before the call.",
    "functions_encoded": ["nifty.cl.minimization.optimize_kl.{optimize_kl,_make_callable,_handle_inspect_callback,_handle_terminate_callback,"
                          "_normal_initialize,_minisanity,_export_operators,_plot_energy_history}", "nifty.cl.random.{push_sseq,pop_sseq,spawn_sseq}"],
    "bounds": {"global iterations": "2 (3 in two thorough scenarios)", "n_samples per iteration": "{2, 0, 1}", "constants per iteration": "{[], [a]}",
               "point_estimates per iteration": "{[], [b], [a]}", "transitions per iteration": "{None, sl -> sl.average()}",
               "fresh_stochasticity per iteration >= 1": "{True, False}", "terminate_callback per iteration": "{False, True}",
               "inspect_callback": "{None, 1 argument, 2 arguments}", "nonlinear_sampling_minimizer per iteration (thorough)": "{None (MGVI), NewtonCG (geoVI)}", "initial_position": "given; None (random start) in one thorough scenario", "symbolic option groups": "control-flow group and model group (quick), all options together with two values per option (thorough)"},
    "stubs": [],
    "outside": ["MPI communicators", "device_id != -1", "resume (C25)",
                "numerical quality of the inference result (C19, C20)", "exceptions raised by invalid configurations"],
    "assumptions": ["valid configuration: fresh_stochasticity(0) is True, a sampling controller is given, keys of constants / point_estimates exist"],
}
