"""C02 -- every library linear operator is adjoint/inverse consistent and correct (front end A)."""
import numpy as np

from .. import shims_cl
from .. import symcore as sc
from ..clcommon import ift, field_of, flat_of, setup_cl, unflat, vdot_flat

U = lambda *s: ift.UnstructuredDomain(s if len(s) > 1 else s[0])


def setup():
    setup_cl()
    import nifty.cl.utilities as ut
    shims_cl.proxy_np(ut)
    orig = ut.special_add_at
    from nifty.cl.any_array import AnyArray

    class _Inter(sc.SymArr):
        """real object array holding interleaved (re, im) pairs along the last axis;
        .view(<complex dtype>) pairs them up again"""

        def view(self, *a, **k):
            if a and (a[0] is object or a[0] == np.dtype(object)):
                flat = np.asarray(self)
                out = np.empty(flat.shape[:-1] + (flat.shape[-1] // 2,), dtype=object)
                for idx in np.ndindex(*out.shape):
                    out[idx] = sc.SC(sc._lift(flat[idx[:-1] + (2 * idx[-1],)]), sc._lift(flat[idx[:-1] + (2 * idx[-1] + 1,)]))
                return out.view(sc.SymArr)
            return np.ndarray.view(self, *a, **k)

    class _Pair(sc.SymArr):
        """complex object array; .view(<real dtype>) reinterprets it as interleaved reals
        (what ndarray.view(float64) does to complex128 memory)"""

        def view(self, *a, **k):
            if a and (a[0] is object or a[0] == np.dtype(object)):
                src = np.asarray(self)
                out = np.empty(src.shape[:-1] + (2 * src.shape[-1],), dtype=object)
                for idx in np.ndindex(*src.shape):
                    e = sc.SC._c(src[idx])
                    out[idx[:-1] + (2 * idx[-1],)] = e.r
                    out[idx[:-1] + (2 * idx[-1] + 1,)] = e.i
                return out.view(_Inter)
            return np.ndarray.view(self, *a, **k)

    def special_add_at(a, axis, index, b):
        # The real function reinterprets complex memory as pairs of floats
        # (.view).  Object arrays have no such memory layout: the two view()
        # calls are emulated (pair <-> interleave), everything else -- shapes,
        # loop bounds, bincount calls -- is the real code.
        if a.dtype == object and shims_cl.COMPLEX_MODE[0]:
            a2 = AnyArray(np.array(a._val, dtype=object).view(_Pair))
            b2 = AnyArray(np.array(b._val, dtype=object).view(_Pair))
            return orig(a2, axis, index, b2)
        return orig(a, axis, index, b)
    ut.special_add_at = special_add_at
    import nifty.cl.operators.distributors as di
    import nifty.cl.operators.regridding_operator as rg
    di.special_add_at = special_add_at
    rg.special_add_at = special_add_at


# --------------------------------------------------------------------------
# builders: cfg -> (op, ref) ; ref(x_structured) -> structured TIMES result
# (arrays of the domain/target shape, dicts for multi-domains); ref may be None
# (then only the algebraic obligations are checked).  'rlin' marks operators
# that are only R-linear.

RG = lambda n, d=0.5, harmonic=False: ift.RGSpace(n, distances=d, harmonic=harmonic)


def b_contraction(B, cfg, cplx):
    dom = ift.DomainTuple.make((RG(2, 0.5), RG(3, 0.25)))
    spaces, power = cfg["spaces"], cfg["power"]
    op = ift.ContractionOperator(dom, spaces, power)
    sp = (0, 1) if spaces is None else ((spaces,) if isinstance(spaces, int) else tuple(spaces))

    def ref(x):
        w = ((0.5 ** power) if 0 in sp else 1.0) * ((0.25 ** power) if 1 in sp else 1.0)
        return w * x.sum(axis=sp) if len(sp) < 2 else np.array(w * x.sum())
    return op, ref


def b_integration(B, cfg, cplx):
    dom = ift.DomainTuple.make((RG((2, 2), (0.5, 0.25)), RG(2, 2.0)))
    op = ift.IntegrationOperator(dom, cfg["spaces"])
    sp = cfg["spaces"]

    def ref(x):
        if sp == 0:
            return 0.125 * x.sum(axis=(0, 1))
        if sp == 1:
            return 2.0 * x.sum(axis=2)
        return np.array(0.25 * x.sum())
    return op, ref


def b_dofdist(B, cfg, cplx):
    tgt = ift.DomainTuple.make((U(2), RG(4, 0.5), U(2))) if cfg["prod"] else ift.DomainTuple.make(RG(4, 0.5))
    space = 1 if cfg["prod"] else 0
    dofdex = np.array(cfg["dofdex"], dtype=np.int64)
    op = ift.DOFDistributor(ift.makeField(tgt[space], dofdex), tgt, space)

    def ref(x):
        return np.take(x, dofdex, axis=space)
    return op, ref


def b_padder(B, cfg, cplx):
    shape = cfg["n"] if isinstance(cfg["n"], (list, tuple)) else (cfg["n"],)
    newshape = cfg["new"] if isinstance(cfg["new"], (list, tuple)) else (cfg["new"],)
    shape, newshape = tuple(shape), tuple(newshape)
    rg = RG(shape if len(shape) > 1 else shape[0], 0.5)
    dom = ift.DomainTuple.make((U(2), rg)) if cfg["prod"] else ift.DomainTuple.make(rg)
    space = 1 if cfg["prod"] else 0
    op = ift.FieldZeroPadder(dom, newshape, space=space, central=cfg["central"])
    first_axis = 1 if cfg["prod"] else 0

    def pad1(x, axis, n, new):
        shp = list(x.shape)
        shp[axis] = new
        out = np.zeros(shp, dtype=x.dtype)
        xs = np.moveaxis(x, axis, 0)
        os_ = np.moveaxis(out, axis, 0)
        if not cfg["central"]:
            for i in range(n):
                os_[i] = xs[i]
        else:
            # documented: lower half of the frequencies at the start, upper half at the end
            # (FieldZeroPadder docstring: "zeros are added in the middle"): entries
            # 0..n//2 stay at the start, the last n//2 entries go to the end
            ny = n // 2
            for i in range(ny + 1):
                os_[i] = xs[i]
            for i in range(1, ny + 1):
                os_[new - i] = xs[n - i]
        return out

    def ref(x):
        for k, (n, new) in enumerate(zip(shape, newshape)):
            if n != new:
                x = pad1(x, first_axis + k, n, new)
        return x
    return op, ref


def b_slice(B, cfg, cplx):
    dom = ift.DomainTuple.make((RG(4, 0.5), U(3)))
    op = ift.SliceOperator(dom, cfg["new"], center=cfg["center"])

    def ref(x):
        sl = []
        for i, (n, m) in enumerate(zip(x.shape, cfg["new"])):
            m = n if m is None else m
            st = int(np.floor((n - m) / 2.)) if cfg["center"] else 0
            sl.append(slice(st, st + m))
        return x[tuple(sl)]
    return op, ref


def b_split(B, cfg, cplx):
    dom = ift.DomainTuple.make((U(4), U(2)))
    slices = {"a": (slice(0, 2),), "b": (slice(1, 4, 2), slice(None)), "c": ([0, 3, 3] if cfg["dup"] else [0, 3],)}
    op = ift.SplitOperator(dom, slices, intersecting_slices=True)

    def ref(x):
        return {"a": x[0:2], "b": x[1:4:2, :], "c": x[[0, 3, 3] if cfg["dup"] else [0, 3]]}
    return op, ref


def b_mask(B, cfg, cplx):
    dom = ift.DomainTuple.make((U(2), U(3)))
    flags = np.array(cfg["flags"], dtype=bool).reshape(2, 3)
    op = ift.MaskOperator(ift.makeField(dom, flags))

    def ref(x):
        return x[~flags]
    return op, ref


def b_einsum(B, cfg, cplx):
    d1, d2 = U(2), U(3)
    dom = ift.DomainTuple.make((d1, d2))
    a = B.values("ea", (2, 3), cplx)
    b = B.values("eb", (3,), cplx)
    mf = ift.MultiField.from_dict({"a": field_of((d1, d2), a), "b": field_of(d2, b)})
    op = ift.LinearEinsum(dom, mf, cfg["ss"], key_order=("a", "b"))
    return op, (lambda x: np.einsum(cfg["np"], a, b, x))


def b_outer(B, cfg, cplx):
    dom = ift.DomainTuple.make(U(2))
    f = B.values("of", (3,), cplx)
    op = ift.OuterProduct(dom, field_of(U(3), f))
    return op, (lambda x: np.multiply.outer(f, x))


def b_valins(B, cfg, cplx):
    tgt = ift.DomainTuple.make((U(2), U(3)))
    idx = tuple(cfg["index"])
    op = ift.ValueInserter(tgt, idx)

    def ref(x):
        out = np.zeros((2, 3), dtype=object if x.dtype == object else x.dtype)
        out[idx] = x[()] if x.shape == () else x
        return out
    return op, ref


def b_dtins(B, cfg, cplx):
    tgt = ift.DomainTuple.make((U(2), RG((2, 2), 0.5), U(2)))
    op = ift.DomainTupleFieldInserter(tgt, 1, tuple(cfg["index"]))

    def ref(x):
        out = np.zeros((2, 2, 2, 2), dtype=x.dtype)
        out[:, cfg["index"][0], cfg["index"][1], :] = x
        return out
    return op, ref


def b_transpose(B, cfg, cplx):
    dom = ift.DomainTuple.make((U(2), RG((1, 2), 0.5), U(3)))
    op = ift.TransposeOperator(dom, cfg["perm"])
    npperm = {(1, 0, 2): (1, 2, 0, 3), (2, 1, 0): (3, 1, 2, 0), (1, 2, 0): (1, 2, 3, 0)}[tuple(cfg["perm"])]
    return op, (lambda x: np.transpose(x, npperm))


def b_squeeze(B, cfg, cplx):
    dom = ift.DomainTuple.make((U(1), RG((1, 2), 0.5), U(3)))
    op = ift.SqueezeOperator(dom, aggressive=cfg["aggr"])
    return op, (lambda x: x.reshape((2, 3)) if cfg["aggr"] else x.reshape((1, 2, 3)))


def b_georem(B, cfg, cplx):
    dom = ift.DomainTuple.make((RG(2, 0.5), RG(3, 0.25)))
    op = ift.GeometryRemover(dom, cfg["space"])
    return op, (lambda x: x)


def b_reshaper(B, cfg, cplx):
    op = ift.DomainChangerAndReshaper(ift.DomainTuple.make((U(2), U(3))), ift.DomainTuple.make(RG((3, 2), 0.5)))
    return op, (lambda x: x.reshape(3, 2))


def b_fieldadapter(B, cfg, cplx):
    d = U(2)
    kind = cfg["kind"]
    if kind == "fa":
        return ift.FieldAdapter(d, "k"), (lambda x: x["k"])
    if kind == "fa_adj":
        return ift.FieldAdapter(ift.MultiDomain.make({"k": d}), "k"), (lambda x: {"k": x})
    md = ift.MultiDomain.make({"a": d, "b": U(3)})
    if kind == "slow":
        from nifty.cl.operators.simple_linear_operators import _SlowFieldAdapter
        return _SlowFieldAdapter(md, "b"), (lambda x: x["b"])
    if kind == "ducktape_l":
        return ift.ducktape(d, None, "q"), (lambda x: x["q"])
    if kind == "ducktape_r":
        return ift.ducktape(md, d, "a"), (lambda x: {"a": x, "b": np.zeros(3)})
    if kind == "prepend":
        return ift.PrependKey(md, "p_"), (lambda x: {"p_a": x["a"], "p_b": x["b"]})
    if kind == "partial":
        from nifty.cl.operators.simple_linear_operators import PartialExtractor
        return PartialExtractor(md, ift.MultiDomain.make({"b": U(3)})), (lambda x: {"b": x["b"]})
    raise ValueError(kind)


def b_vdot(B, cfg, cplx):
    dom = ift.DomainTuple.make((U(2), U(2)))
    f = B.values("vf", (2, 2), cplx)
    op = ift.VdotOperator(field_of(dom, f))
    return op, (lambda x: np.array(np.sum(np.conjugate(f) * x)))


def b_conj(B, cfg, cplx):
    return ift.ConjugationOperator(U(3)), (lambda x: np.conjugate(x))


def b_realizer(B, cfg, cplx):
    return ift.Realizer(U(3)), (lambda x: x.real)


def b_weight(B, cfg, cplx):
    from nifty.cl.operators.simple_linear_operators import WeightApplier
    dom = ift.DomainTuple.make((RG(2, 0.5), RG(3, 0.25)))
    op = WeightApplier(dom, cfg["spaces"], cfg["power"])
    w = {None: 0.125, 0: 0.5, 1: 0.25}[cfg["spaces"]] ** cfg["power"]
    return op, (lambda x: w * x)


def b_partialconj(B, cfg, cplx):
    from nifty.cl.operators.partial_conjugate import PartialConjugate
    md = ift.MultiDomain.make({"a": U(2), "b": U(3)})
    op = PartialConjugate(md, ["b"])
    return op, (lambda x: {"a": x["a"], "b": np.conjugate(x["b"])})


def b_mf2vec(B, cfg, cplx):
    md = ift.MultiDomain.make({"a": U(2), "b": ift.DomainTuple.make((U(2), U(2)))})
    op = ift.Multifield2Vector(md)
    return op, (lambda x: np.concatenate([x["a"].reshape(-1), x["b"].reshape(-1)]))


def b_extract(B, cfg, cplx):
    dom = ift.DomainTuple.make((U(2), RG((2, 3), 0.5)))
    idx = (tuple(cfg["i0"]), tuple(cfg["i1"]))
    op = ift.ExtractAtIndices(dom, idx, space=1)
    return op, (lambda x: x[:, list(idx[0]), list(idx[1])])


def b_regrid(B, cfg, cplx):
    dom = ift.DomainTuple.make(RG(4, 0.5))
    op = ift.RegriddingOperator(dom, (cfg["new"],))
    return op, None


def b_matrix(B, cfg, cplx):
    dom = ift.DomainTuple.make((U(2), U(3)))
    m = B.values("mm", (3, 3), cplx)
    op = ift.MatrixProductOperator(dom, m, spaces=(1,))
    return op, (lambda x: x @ m.T)


BUILD = {
    "contraction": (b_contraction, [{"spaces": 0, "power": 0}, {"spaces": 1, "power": 1}, {"spaces": None, "power": 2},
                                    {"spaces": 0, "power": -1}]),
    "integration": (b_integration, [{"spaces": 0}, {"spaces": 1}, {"spaces": None}]),
    "dofdist": (b_dofdist, [{"prod": False, "dofdex": [0, 1, 1, 0]}, {"prod": True, "dofdex": [2, 0, 1, 2]},
                            {"prod": True, "dofdex": [0, 0, 0, 0]}]),
    "padder": (b_padder, [{"prod": False, "n": 2, "new": 4, "central": False}, {"prod": True, "n": 3, "new": 5, "central": False},
                          {"prod": False, "n": 4, "new": 7, "central": True}, {"prod": True, "n": 3, "new": 6, "central": True},
                          {"prod": False, "n": 3, "new": 3, "central": True},
                          # axes of length 1 and 2 (Nyquist index 0 / 1), odd and even targets, 2-D spaces
                          {"prod": False, "n": 1, "new": 4, "central": True}, {"prod": True, "n": 1, "new": 3, "central": True},
                          {"prod": False, "n": 1, "new": 2, "central": False}, {"prod": False, "n": 2, "new": 3, "central": True},
                          {"prod": False, "n": 2, "new": 5, "central": True}, {"prod": False, "n": 5, "new": 6, "central": True},
                          {"prod": False, "n": [1, 3], "new": [3, 4], "central": True},
                          {"prod": False, "n": [2, 1], "new": [2, 4], "central": True},
                          {"prod": True, "n": [2, 2], "new": [3, 2], "central": False}]),
    "slice": (b_slice, [{"new": (2, None), "center": False}, {"new": (2, 1), "center": True}, {"new": (3, 3), "center": True}]),
    # (a repeated index inside ONE key is excluded by the SplitOperator docstring)
    "split": (b_split, [{"dup": False}]),
    "mask": (b_mask, [{"flags": [0, 1, 0, 0, 1, 1]}, {"flags": [0, 0, 0, 0, 0, 0]}, {"flags": [1, 1, 1, 1, 1, 0]}]),
    "einsum": (b_einsum, [{"ss": "ij,j,ij->i", "np": "ij,j,ij->i"}, {"ss": "ij,j,ij->ji", "np": "ij,j,ij->ji"},
                          {"ss": "ij,k,ik->j", "np": "ij,k,ik->j"}]),
    "outer": (b_outer, [{}]),
    "valins": (b_valins, [{"index": [0, 2]}, {"index": [1, 0]}]),
    "dtins": (b_dtins, [{"index": [0, 1]}, {"index": [1, 1]}]),
    "transpose": (b_transpose, [{"perm": [1, 0, 2]}, {"perm": [2, 1, 0]}, {"perm": [1, 2, 0]}]),
    "squeeze": (b_squeeze, [{"aggr": False}, {"aggr": True}]),
    "georem": (b_georem, [{"space": None}, {"space": 1}]),
    "reshaper": (b_reshaper, [{}]),
    "fieldadapter": (b_fieldadapter, [{"kind": k} for k in ("fa", "fa_adj", "slow", "ducktape_l", "ducktape_r", "prepend", "partial")]),
    "vdot": (b_vdot, [{}]),
    "conj": (b_conj, [{}]),
    "realizer": (b_realizer, [{}]),
    "weight": (b_weight, [{"spaces": None, "power": 1}, {"spaces": 0, "power": -2}, {"spaces": 1, "power": 2}]),
    "partialconj": (b_partialconj, [{}]),
    "mf2vec": (b_mf2vec, [{}]),
    "extract": (b_extract, [{"i0": [0, 1, 1], "i1": [2, 0, 0]}, {"i0": [1], "i1": [1]}]),
    "regrid": (b_regrid, [{"new": 2}, {"new": 3}]),
    "matrix": (b_matrix, [{}]),
}
RLINEAR = {"conj", "realizer", "partialconj"}


def _struct(dom, flat):
    """flat array -> array of domain shape / dict of arrays"""
    if isinstance(dom, ift.MultiDomain):
        out, pos = {}, 0
        for k in dom.keys():
            out[k] = flat[pos:pos + dom[k].size].reshape(dom[k].shape)
            pos += dom[k].size
        return out
    return flat.reshape(dom.shape)


def _flat_struct(dom, s):
    if isinstance(dom, ift.MultiDomain):
        return np.concatenate([np.asarray(s[k]).reshape(-1) for k in dom.keys()])
    return np.asarray(s).reshape(-1)


def h_linop(B, name, cfg, cplx):
    with shims_cl.complex_mode(cplx):
        builder, _ = BUILD[name]
        with B.setup():
            op, ref = builder(B, cfg, cplx)
        dom, tgt = op.domain, op.target
        x = B.values("x", (dom.size,), cplx)
        x2 = B.values("z", (dom.size,), cplx)
        y = B.values("y", (tgt.size,), cplx)
        al = B.values("al", (), cplx and name not in RLINEAR)
        xf, x2f, yf = unflat(dom, x), unflat(dom, x2), unflat(tgt, y)
        x_before = B.snapshot(xf)
        cap = op.capability
        B.is_true("TIMES and ADJOINT_TIMES advertised", (cap & 3) == 3)
        Ax = op.times(xf)
        B.unchanged("input not modified by times", x_before, xf)
        B.is_true("times result lives on target", Ax.domain is tgt)
        Aty = op.adjoint_times(yf)
        B.is_true("adjoint_times result lives on domain", Aty.domain is dom)
        fa, fty = flat_of(Ax), flat_of(Aty)
        lhs, rhs = vdot_flat(y, fa), vdot_flat(fty, x)
        if name in RLINEAR and cplx:
            B.eq("Re<y,Ax> == Re<A^H y,x>", lhs.real, rhs.real)
        else:
            B.eq("<y,Ax> == <A^H y,x>", lhs, rhs)
        # linearity (homogeneity with a symbolic scalar + additivity)
        comb = op.times(unflat(dom, al * x + x2))
        B.eq("A(a x + z) == a A x + A z", flat_of(comb), al * fa + flat_of(op.times(x2f)))
        combt = op.adjoint_times(unflat(tgt, al * y))
        B.eq("A^H(a y) == conj-linear/linear", flat_of(combt),
             (al * fty) if not (cplx and name in RLINEAR) else al * fty)
        if ref is not None:
            expect = ref(_struct(dom, x))
            B.eq("times == documented formula", fa, _flat_struct(tgt, expect))
        if cap & 4:
            back = op.inverse_times(Ax)
            B.eq("inverse_times(times(x)) == x", flat_of(back), x)
            B.is_true("inverse result lives on domain", back.domain is dom)
        if cap & 8:
            back = op.adjoint_inverse_times(Aty)
            B.eq("adjoint_inverse_times(adjoint_times(y)) == y", flat_of(back), y)


def scenarios(tier, seed):
    out = []
    for name, (_, cfgs) in BUILD.items():
        for cfg in cfgs:
            for cplx in (False, True):
                if name == "realizer" and not cplx:
                    pass
                out.append(("linop", {"name": name, "cfg": cfg, "cplx": cplx}))
    return out


HARNESSES = {"linop": h_linop}

META = {
    "level": "other",
    "explanation": "Each exported pure-NumPy linear operator class is constructed through its public constructor for a "
                   "set of configurations and applied, unmodified, to object arrays of z3 real/complex scalars.  z3 "
                   "refutes, for ALL inputs x, z, cotangents y and scalars a: <y,Ax> != <A^H y,x>; A(ax+z) != aAx+Az; "
                   "times != the class's documented formula (one line of NumPy index algebra in the harness); "
                   "inverse(times(x)) != x where advertised.  Result domains and input immutability are checked on every path.",
    "functions_encoded": ["nifty.cl.operators.%s" % s for s in (
        "contraction_operator.ContractionOperator.apply", "contraction_operator.IntegrationOperator",
        "distributors.DOFDistributor.{__init__,_times,_adjoint_times}", "utilities._special_add_at",
        "field_zero_padder.FieldZeroPadder.apply", "selection_operators.SliceOperator.apply",
        "selection_operators.SplitOperator.apply", "mask_operator.MaskOperator.apply", "einsum.LinearEinsum.{__init__,apply}",
        "outer_product_operator.OuterProduct.apply", "value_inserter.ValueInserter.apply",
        "domain_tuple_field_inserter.DomainTupleFieldInserter.apply", "transpose_operator.TransposeOperator.apply",
        "simple_linear_operators.{SqueezeOperator,GeometryRemover,DomainChangerAndReshaper,FieldAdapter,_SlowFieldAdapter,"
        "ducktape,PrependKey,PartialExtractor,VdotOperator,ConjugationOperator,Realizer,WeightApplier,ExtractAtIndices}.apply",
        "partial_conjugate.PartialConjugate.apply", "multifield2vector.Multifield2Vector.apply",
        "regridding_operator.RegriddingOperator.apply (adjoint/linearity only; formula in C35)",
        "matrix_product_operator.MatrixProductOperator.apply (sub-space application)")],
    "bounds": {"domains": "<= 16 pixels, 1-3 sub-domains", "configurations": "1-7 constructor configurations per class"},
    "stubs": shims_cl.STUBS + ["utilities.special_add_at in complex mode: the real function is applied to real and imaginary parts "
                               "separately (the real code reinterprets complex memory as float pairs, impossible for object arrays)"],
    "outside": ["SHTOperator, nft.Nufft/Gridder, LOSResponse, JaxLinearOperator (C++/SciPy/JAX kernels): not encoded",
                "harmonic operators (C09), interpolation (C35), InversionEnabler (C14), sampling (C13)",
                "float32 / integer dtypes", "constructor configurations outside the enumerated set"],
    "assumptions": [],
}
