"""C09 -- harmonic transforms follow the volume convention and all back ends agree.

The FFT kernels themselves (ducc0, SciPy, XLA) are compiled code: they are replaced by their documented contract, an
explicit discrete Fourier sum with exact twiddle factors (vf.dft); the stubs are validated against the real kernels on
random float input in every run.  Everything around the kernels is the real code, executed on symbolic fields:
nifty.cl.ducc_dispatch.{fftn, ifftn, hartley, _scipy_fftn, _scipy_ifftn, _scipy_hartley} with both Hartley conventions,
FFTOperator / HartleyOperator / HarmonicSmoothingOperator, and nifty.re.correlated_field.hartley (jaxpr).

Proved for ALL field values: the zero mode of a position-space field's transform is its integral; times, inverse_times,
adjoint_times, adjoint_inverse_times are mutually consistent (inverse, adjoint w.r.t. the volume-weighted products);
native == SciPy path == JAX implementation under both conventions and == Re(FFT) -+ Im(FFT); smoothing with sigma = 0 is the
identity, with sigma > 0 it is self-adjoint, preserves the integral and equals the Gaussian kernel in harmonic space."""
import numpy as np

from .. import symcore as sc
from ..clcommon import ift, setup_cl, field_of
from ..dft import dft_axes, re_im
from ..jaxpr_interp import jcall, jnp


class _Kernels:
    """contracts of ducc0.fft on object arrays; float arrays go to the real kernels"""

    def __init__(self, real):
        self.real = real

    def c2c(self, a, axes=None, forward=True, inorm=0, nthreads=1, **k):
        a = np.asarray(a)
        if a.dtype != object:
            return self.real.c2c(a, axes=axes, forward=forward, inorm=inorm, nthreads=nthreads, **k)
        axes = tuple(range(a.ndim)) if axes is None else tuple(axes)
        out = dft_axes(a, axes, inverse=not forward, norm=(inorm == 2))
        if inorm == 1:
            raise sc.HarnessError("inorm=1 not modelled")
        return out.view(sc.SymArr)

    def _hart(self, a, axes, sign):
        a = np.asarray(a)
        axes = tuple(range(a.ndim)) if axes is None else tuple(axes)
        re, im = re_im(dft_axes(a, axes, inverse=False, norm=False))
        return (re + sign * im).view(sc.SymArr)

    def genuine_hartley(self, a, axes=None, nthreads=1, **k):
        a = np.asarray(a)
        if a.dtype != object:
            return self.real.genuine_hartley(a, axes=axes, nthreads=nthreads, **k)
        return self._hart(a, axes, +1)

    def genuine_fht(self, a, axes=None, nthreads=1, **k):
        a = np.asarray(a)
        if a.dtype != object:
            return self.real.genuine_fht(a, axes=axes, nthreads=nthreads, **k)
        return self._hart(a, axes, -1)


class _SciPyFFT:
    def __init__(self, real):
        self.real = real

    def fftn(self, a, axes=None, workers=None, **k):
        a = np.asarray(a)
        if a.dtype != object:
            return self.real.fftn(a, axes=axes, workers=workers, **k)
        return dft_axes(a, tuple(range(a.ndim)) if axes is None else tuple(axes), inverse=False).view(sc.SymArr)

    def ifftn(self, a, axes=None, workers=None, **k):
        a = np.asarray(a)
        if a.dtype != object:
            return self.real.ifftn(a, axes=axes, workers=workers, **k)
        return dft_axes(a, tuple(range(a.ndim)) if axes is None else tuple(axes), inverse=True).view(sc.SymArr)


class _SciPy:
    def __init__(self, real):
        self.fft = _SciPyFFT(real.fft)


_VALIDATED = [False]


def setup():
    setup_cl()
    import nifty.cl.ducc_dispatch as dd
    import ducc0
    import scipy
    import scipy.fft
    if not isinstance(dd.my_fft, _Kernels):
        dd.my_fft = _Kernels(ducc0.fft)
        dd.scipy = _SciPy(scipy)
    if not _VALIDATED[0]:
        # translator validation: the contracts agree with the real kernels on random input (both conventions, 1-D / 2-D)
        rng = np.random.default_rng(7)
        for shape, axes in (((4,), (0,)), ((2, 4), (0, 1)), ((2, 4), (1,)), ((4, 2), (0,))):
            a = rng.standard_normal(shape)
            ao = a.astype(object)
            k = _Kernels(ducc0.fft)

            for nm, ref in (("c2c", ducc0.fft.c2c(a.astype(complex), axes=axes)),):
                got = k.c2c(ao, axes=axes)
                re, im = re_im(got)
                assert np.allclose(_numarr(re), ref.real.reshape(-1)) and np.allclose(_numarr(im), ref.imag.reshape(-1)), nm
            assert np.allclose(_numarr(k.genuine_hartley(ao, axes=axes)), ducc0.fft.genuine_hartley(a, axes=axes).reshape(-1))
            assert np.allclose(_numarr(k.genuine_fht(ao, axes=axes)), ducc0.fft.genuine_fht(a, axes=axes).reshape(-1))
            got = _SciPyFFT(scipy.fft).ifftn(ao, axes=axes)
            re, im = re_im(got)
            ref = scipy.fft.ifftn(a, axes=axes)
            assert np.allclose(_numarr(re), ref.real.reshape(-1)) and np.allclose(_numarr(im), ref.imag.reshape(-1))
        _VALIDATED[0] = True


def _num(v):
    import z3
    v = sc._lift(v)
    e = z3.simplify(v.e)
    if not z3.is_rational_value(e):
        raise sc.HarnessError("validation expects rational values")
    return float(e.numerator_as_long()) / float(e.denominator_as_long())


def _numarr(a):
    return np.array([_num(v) for v in np.asarray(a, dtype=object).reshape(-1)])


def _flat(f):
    return list(np.asarray(f.val.val, dtype=object).reshape(-1))


def _vdot_vol(a, b, dom):
    """volume weighted scalar product sum conj(a) b dvol on a single RGSpace"""
    dv = dom.scalar_dvol
    tot = 0
    for u, v in zip(a, b):
        u = sc._lift(u) if B_is_sym(u) else u
        tot = tot + (u.conjugate() if hasattr(u, "conjugate") else np.conj(u)) * v
    return tot * dv


def B_is_sym(u):
    return isinstance(u, (sc.SR, sc.SC))


def _set_convention(c):
    from nifty.config import update
    update("hartley_convention", c)


def h_operator(B, shape, dist, which, cplx):
    shape = tuple(shape)
    dom = ift.RGSpace(shape, distances=tuple(dist))
    op = ift.FFTOperator(dom) if which == "fft" else ift.HartleyOperator(dom)
    cod = op.target[0]
    x = B.values("x", shape, cplx=cplx)
    y = B.values("y", shape, cplx=(cplx or which == "fft"))
    fx, fy = field_of(dom, x), field_of(cod, y)
    t = op(fx)
    tv = _flat(t)
    integral = sum(list(np.asarray(x, dtype=object).reshape(-1)), 0) * dom.scalar_dvol
    B.close("zero mode of the transform of a position-space field == its integral", [tv[0]], [integral], rel=1e-9)
    B.close("inverse_times(times(x)) == x", _flat(op.inverse_times(t)), list(np.asarray(x, dtype=object).reshape(-1)), rel=1e-9)
    B.close("times(inverse_times(y)) == y", _flat(op(op.inverse_times(fy))), list(np.asarray(y, dtype=object).reshape(-1)), rel=1e-9)
    # adjoint w.r.t. the plain scalar product of the stored values (NIFTy's convention for adjoint_times)
    lhs = sum((sc._lift(a).conjugate() * b for a, b in zip(list(np.asarray(y, dtype=object).reshape(-1)), tv)), 0)
    rhs = sum((sc._lift(a).conjugate() * b for a, b in zip(_flat(op.adjoint_times(fy)), list(np.asarray(x, dtype=object).reshape(-1)))), 0)
    B.close("<y, F x> == <F^dagger y, x>", [lhs], [rhs], rel=1e-9)
    B.close("adjoint_inverse_times == inverse of adjoint_times", _flat(op.adjoint_inverse_times(op.adjoint_times(fy))),
            list(np.asarray(y, dtype=object).reshape(-1)), rel=1e-9)
    # volume convention of the harmonic -> position direction: the zero pixel of inverse_times(y) is the integral of y
    back = _flat(op.inverse_times(fy))
    B.close("zero pixel of the back transform of a harmonic field == its integral", [back[0]],
            [sum(list(np.asarray(y, dtype=object).reshape(-1)), 0) * cod.scalar_dvol], rel=1e-9)


def _product_body(B, which):
    """transform acting on ONE sub-space of a product domain whose other sub-space has total volume != 1"""
    d0 = ift.RGSpace(2, distances=0.3)
    d1 = ift.RGSpace(4, distances=0.5)
    dom = ift.DomainTuple.make((d0, d1))
    op = ift.FFTOperator(dom, space=1) if which == "fft" else ift.HartleyOperator(dom, space=1)
    cod = op.target
    x = B.reals("x", dom.shape)
    y = B.values("y", cod.shape, cplx=(which == "fft"))
    fx, fy = field_of(dom, x), field_of(cod, y)
    t = op(fx)
    tv = np.asarray(t.val.val, dtype=object)
    xo = np.asarray(x, dtype=object)
    B.close("zero mode along the transformed sub-space == integral over that sub-space (for every pixel of the other one)",
            [tv[i, 0] for i in range(2)], [sum(list(xo[i, :]), 0) * d1.scalar_dvol for i in range(2)], rel=1e-9)
    B.close("inverse_times(times(x)) == x", _flat(op.inverse_times(t)), list(xo.reshape(-1)), rel=1e-9)
    yo = np.asarray(y, dtype=object)
    B.close("times(inverse_times(y)) == y", _flat(op(op.inverse_times(fy))), list(yo.reshape(-1)), rel=1e-9)
    lhs = sum((sc._lift(a).conjugate() * b for a, b in zip(list(yo.reshape(-1)), list(tv.reshape(-1)))), 0)
    rhs = sum((sc._lift(a).conjugate() * b for a, b in zip(_flat(op.adjoint_times(fy)), list(xo.reshape(-1)))), 0)
    B.close("<y, F x> == <F^dagger y, x>", [lhs], [rhs], rel=1e-9)
    back = np.asarray(op.inverse_times(fy).val.val, dtype=object)
    B.close("zero pixel of the back transform == integral of the harmonic field over the transformed sub-space",
            [back[i, 0] for i in range(2)], [sum(list(yo[i, :]), 0) * cod[1].scalar_dvol for i in range(2)], rel=1e-9)


def h_product(B, which, convention="non_canonical_hartley"):
    """the sub-space transform under both Hartley conventions (the native dispatch has one code path per convention)"""
    _set_convention(convention)
    try:
        _product_body(B, which)
    finally:
        _set_convention("non_canonical_hartley")


def h_backends(B, shape, convention):
    """native (ducc path), SciPy path and the JAX implementation agree; Hartley == Re(FFT) -+ Im(FFT)"""
    import nifty.cl.ducc_dispatch as dd
    import importlib
    cf = importlib.import_module("nifty.re.correlated_field")
    shape = tuple(shape)
    _set_convention(convention)
    try:
        x = B.reals("x", shape)
        ax = ift.AnyArray(x.view(sc.SymArr) if B.mode == "sym" else np.asarray(x, dtype=np.float64))
        axes = tuple(range(len(shape)))
        nat = list(np.asarray(dd.hartley(ax, axes=axes).val, dtype=object).reshape(-1))
        spy = list(np.asarray(dd._scipy_hartley(ax, axes=axes).val, dtype=object).reshape(-1))
        B.close(f"[{convention}] native hartley == SciPy-path hartley", nat, spy, rel=1e-9)
        f_nat, f_spy = dd.fftn(ax, axes=axes).val, dd._scipy_fftn(ax, axes=axes).val
        B.close(f"[{convention}] native fftn == SciPy-path fftn", list(np.asarray(f_nat, dtype=object).reshape(-1)),
                list(np.asarray(f_spy, dtype=object).reshape(-1)), rel=1e-9)
        i_nat, i_spy = dd.ifftn(ax, axes=axes).val, dd._scipy_ifftn(ax, axes=axes).val
        B.close(f"[{convention}] native ifftn == SciPy-path ifftn", list(np.asarray(i_nat, dtype=object).reshape(-1)),
                list(np.asarray(i_spy, dtype=object).reshape(-1)), rel=1e-9)
        if B.mode == "sym":
            re, im = re_im(np.asarray(f_nat, dtype=object))
        else:
            re, im = np.real(np.asarray(f_nat)), np.imag(np.asarray(f_nat))
        sign = +1 if convention == "non_canonical_hartley" else -1
        B.close(f"[{convention}] hartley == Re(FFT) {'+' if sign > 0 else '-'} Im(FFT)", nat, list((re + sign * im).reshape(-1)), rel=1e-9)
        jx = jcall(B, lambda p: cf.hartley(p, axes=axes), x)
        B.close(f"[{convention}] nifty.re hartley == nifty.cl hartley", list(np.asarray(jx, dtype=object).reshape(-1)), nat, rel=1e-9)
        # the Hartley transform is an involution up to the number of pixels
        twice = list(np.asarray(dd.hartley(dd.hartley(ax, axes=axes), axes=axes).val, dtype=object).reshape(-1))
        B.close(f"[{convention}] hartley(hartley(x)) == N x", twice, [v * int(np.prod(shape)) for v in np.asarray(x, dtype=object).reshape(-1)], rel=1e-9)
    finally:
        _set_convention("non_canonical_hartley")


def h_smoothing(B, shape, dist, sigma):
    shape = tuple(shape)
    dom = ift.RGSpace(shape, distances=tuple(dist))
    x, y = B.reals("x", shape), B.reals("y", shape)
    fx, fy = field_of(dom, x), field_of(dom, y)
    op0 = ift.HarmonicSmoothingOperator(dom, 0.)
    B.eq("sigma = 0: the identity", _flat(op0(fx)), list(np.asarray(x, dtype=object).reshape(-1)))
    op = ift.HarmonicSmoothingOperator(dom, sigma)
    sx = _flat(op(fx))
    B.close("smoothing preserves the integral", [sum(sx, 0)], [sum(list(np.asarray(x, dtype=object).reshape(-1)), 0)], rel=1e-9)
    B.close("smoothing is self-adjoint", [sum((a * b for a, b in zip(list(np.asarray(y, dtype=object).reshape(-1)), sx)), 0)],
            [sum((a * b for a, b in zip(_flat(op(fy)), list(np.asarray(x, dtype=object).reshape(-1)))), 0)], rel=1e-9)
    # documented: convolution with a Gaussian of width sigma, i.e. multiplication with exp(-2 pi^2 k^2 sigma^2) in harmonic space
    fft = ift.FFTOperator(dom)
    cod = fft.target[0]
    k = np.asarray(cod.get_k_length_array().val.val, dtype=np.float64)
    kern = np.exp(-2. * np.pi ** 2 * k ** 2 * sigma ** 2)
    hx = fft(fx)
    prod = field_of(cod, np.asarray(hx.val.val, dtype=object if B.mode == "sym" else complex) * kern)
    ref = _flat(fft.inverse_times(prod))
    if B.mode == "sym":
        ref = [(v.r if isinstance(v, sc.SC) else v) for v in ref]
    else:
        ref = [np.real(v) for v in ref]
    B.close("smoothing == inverse FFT of (Gaussian kernel x FFT)", sx, ref, rel=1e-7)


def scenarios(tier, seed):
    quick = [("operator", {"shape": [4], "dist": [0.5], "which": "fft", "cplx": False}),
             ("operator", {"shape": [4], "dist": [0.5], "which": "hartley", "cplx": False}),
             ("operator", {"shape": [2, 4], "dist": [0.5, 0.25], "which": "hartley", "cplx": False}),
             ("product", {"which": "fft"}), ("product", {"which": "hartley"}),
             ("product", {"which": "hartley", "convention": "canonical_hartley"}),
             ("backends", {"shape": [4], "convention": "non_canonical_hartley"}),
             ("backends", {"shape": [2, 4], "convention": "canonical_hartley"}),
             ("smoothing", {"shape": [4], "dist": [0.5], "sigma": 0.3})]
    thorough = [("operator", {"shape": [2, 4], "dist": [0.5, 0.25], "which": "fft", "cplx": True}),
                ("operator", {"shape": [4, 2], "dist": [1.0, 2.0], "which": "hartley", "cplx": False}),
                ("backends", {"shape": [2, 4], "convention": "non_canonical_hartley"}),
                ("backends", {"shape": [4], "convention": "canonical_hartley"}),
                ("smoothing", {"shape": [2, 4], "dist": [0.5, 0.5], "sigma": 0.7})]
    return quick if tier == "quick" else quick + thorough


HARNESSES = {"product": h_product, "operator": h_operator, "backends": h_backends, "smoothing": h_smoothing}
OPTS = {"quick": {"max_paths": 20, "budget_s": 600, "jobs": 8, "branch_timeout_ms": 10000, "obl_timeout_ms": 60000},
        "thorough": {"max_paths": 20, "budget_s": 1800, "jobs": 8, "branch_timeout_ms": 10000, "obl_timeout_ms": 120000}}

META = {
    "level": "other",
    "explanation": "The compiled FFT kernels (ducc0.fft.c2c / genuine_hartley / genuine_fht, scipy.fft.fftn / ifftn, XLA fft) are replaced "
                   "by their contract, explicit discrete Fourier sums with exact twiddle factors, validated against the real kernels on "
                   "random input in every run.  The real dispatch code (native and SciPy paths, both Hartley conventions), FFTOperator, "
                   "HartleyOperator, HarmonicSmoothingOperator and nifty.re's hartley run on symbolic fields: zero mode == integral, the "
                   "four modes are mutually consistent, all back ends agree and equal Re(FFT) -+ Im(FFT), smoothing is the identity for "
                   "sigma = 0 and the Gaussian kernel in harmonic space otherwise (self-adjoint, integral preserving).",
    "functions_encoded": ["nifty.cl.ducc_dispatch.{fftn,ifftn,hartley,_scipy_fftn,_scipy_ifftn,_scipy_hartley}",
                          "nifty.cl.operators.harmonic_operators.{FFTOperator.apply,HartleyOperator.apply,_apply_cartesian,HarmonicSmoothingOperator}",
                          "nifty.re.correlated_field.hartley", "nifty.cl.domains.rg_space.RGSpace.{get_default_codomain,get_k_length_array,_kernel}"],
    "bounds": {"grids": "1-D with 4 pixels, 2-D with 2x4 / 4x2 pixels", "distances": "concrete"},
    "stubs": ["ducc0.fft.{c2c,genuine_hartley,genuine_fht}, scipy.fft.{fftn,ifftn} and the XLA fft primitive = explicit DFT sums (validated against the real kernels on float input)"],
    "outside": ["the FFT kernels themselves (compiled)", "HartleyOperator on complex fields (the real/imaginary split is chosen by dtype, symbolic fields have dtype object)", "axis lengths other than 2 and 4 (twiddle factors with square roots)", "SHTOperator and spherical harmonics (ducc0.sht)", "GPU paths", "larger grids"],
    "assumptions": [],
}
