"""C06 -- Field arithmetic and contractions follow array semantics with volumes (front end A)."""
import itertools

import numpy as np

from .. import shims_cl
from ..clcommon import ift, field_of, flat_of, setup_cl, unflat, vdot_flat

setup = setup_cl
U = ift.UnstructuredDomain


def RG(n, d, harmonic=False):
    return ift.RGSpace(n, distances=d, harmonic=harmonic)


def domtuple(kind):
    """-> (DomainTuple, list of per-space weight arrays (None = no volume))"""
    if kind == "uniform":
        return ift.DomainTuple.make((RG(2, 0.5), RG(3, 0.25))), [np.full(2, 0.5), np.full(3, 0.25)]
    if kind == "uniform2d":
        return ift.DomainTuple.make((RG((2, 2), (0.5, 2.0)), RG(2, 0.25))), [np.full((2, 2), 1.0), np.full(2, 0.25)]
    if kind == "power":
        ps = ift.PowerSpace(RG(4, 0.5, harmonic=True))
        return ift.DomainTuple.make((ps, RG(2, 0.5))), [np.array(ps.dvol, dtype=float), np.full(2, 0.5)]
    if kind == "unstructured":
        return ift.DomainTuple.make((U(2), U(3))), [None, None]
    raise ValueError(kind)


def _wfull(dom, wl, spaces):
    """broadcast product of the pixel volumes of the selected spaces, shape dom.shape"""
    w = np.ones(dom.shape)
    for i in spaces:
        shp = [1] * len(dom.shape)
        for ax in dom.axes[i]:
            shp[ax] = dom.shape[ax]
        w = w * np.asarray(wl[i]).reshape(shp)
    return w


def _axes(dom, spaces):
    return tuple(ax for i in spaces for ax in dom.axes[i])


def _sum(a, axes):
    """explicit index sum over the given axes (independent of NumPy reductions)"""
    a = np.asarray(a)
    keep = [i for i in range(a.ndim) if i not in axes]
    out = np.zeros([a.shape[i] for i in keep], dtype=object) if a.dtype == object else \
        np.zeros([a.shape[i] for i in keep], dtype=a.dtype)
    out = out.astype(object) if a.dtype == object else out
    for idx in np.ndindex(*a.shape):
        k = tuple(idx[i] for i in keep)
        out[k] = out[k] + a[idx]
    return out


def _prod(a, axes):
    a = np.asarray(a)
    keep = [i for i in range(a.ndim) if i not in axes]
    out = np.ones([a.shape[i] for i in keep], dtype=object if a.dtype == object else a.dtype)
    for idx in np.ndindex(*a.shape):
        k = tuple(idx[i] for i in keep)
        out[k] = out[k] * a[idx]
    return out


def _abs2(a):
    return a * np.conjugate(a)


def h_arith(B, kind, cplx):
    """point-wise arithmetic, unary ops, dot products, comparisons, mismatch rejection"""
    with shims_cl.complex_mode(cplx):
        dom, wl = domtuple(kind)
        x = B.values("x", dom.shape, cplx)
        y = B.values("y", dom.shape, cplx)
        s = B.values("s", (), cplx)
        fx, fy = field_of(dom, x), field_of(dom, y)
        B.eq("x+y", fx + fy, x + y)
        B.eq("x-y", fx - fy, x - y)
        B.eq("x*y", fx * fy, x * y)
        B.eq("x/y", fx / fy, x / y)
        B.eq("x+s", fx + s, x + s)
        B.eq("s-x", s - fx, s - x)
        B.eq("s*x", s * fx, s * x)
        B.eq("s/x", s / fx, s / x)
        B.eq("x/s", fx / s, x / s)
        B.eq("x**2", fx ** 2, x * x)
        B.eq("x**-1", fx ** -1, 1 / x)
        B.eq("-x", -fx, -x)
        B.eq("conjugate", fx.conjugate(), np.conjugate(x))
        B.eq("x.scale(s)", fx.scale(s), s * x)
        if cplx:
            B.eq("real", fx.real, np.array([v.real for v in x.reshape(-1)]))
            B.eq("imag", fx.imag, np.array([v.imag for v in x.reshape(-1)]))
        else:
            B.eq("real(real field)", fx.real, x)
            B.raises("imag of a real field is rejected", ValueError, lambda: fx.imag)
        B.eq("|x|^2", abs(fx) ** 2, _abs2(x))
        # dot products: conjugate-linear in the first argument
        ref = vdot_flat(x.reshape(-1), y.reshape(-1))
        B.eq("s_vdot", fx.s_vdot(fy), ref)
        B.eq("vdot", fx.vdot(fy), ref)
        B.eq("vdot conj-linear in first arg", (s * fx).s_vdot(fy), (s.conjugate() if cplx else s) * ref)
        B.eq("vdot linear in second arg", fx.s_vdot(s * fy), s * ref)
        for sp in range(len(dom)):
            B.eq(f"partial vdot space {sp}", fx.vdot(fy, spaces=sp), _sum(np.conjugate(x) * y, _axes(dom, (sp,))))
        # operands on different domains are rejected
        other, _ = domtuple("uniform2d" if kind != "uniform2d" else "uniform")
        fo = ift.full(other, 1.)
        for nm, f in (("add", lambda: fx + fo), ("mul", lambda: fx * fo), ("vdot", lambda: fx.vdot(fo)),
                      ("s_vdot", lambda: fx.s_vdot(fo)), ("sub", lambda: fo - fx), ("lt", lambda: fx < fo)):
            B.raises(f"domain mismatch rejected ({nm})", ValueError, f)
        # same shape, different geometry is still a different domain
        if kind == "uniform":
            twin = ift.DomainTuple.make((RG(2, 0.5), RG(3, 0.5)))
            ft = field_of(twin, y)
            B.raises("same shape but different distances rejected", ValueError, lambda: fx + ft)


CMP = {"lt": lambda a, b: a < b, "le": lambda a, b: a <= b, "gt": lambda a, b: a > b,
       "ge": lambda a, b: a >= b, "eq": lambda a, b: a == b, "ne": lambda a, b: a != b}


def h_compare(B, op):
    """comparison operators: NumPy's object loops return booleans, so every
    pixel comparison is a fork; 2 pixels keep the path count at <= 9"""
    dom = ift.DomainTuple.make(RG(2, 0.5))
    x, y = B.reals("x", (2,)), B.reals("y", (2,))
    fx, fy = field_of(dom, x), field_of(dom, y)
    r = CMP[op](fx, fy)
    got = [bool(v) for v in np.asarray(r.val.val).reshape(-1)]
    want = [bool(CMP[op](a, b)) for a, b in zip(x, y)]      # decided by the path condition
    B.is_true(f"field {op} field is the pixel-wise comparison", got == want)
    B.is_true("comparison result lives on the same domain", r.domain is dom)
    s = B.reals("s")
    r2 = CMP[op](fx, s)
    got2 = [bool(v) for v in np.asarray(r2.val.val).reshape(-1)]
    want2 = [bool(CMP[op](a, s)) for a in x]
    B.is_true(f"field {op} scalar is the pixel-wise comparison", got2 == want2)


def _beq(g, w):
    from ..symcore import SB
    import z3
    ge = g.e if isinstance(g, SB) else z3.BoolVal(bool(g))
    we = w.e if isinstance(w, SB) else z3.BoolVal(bool(w))
    return ge == we


def h_contract(B, kind, cplx):
    """sum/prod/integrate/mean/var/std/weight/total_volume over every subset of spaces"""
    with shims_cl.complex_mode(cplx):
        dom, wl = domtuple(kind)
        x = B.values("x", dom.shape, cplx)
        fx = field_of(dom, x)
        n = len(dom)
        subsets = [None] + [c for r in range(1, n + 1) for c in itertools.combinations(range(n), r)]
        has_vol = all(w is not None for w in wl)
        for spc in subsets:
            sp = tuple(range(n)) if spc is None else spc
            arg = spc if spc is None or len(spc) > 1 else spc[0]
            ax = _axes(dom, sp)
            tag = f"{arg}"
            B.eq(f"sum{tag}", fx.sum(arg), _sum(x, ax))
            B.eq(f"prod{tag}", fx.prod(arg), _prod(x, ax))
            if not has_vol:
                continue
            w = _wfull(dom, wl, sp)
            vol = float(np.prod([np.sum(wl[i]) for i in sp]))
            B.eq(f"integrate{tag}", fx.integrate(arg), _sum(w * x, ax))
            B.eq(f"weight(1){tag}", fx.weight(1, arg), w * x)
            B.eq(f"weight(-2){tag}", fx.weight(-2, arg), x / (w * w))
            B.is_true(f"total_volume{tag}", abs(fx.total_volume(arg) - vol) <= 1e-12 * vol)
            sw = fx.scalar_weight(arg)
            uniform = all(np.all(np.asarray(wl[i]) == np.asarray(wl[i]).reshape(-1)[0]) for i in sp)
            if uniform:
                B.is_true(f"scalar_weight{tag}", sw is not None and
                          abs(sw - float(np.prod([np.asarray(wl[i]).reshape(-1)[0] for i in sp]))) < 1e-12)
            else:
                B.is_true(f"scalar_weight{tag} is None for non-uniform volumes", sw is None)
            mean = _sum(w * x, ax) / vol
            B.eq(f"mean{tag}", fx.mean(arg), mean)
            # variance: volume-weighted mean of |x - mean|^2
            shp = [1 if i in ax else dom.shape[i] for i in range(len(dom.shape))]
            mb = np.asarray(mean, dtype=object).reshape(shp) if np.asarray(mean).dtype == object else np.asarray(mean).reshape(shp)
            var = _sum(w * _abs2(x - mb), ax) / vol
            B.eq(f"var{tag}", fx.var(arg), var)
            sd = fx.std(arg)
            B.eq(f"std{tag}^2 == var", sd * sd if not hasattr(sd, "ptw") else sd * sd, var)
        B.eq("s_sum", fx.s_sum(), _sum(x, tuple(range(len(dom.shape)))))
        B.eq("s_prod", fx.s_prod(), _prod(x, tuple(range(len(dom.shape)))))
        if has_vol:
            allsp = tuple(range(n))
            w = _wfull(dom, wl, allsp)
            vol = float(np.prod([np.sum(wl[i]) for i in allsp]))
            tot = _sum(w * x, tuple(range(len(dom.shape))))
            B.eq("s_integrate", fx.s_integrate(), tot)
            B.eq("s_mean", fx.s_mean(), tot / vol)
            m = tot / vol
            v = _sum(w * _abs2(x - m), tuple(range(len(dom.shape)))) / vol
            B.eq("s_var", fx.s_var(), v)
            sd = fx.s_std()
            B.eq("s_std^2 == s_var", sd * sd, v)


def h_multi(B, cplx):
    with shims_cl.complex_mode(cplx):
        da, _ = domtuple("uniform")
        db = ift.DomainTuple.make(U(2))
        md = ift.MultiDomain.make({"a": da, "b": db})
        xa, xb = B.values("xa", da.shape, cplx), B.values("xb", db.shape, cplx)
        ya, yb = B.values("ya", da.shape, cplx), B.values("yb", db.shape, cplx)
        s = B.values("s", (), cplx)
        fx = ift.MultiField.from_dict({"a": field_of(da, xa), "b": field_of(db, xb)}, md)
        fy = ift.MultiField.from_dict({"a": field_of(da, ya), "b": field_of(db, yb)}, md)
        cat = lambda a, b: np.concatenate([a.reshape(-1), b.reshape(-1)])
        x, y = cat(xa, xb), cat(ya, yb)
        B.eq("mf x+y", fx + fy, x + y)
        B.eq("mf x-y", fx - fy, x - y)
        B.eq("mf x*y", fx * fy, x * y)
        B.eq("mf x/y", fx / fy, x / y)
        B.eq("mf s*x", s * fx, s * x)
        B.eq("mf x+s", fx + s, x + s)
        B.eq("mf -x", -fx, -x)
        B.eq("mf conjugate", fx.conjugate(), np.conjugate(x))
        B.eq("mf x**2", fx ** 2, x * x)
        B.eq("mf s_vdot", fx.s_vdot(fy), vdot_flat(x, y))
        B.eq("mf s_sum", fx.s_sum(), _sum(x, (0,)))
        B.eq("mf norm^2", fx.norm() ** 2 if not cplx else fx.s_vdot(fx), vdot_flat(x, x))
        # partial domains: unite / flexible_addsub / extract
        sub = ift.MultiDomain.make({"a": da})
        fsub = ift.MultiField.from_dict({"a": field_of(da, ya)}, sub)
        B.eq("mf flexible_addsub(+) on a sub-domain", fx.flexible_addsub(fsub, False), cat(xa + ya, xb))
        B.eq("mf flexible_addsub(-) on a sub-domain", fx.flexible_addsub(fsub, True), cat(xa - ya, xb))
        B.eq("mf unite", fsub.unite(fx), cat(xa + ya, xb))
        B.eq("mf extract", fx.extract(sub), xa.reshape(-1))
        other = ift.MultiDomain.make({"a": da, "c": db})
        fo = ift.full(other, 1.)
        B.raises("mf domain mismatch rejected (add)", ValueError, lambda: fx + fo)
        B.raises("mf domain mismatch rejected (vdot)", ValueError, lambda: fx.s_vdot(fo))


def scenarios(tier, seed):
    out = []
    for kind in ("uniform", "uniform2d", "power", "unstructured"):
        for cplx in (False, True):
            out.append(("arith", {"kind": kind, "cplx": cplx}))
            out.append(("contract", {"kind": kind, "cplx": cplx}))
    for cplx in (False, True):
        out.append(("multi", {"cplx": cplx}))
    for op in CMP:
        out.append(("compare", {"op": op}))
    return out


HARNESSES = {"arith": h_arith, "contract": h_contract, "multi": h_multi, "compare": h_compare}

META = {
    "level": "other",
    "explanation": "Field / MultiField arithmetic and contractions executed on object arrays of z3 real/complex scalars; "
                   "every result is compared by the solver with explicit index sums carrying the domain's volume factors "
                   "(uniform RG volumes, non-uniform PowerSpace bin volumes, unstructured domains for the unweighted ops), "
                   "for every subset of sub-domains; conjugate-linearity of vdot in its first argument and rejection of "
                   "mismatching domains are separate obligations.",
    "functions_encoded": ["nifty.cl.field.Field.{_binary_op,__neg__,__abs__,conjugate,real,imag,scale,vdot,s_vdot,"
                          "_contraction_helper,sum,s_sum,prod,s_prod,integrate,s_integrate,mean,s_mean,var,s_var,std,s_std,"
                          "weight,total_volume,scalar_weight}",
                          "nifty.cl.any_array.AnyArray.{vdot,__array_ufunc__,__array_function__,sum,prod,mean,var,std}",
                          "nifty.cl.multi_field.MultiField.{_binary_op,__neg__,conjugate,s_vdot,s_sum,norm,unite,flexible_addsub,extract}",
                          "nifty.cl.domain_tuple.DomainTuple.{scalar_weight,total_volume}"],
    "bounds": {"domain tuples": "2 sub-domains, <= 8 pixels", "spaces": "every subset"},
    "stubs": shims_cl.STUBS[:4],
    "outside": ["norm(ord) for ord != 2", "HEALPix/Gauss-Legendre/LM spaces (ducc geometry)", "integer dtypes, float32",
                "volume-weighted operations on UnstructuredDomain (it has no volume; the library raises AttributeError)"],
    "assumptions": ["divisors non-zero", "variance arguments: none"],
}
