"""C29 -- Gauss-Markov processes have the exact continuous-time covariance (front end B: jaxpr IR).

The process functions are affine in the excitations xi: x = xbar + T xi.  T is read
off from the interpreted IR with unit excitations (linearity itself is an
obligation with symbolic xi) and z3 decides T T^T == K for ALL step sizes dt_k
(each its own symbol: non-uniform grids), amplitudes, damping rates, asperity and
initial states, where K is the covariance of the continuous-time process at the
grid points (propagated with the exact transition and process-noise matrices)."""
import numpy as np

from .. import symcore as sc
from ..jaxpr_interp import jcall, jax, jnp, validate
from .c12 import setup, _flat  # noqa: F401


def gm():
    import nifty.re.gauss_markov as g
    return g


def _exp(v):
    return v.exp() if isinstance(v, (sc.SR, sc.SC)) else np.exp(v)


def affine_map(B, f, nxi_shape, label):
    """-> (xbar flat list, columns T_j flat lists); also checks affinity in symbolic xi"""
    n = int(np.prod(nxi_shape))
    zero = np.zeros(nxi_shape)
    xbar = _flat(f(zero))
    cols = []
    for j in range(n):
        e = np.zeros(n)
        e[j] = 1.0
        xj = _flat(f(e.reshape(nxi_shape)))
        cols.append([a - b for a, b in zip(xj, xbar)])
    xi = B.reals("xi", nxi_shape)
    full = _flat(f(xi))
    lin = []
    xf = list(np.asarray(xi, dtype=object).reshape(-1))
    for i in range(len(xbar)):
        acc = xbar[i]
        for j in range(n):
            acc = acc + cols[j][i] * xf[j]
        lin.append(acc)
    B.eq(f"{label}: output is affine in the excitations", full, lin)
    return xbar, cols


def cov_of(cols, m):
    K = np.zeros((m, m), dtype=object)
    for a in range(m):
        for b in range(m):
            acc = 0
            for c in cols:
                acc = acc + c[a] * c[b]
            K[a, b] = acc
    return K


def params(B, n, vary_sigma, with_gamma=False, vary_gamma=False):
    dt = B.reals("dt", (n,))
    B.assume_all([t > 0 for t in dt])
    if vary_sigma:
        sigma = B.reals("sg", (n,))
        B.assume_all([t > 0 for t in sigma])
        sig_list = list(sigma)
    else:
        sigma = B.reals("sg")
        B.assume(sigma > 0)
        sig_list = [sigma] * n
    out = dict(dt=dt, sigma=sigma, sig_list=sig_list)
    if with_gamma:
        if vary_gamma:
            g = B.reals("gm", (n,))
            B.assume_all([t > 0 for t in g])
            out["gamma"], out["gam_list"] = g, list(g)
        else:
            g = B.reals("gm")
            B.assume(g > 0)
            out["gamma"], out["gam_list"] = g, [g] * n
    return out


def h_wiener(B, n, vary_sigma):
    P = params(B, n, vary_sigma)
    x0 = B.reals("x0")
    f = lambda xi: jcall(B, lambda xi, x0, s, dt: gm().wiener_process(xi, x0, s, dt), xi, x0, P["sigma"], P["dt"])
    xbar, cols = affine_map(B, f, (n,), "wiener")
    B.eq("wiener: mean is the initial state", xbar, [x0] * (n + 1))
    K = cov_of(cols, n + 1)
    want = np.zeros((n + 1, n + 1), dtype=object)
    var = [0]
    for k in range(n):
        var.append(var[-1] + P["sig_list"][k] * P["sig_list"][k] * P["dt"][k])
    for i in range(n + 1):
        for j in range(n + 1):
            want[i, j] = var[min(i, j)]          # sigma^2 * min(t_i, t_j)  (integrated sigma(t)^2 for time-varying sigma)
    B.eq("wiener: T T^T == sigma^2 min(t_i, t_j)", K, want)
    # the generic generator with unit drift reproduces it
    g = lambda xi: jcall(B, lambda xi, x0, s, dt: gm().scalar_gauss_markov_process(xi, x0, 1., jnp.sqrt(dt) * s * jnp.ones(n)), xi, x0, P["sigma"], P["dt"])
    xi = B.reals("xi", (n,))
    B.eq("wiener: generic Gauss-Markov generator with drift 1 agrees", _flat(g(xi)), _flat(f(xi)))


def h_ou(B, n, vary_sigma, vary_gamma):
    P = params(B, n, vary_sigma, True, vary_gamma)
    x0 = B.reals("x0")
    f = lambda xi: jcall(B, lambda xi, x0, s, g, dt: gm().ornstein_uhlenbeck_process(xi, x0, s, g, dt), xi, x0, P["sigma"], P["gamma"], P["dt"])
    xbar, cols = affine_map(B, f, (n,), "OU")
    e = [_exp(-(P["gam_list"][k] * P["dt"][k])) for k in range(n)]      # the same atoms exp(-gamma dt_k) as the code
    mean = [x0]
    for k in range(n):
        mean.append(mean[-1] * e[k])
    B.eq("OU: mean decays as x0 exp(-gamma t)", xbar, mean)
    var = [0]
    for k in range(n):
        s2 = P["sig_list"][k] * P["sig_list"][k]
        var.append(e[k] * e[k] * var[-1] + s2 * (1 - e[k] * e[k]))      # exact transition of the variance over one interval
    want = np.zeros((n + 1, n + 1), dtype=object)
    for i in range(n + 1):
        for j in range(n + 1):
            a, b = min(i, j), max(i, j)
            prop = 1
            for k in range(a, b):
                prop = prop * e[k]
            want[i, j] = prop * var[a]             # sigma^2 e^{-gamma|t_i-t_j|} (1 - e^{-2 gamma min t}) for constant parameters
    B.eq("OU: T T^T == continuous-time covariance at the grid points", cov_of(cols, n + 1), want)
    if not vary_sigma and not vary_gamma:
        # closed form for constant parameters, written with the atoms e_k
        s2 = P["sigma"] * P["sigma"]
        cf = np.zeros((n + 1, n + 1), dtype=object)
        for i in range(n + 1):
            for j in range(n + 1):
                a, b = min(i, j), max(i, j)
                decay, upto = 1, 1
                for k in range(a, b):
                    decay = decay * e[k]
                for k in range(a):
                    upto = upto * e[k] * e[k]
                cf[i, j] = s2 * decay * (1 - upto)
        B.eq("OU: covariance == sigma^2 exp(-gamma|t_i-t_j|) (1 - exp(-2 gamma min(t_i,t_j)))", cov_of(cols, n + 1), cf)


def h_ou_model(B, n, vary_sigma):
    """the model class OrnsteinUhlenbeckProcess without x0: the initial state is drawn from the steady state of the FIRST
    interval (variance sigma_0^2), so the covariance is the stationary continuation of h_ou's recursion"""
    P = params(B, n, vary_sigma, True, False)

    def f(z):          # z = (xi_0 for the initial state, xi_1..n for the steps)
        def run(z, s, g, dt):
            m = gm().OrnsteinUhlenbeckProcess(s, g, dt, name="oup", x0=None)
            return m({"oup": z[1:], "oup_x0": z[0]})
        return jcall(B, run, z, P["sigma"], P["gamma"], P["dt"])
    xbar, cols = affine_map(B, f, (n + 1,), "OU model")
    B.eq("OU model without x0: zero mean", xbar, [0] * (n + 1))
    e = [_exp(-(P["gam_list"][k] * P["dt"][k])) for k in range(n)]
    var = [P["sig_list"][0] * P["sig_list"][0]]
    for k in range(n):
        s2 = P["sig_list"][k] * P["sig_list"][k]
        var.append(e[k] * e[k] * var[-1] + s2 * (1 - e[k] * e[k]))
    want = np.zeros((n + 1, n + 1), dtype=object)
    for i in range(n + 1):
        for j in range(n + 1):
            a, b = min(i, j), max(i, j)
            prop = 1
            for k in range(a, b):
                prop = prop * e[k]
            want[i, j] = prop * var[a]
    B.eq("OU model without x0: covariance of the process started in the steady state of the first interval", cov_of(cols, n + 1), want)


def h_iwp(B, n, asperity, vary_sigma):
    P = params(B, n, vary_sigma)
    x0 = B.reals("x0", (2,))
    asp = None
    if asperity:
        asp = B.reals("asp")
        B.assume(asp > 0)
    if asperity:
        f = lambda xi: jcall(B, lambda xi, x0, s, dt, a: gm().integrated_wiener_process(xi, x0, s, dt, a), xi, x0, P["sigma"], P["dt"], asp)
    else:
        f = lambda xi: jcall(B, lambda xi, x0, s, dt: gm().integrated_wiener_process(xi, x0, s, dt), xi, x0, P["sigma"], P["dt"])
    xbar, cols = affine_map(B, f, (n, 2), "IWP")
    # state s_k = (x_k, v_k); transition F_k = [[1, dt],[0,1]], process noise Q_k = sigma^2 [[dt^3/3 + asp dt, dt^2/2],[dt^2/2, dt]]
    mean = [list(x0)]
    Pk = [np.zeros((2, 2), dtype=object)]
    Fs = []
    for k in range(n):
        dt, s2 = P["dt"][k], P["sig_list"][k] * P["sig_list"][k]
        F = np.array([[1, dt], [0, 1]], dtype=object)
        a = asp if asperity else 0
        Q = np.array([[s2 * (dt * dt * dt / 3 + a * dt), s2 * dt * dt / 2], [s2 * dt * dt / 2, s2 * dt]], dtype=object)
        Fs.append(F)
        mean.append(list(F @ np.array(mean[-1], dtype=object)))
        Pk.append(F @ Pk[-1] @ F.T + Q)
    B.eq("IWP: mean is the ballistic extrapolation of the initial state", xbar, [v for m in mean for v in m])
    m = 2 * (n + 1)
    want = np.zeros((m, m), dtype=object)
    for i in range(n + 1):
        for j in range(n + 1):
            a, b = min(i, j), max(i, j)
            prop = np.eye(2, dtype=object)
            for k in range(a, b):
                prop = Fs[k] @ prop
            blk = prop @ Pk[a]                 # Cov(s_b, s_a)
            if i >= j:
                want[2 * i:2 * i + 2, 2 * j:2 * j + 2] = blk
            else:
                want[2 * i:2 * i + 2, 2 * j:2 * j + 2] = blk.T
    B.eq("IWP: T T^T == continuous-time covariance of (x, dx/dt) at the grid points", cov_of(cols, m), want)


def h_generic(B, n):
    """discrete_gauss_markov_process with the IWP drift/diffusion reproduces integrated_wiener_process"""
    P = params(B, n, False)
    x0 = B.reals("x0", (2,))
    xi = B.reals("xi", (n, 2))

    def generic(xi, x0, s, dt):
        one, zero = jnp.ones_like(dt), jnp.zeros_like(dt)
        drift = jnp.stack([jnp.stack([one, dt], -1), jnp.stack([zero, one], -1)], -2)
        amp = s * jnp.sqrt(dt)
        diff = jnp.stack([jnp.stack([amp * jnp.sqrt(dt ** 2 / 12.), amp * dt / 2], -1), jnp.stack([zero, amp], -1)], -2)
        return gm().discrete_gauss_markov_process(xi, x0, drift, diff)
    a = jcall(B, generic, xi, x0, P["sigma"], P["dt"])
    b = jcall(B, lambda xi, x0, s, dt: gm().integrated_wiener_process(xi, x0, s, dt), xi, x0, P["sigma"], P["dt"])
    B.eq("generic Gauss-Markov generator with the IWP drift/diffusion == integrated_wiener_process", _flat(a), _flat(b))


def h_recursion(B, n, drift_seq, diff_seq, dim=2):
    """discrete_gauss_markov_process == explicit recursion x_{k+1} = D_k x_k + A_k xi_k for every combination of
    constant / per-step drift and diffusion matrices"""
    x0 = B.reals("x0", (dim,))
    xi = B.reals("xi", (n, dim))
    D = B.reals("D", (n, dim, dim) if drift_seq else (dim, dim))
    A = B.reals("A", (n, dim, dim) if diff_seq else (dim, dim))
    got = jcall(B, lambda xi, x0, D, A: gm().discrete_gauss_markov_process(xi, x0, D, A), xi, x0, D, A)
    xs = [np.array(list(x0), dtype=object)]
    for k in range(n):
        Dk = D[k] if drift_seq else D
        Ak = A[k] if diff_seq else A
        xs.append(Dk @ xs[-1] + Ak @ xi[k])
    B.eq("generic generator == x_{k+1} = D_k x_k + A_k xi_k", _flat(got), [v for x in xs for v in x])


def h_model(B, n):
    """the Model wrappers hand the right pieces to the process functions"""
    import nifty.re as jft
    dtc = np.array([0.5, 0.25, 1.0][:n])
    xi = B.reals("xi", (n,))
    x0 = B.reals("x0")
    sg = B.reals("sg")
    B.assume(sg > 0)
    wp = lambda xi, x0, sg: jft.WienerProcess(x0, sg, jnp.asarray(dtc), name="wp")({"wp": xi})
    ref = lambda xi, x0, sg: gm().wiener_process(xi, x0, sg, jnp.asarray(dtc))
    B.eq("WienerProcess model == wiener_process on its excitations", _flat(jcall(B, wp, xi, x0, sg)), _flat(jcall(B, ref, xi, x0, sg)))
    gmv = B.reals("gm")
    B.assume(gmv > 0)
    ou = lambda xi, x0, sg, g: jft.OrnsteinUhlenbeckProcess(sg, g, jnp.asarray(dtc), name="oup", x0=x0)({"oup": xi})
    ref2 = lambda xi, x0, sg, g: gm().ornstein_uhlenbeck_process(xi, x0, sg, g, jnp.asarray(dtc))
    B.eq("OrnsteinUhlenbeckProcess model == ornstein_uhlenbeck_process", _flat(jcall(B, ou, xi, x0, sg, gmv)), _flat(jcall(B, ref2, xi, x0, sg, gmv)))
    # default x0 of the OU model: stationary start x0 = sigma * xi_0  => stationary covariance sigma^2 exp(-gamma |t_i - t_j|)
    x0xi = B.reals("x0xi")
    ou0 = lambda xi, x0xi, sg, g: jft.OrnsteinUhlenbeckProcess(sg, g, jnp.asarray(dtc), name="oup")({"oup": xi, "oup_x0": x0xi})
    allxi = lambda z: jcall(B, lambda z, sg, g: ou0(z[1:], z[0], sg, g), z, sg, gmv)
    xbar, cols = affine_map(B, allxi, (n + 1,), "stationary OU")
    e = [_exp(-(gmv * float(dtc[k]))) for k in range(n)]
    want = np.zeros((n + 1, n + 1), dtype=object)
    for i in range(n + 1):
        for j in range(n + 1):
            a, b = min(i, j), max(i, j)
            d = 1
            for k in range(a, b):
                d = d * e[k]
            want[i, j] = sg * sg * d
    B.eq("OU model with default x0 is stationary: covariance == sigma^2 exp(-gamma|t_i - t_j|)", cov_of(cols, n + 1), want)


def h_validate(B):
    rng = np.random.default_rng(1)
    n = 3
    xi, dt = rng.normal(size=n), rng.uniform(0.2, 1.0, n)
    k = 0
    k += validate(lambda xi, dt: gm().wiener_process(xi, 0.3, 1.3, dt), xi, dt)
    k += validate(lambda xi, dt: gm().ornstein_uhlenbeck_process(xi, 0.3, 1.3, 0.7, dt), xi, dt)
    k += validate(lambda xi, dt: gm().integrated_wiener_process(xi, jnp.array([0.1, -0.2]), 1.3, dt, 0.05), rng.normal(size=(n, 2)), dt)
    B.is_true(f"jaxpr interpreter reproduces the real process functions ({k} outputs)", k == 3)


def scenarios(tier, seed):
    out = [("validate", {})]
    ns = (2, 3) if tier == "quick" else (2, 3, 4)
    for n in ns:
        for vs in (False, True):
            out.append(("wiener", {"n": n, "vary_sigma": vs}))
            out.append(("ou", {"n": n, "vary_sigma": vs, "vary_gamma": False}))
            if n == 2:
                out.append(("ou_model", {"n": n, "vary_sigma": vs}))
            if n <= 3:
                out.append(("ou", {"n": n, "vary_sigma": vs, "vary_gamma": True}))
            if n <= (2 if tier == "quick" else 3):
                out.append(("iwp", {"n": n, "asperity": True, "vary_sigma": vs}))
                out.append(("iwp", {"n": n, "asperity": False, "vary_sigma": vs}))
    out.append(("iwp", {"n": 3, "asperity": True, "vary_sigma": False}))
    out.append(("generic", {"n": 2}))
    for ds in (False, True):
        for fs in (False, True):
            out.append(("recursion", {"n": 2, "drift_seq": ds, "diff_seq": fs}))
    out.append(("recursion", {"n": 3, "drift_seq": False, "diff_seq": True, "dim": 1}))
    out.append(("model", {"n": 2}))
    return out


HARNESSES = {"ou_model": h_ou_model, "recursion": h_recursion, "wiener": h_wiener, "ou": h_ou, "iwp": h_iwp, "generic": h_generic, "model": h_model, "validate": h_validate}
OPTS = {"quick": {"max_paths": 8, "budget_s": 300}, "thorough": {"max_paths": 8, "budget_s": 1200}}

META = {
    "level": "other",
    "explanation": "jaxpr IR of wiener_process, ornstein_uhlenbeck_process, integrated_wiener_process (with and without asperity), "
                   "scalar/discrete_gauss_markov_process and the WienerProcess / OrnsteinUhlenbeckProcess models interpreted with a "
                   "separate symbol for every step size dt_k (non-uniform grids), constant or per-step sigma and gamma (time-varying "
                   "parameters), symbolic asperity and initial state; the output is shown affine in the excitations, its matrix T is "
                   "read off and z3 refutes T T^T != K for the continuous-time covariance K at the grid points (Wiener: integrated "
                   "sigma^2 up to min(t_i,t_j); OU: exact variance transition with the atoms exp(-gamma dt_k) and its closed form; "
                   "IWP: exact 2x2 transition and process-noise matrices incl. asperity); the generic generator with the specialised "
                   "drift/diffusion reproduces the specialised functions.",
    "functions_encoded": ["nifty.re.gauss_markov.{wiener_process,ornstein_uhlenbeck_process,integrated_wiener_process,scalar_gauss_markov_process,"
                          "discrete_gauss_markov_process,GaussMarkovProcess.__call__,WienerProcess,OrnsteinUhlenbeckProcess}"],
    "bounds": {"time steps": "2-3 (4 thorough)", "state": "scalar, and (x, dx/dt) for the integrated Wiener process"},
    "stubs": ["jaxpr interpreter (vf/jaxpr_interp.py); exp uninterpreted (only atoms exp(-gamma dt_k) occur on both sides), sqrt algebraic"],
    "outside": ["more than 4 time steps", "priors on sigma/gamma/x0 (LogNormalPrior etc.: C30)", "float round-off in cumsum"],
    "assumptions": ["dt_k > 0, sigma > 0, gamma > 0, asperity > 0"],
}
