"""C17 -- JAX Newton minimisers never go uphill and make progress when they can.

One outer Newton-CG iteration against an UNINTERPRETED objective: fun_and_grad(x)
returns fresh symbols (f, g) per distinct point and hessp(x, v) = H(x) v with a
fresh symmetric matrix per distinct point, so the inner CG sees an arbitrary,
possibly indefinite Hessian.  Eager _newton_cg: real Python on object arrays
(front end A''), every path of the inner CG and of the 9-trial line search is
explored.  Compiled _static_newton_cg: jaxpr IR with uninterpreted JAX
primitives for the objective (front end B), compared with the eager result."""
import numpy as np

from .. import shims_cl
from .. import symcore as sc
from ..jaxpr_interp import jcall, jax, jnp, make_uf
from .c12 import setup as setup12, _flat  # noqa: F401
from .c15 import _JnpProxy, _vdot, eager_shims as cg_shims, setup as setup15


class _JnpProxy17(_JnpProxy):
    @staticmethod
    def minimum(a, b):
        if shims_cl.is_sym(a) or shims_cl.is_sym(b):
            return sc._lift(a).minimum(b)
        return jnp.minimum(a, b)

    @staticmethod
    def sqrt(a):
        return a.sqrt() if shims_cl.is_sym(a) else jnp.sqrt(a)

    @staticmethod
    def isnan(a):
        return False if shims_cl.is_sym(a) else jnp.isnan(a)

    @staticmethod
    def isinf(a):
        return False if shims_cl.is_sym(a) else jnp.isinf(a)


def _norm1(x, ord=1):
    x = np.asarray(x, dtype=object).reshape(-1)
    if ord == 1:
        t = 0
        for u in x:
            t = t + abs(u)
        return t
    if ord == 2:
        t = 0
        for u in x:
            t = t + u * u
        return sc._lift(t).sqrt()
    raise sc.HarnessError("norm order")


def setup():
    setup15()
    import nifty.re.optimize as om
    import logging
    om.logger.setLevel(logging.CRITICAL)
    if not hasattr(om, "_orig17"):
        om._orig17 = dict(jnp=om.jnp, vdot=om.vdot, jft_norm=om.jft_norm, size=om.size)


class newton_shims:
    def __enter__(self):
        import nifty.re.optimize as om
        import nifty.re.conjugate_gradient as cgm
        self.om = om
        om.jnp = _JnpProxy17()
        om.vdot = _vdot
        om.jft_norm = _norm1
        om.size = lambda x: int(np.size(x))
        om.float = shims_cl.sym_float
        self.cg = cg_shims()
        self.cg.__enter__()
        cgm.jft_norm = _norm1
        return self

    def __exit__(self, *a):
        self.cg.__exit__(*a)
        for k, v in self.om._orig17.items():
            setattr(self.om, k, v)
        if "float" in self.om.__dict__:
            del self.om.__dict__["float"]
        return False


class Objective:
    """uninterpreted objective: records every evaluation"""

    def __init__(self, B, n):
        self.B, self.n = B, n
        self.evals = []           # (x list, f, g list)
        self.table = []           # every (x, f, g) ever evaluated
        self.hs = []              # every (x, H) ever evaluated

    def _xs(self, x):
        if self.B.mode == "sym":
            return list(np.asarray(x, dtype=object).reshape(-1))
        return [float(v) for v in np.asarray(x, dtype=np.float64).reshape(-1)]

    def fun_and_grad(self, x):
        xs = self._xs(x)
        f = self.B.ufun("f", xs)
        g = np.array([self.B.ufun(f"g{i}", xs) for i in range(self.n)], dtype=object if self.B.mode == "sym" else np.float64)
        self.evals.append((xs, f, g))
        self.table.append((xs, f, g))
        if self.B.mode != "sym":
            return float(f), jnp.asarray(g)
        return f, g

    def H(self, x):
        xs = self._xs(x)
        H = np.empty((self.n, self.n), dtype=object if self.B.mode == "sym" else np.float64)
        for i in range(self.n):
            for j in range(i, self.n):
                H[i, j] = H[j, i] = self.B.ufun(f"h{i}{j}", xs)
        self.hs.append((xs, H))
        return H

    def hessp(self, x, v):
        if self.B.mode != "sym":
            return jnp.asarray(self.H(x) @ np.asarray(v, dtype=np.float64).reshape(-1))
        return self.H(x) @ np.asarray(v, dtype=object).reshape(-1)


def run_eager(B, obj, x0, cg_maxiter, maxiter=1):
    import nifty.re.optimize as om
    kw = dict(fun_and_grad=obj.fun_and_grad, hessp=obj.hessp, maxiter=maxiter, energy_reduction_factor=None, absdelta=None,
              cg_kwargs={"maxiter": cg_maxiter, "miniter": 0})
    if B.mode != "sym":
        # replay: the real functions on jnp arrays; the objective answers with the model's values in evaluation order
        return om._newton_cg(x0=jnp.asarray(np.asarray(x0, dtype=np.float64)), **kw)
    with newton_shims():
        return om._newton_cg(x0=np.asarray(x0, dtype=object), **kw)


def _T(B, c):
    """truth value usable by B.holds in both back ends"""
    return c if isinstance(c, sc.SB) else bool(c)


def _eq(B, a, b):
    if B.mode == "sym":
        return sc._lift(a) == b
    return bool(abs(float(a) - float(b)) <= 1e-9 * max(abs(float(a)), abs(float(b)), 1e-300))


def h_eager(B, n, curvature, cg_maxiter):
    obj = Objective(B, n)
    x0 = B.reals("x0", (n,))
    f0, g0 = obj.fun_and_grad(x0)
    H0 = obj.H(x0)
    obj.evals.clear()
    gHg = _vdot(g0, H0 @ g0)
    gg = _vdot(g0, g0)
    B.assume(gg > 0)
    if curvature == "neg":
        B.assume(gHg < 0)
    elif curvature == "pos":
        B.assume(gHg > 0)
    res = run_eager(B, obj, x0, cg_maxiter)
    rx = list(np.asarray(res.x, dtype=object if B.mode == "sym" else np.float64).reshape(-1))
    rfun = res.fun if B.mode == "sym" else float(res.fun)
    status = int(res.status)
    trials = obj.evals[1:]          # evals[0] is the start point itself
    B.note(f"status={status} trials={len(trials)}")
    B.holds("returned energy <= start energy", _T(B, rfun <= f0))
    same = None
    for (xs, f, g) in obj.evals:
        t = None
        for a, b in zip(xs, rx):
            e = _eq(B, a, b)
            t = e if t is None else (t & e)
        t = t & _eq(B, f, rfun)
        same = t if same is None else (same | t)
    B.holds("the returned point was evaluated and res.fun is its energy", _T(B, same))
    if curvature == "neg":
        for k, (xs, f, g) in enumerate(trials):
            step = np.array(xs, dtype=object if B.mode == "sym" else np.float64) - np.asarray(x0)
            B.holds(f"negative curvature along g: trial {k} lies along the negative gradient (x0 - s g, s > 0)",
                    _T(B, (_vdot(step, g0) < 0) & _parallel(B, step, g0)))
        lower = None
        for (xs, f, g) in trials:
            t = (f < f0)
            t = t if isinstance(t, sc.SB) else bool(t)
            lower = t if lower is None else (lower | t)
        if lower is not None:
            B.holds("negative curvature: if a trial step lowers the energy the iteration does not abort at the start",
                    _T(B, (~lower if isinstance(lower, sc.SB) else (not lower)) | (status != -1)))
            last = trials[-1][1] < f0
            B.holds("negative curvature: if the accepted trial lowers the energy, so does the result",
                    _T(B, (~last if isinstance(last, sc.SB) else (not bool(last))) | _T(B, rfun < f0)))
    B.is_true("status is the iteration count, 0 or -1", status in (0, 1, -1))


def _parallel(B, a, b):
    """a parallel to b (all 2x2 minors vanish)"""
    a, b = list(a), list(b)
    t = None
    for i in range(len(a)):
        for j in range(i + 1, len(a)):
            e = _eq(B, a[i] * b[j], a[j] * b[i])
            t = e if t is None else (t & e)
    return t if t is not None else (sc.SB(True) if B.mode == "sym" else True)


CONCRETE = {
    "cos": (lambda x: jnp.sum(jnp.cos(x)), 0.3),           # negative curvature at the start
    "quartic": (lambda x: jnp.sum(x ** 4 / 4 - x ** 2), 0.2),
    "bowl": (lambda x: jnp.sum(0.5 * x ** 2 + 0.1 * x ** 4), 1.3),
}


def h_concrete(B, n, curvature, cg_maxiter, which):
    """replay counterpart: concrete smooth non-convex objectives through the public functions"""
    import nifty.re.optimize as om
    for name, (f, start) in CONCRETE.items():
        x0 = jnp.full((n,), start)
        r = (om._newton_cg if which == "eager" else om._static_newton_cg)(f, x0, maxiter=1, energy_reduction_factor=None,
                                                                          cg_kwargs={"maxiter": cg_maxiter, "miniter": 0})
        B.is_true("returned energy <= start energy", float(r.fun) <= float(f(x0)) + 1e-12)
        g0 = jax.grad(f)(x0)
        if float(jnp.vdot(g0, jax.jvp(jax.grad(f), (x0,), (g0,))[1])) < 0:
            B.is_true("negative curvature: if a trial step lowers the energy the iteration does not abort at the start", int(r.status) != -1 or float(r.fun) < float(f(x0)))


def h_agree(B, n, cg_maxiter, curvature):
    """compiled _static_newton_cg == eager _newton_cg on the eager path (one outer iteration)"""
    import nifty.re.optimize as om
    obj = Objective(B, n)
    x0 = B.reals("x0", (n,))
    f0, g0 = obj.fun_and_grad(x0)
    H0 = obj.H(x0)
    gHg = _vdot(g0, H0 @ g0)
    B.assume(_vdot(g0, g0) > 0)
    B.assume(gHg < 0 if curvature == "neg" else gHg > 0)
    obj.evals.clear()
    res = run_eager(B, obj, x0, cg_maxiter)
    if B.mode != "sym":
        # replay: the compiled variant gets an objective that answers with the model's values at the points the eager run
        # evaluated (nearest tabulated point; any function is a legitimate objective)
        X = jnp.asarray(np.array([t[0] for t in obj.table], dtype=np.float64))
        F = jnp.asarray(np.array([float(t[1]) for t in obj.table]))
        G = jnp.asarray(np.array([np.asarray(t[2], dtype=np.float64) for t in obj.table]))
        XH = jnp.asarray(np.array([t[0] for t in obj.hs], dtype=np.float64))
        HH_ = jnp.asarray(np.array([np.asarray(t[1], dtype=np.float64) for t in obj.hs]))

        def fun_and_grad_tab(x):
            k = jnp.argmin(jnp.sum((X - x) ** 2, axis=1))
            return F[k], G[k]

        def hessp_tab(x, v):
            k = jnp.argmin(jnp.sum((XH - x) ** 2, axis=1))
            return HH_[k] @ v
        sx, sf, ss = _static(om, fun_and_grad_tab, hessp_tab, jnp.asarray(np.asarray(x0, dtype=np.float64)), cg_maxiter)
        B.eq("compiled x == eager x (on this eager path)", list(np.asarray(sx).reshape(-1)), list(np.asarray(res.x).reshape(-1)))
        B.eq("compiled energy == eager energy", [float(sf)], [float(res.fun)])
        B.eq("compiled status == eager status", [int(ss)], [int(res.status)])
        return
    fg = make_uf(B, "FG", (n + 1,))
    hh = make_uf(B, "HH", (n, n))

    def fun_and_grad(x):
        o = fg(x)
        return o[0], o[1:]

    def hessp(x, v):
        A = hh(x)
        return ((A + A.T) / 2) @ v
    # tie the two uninterpreted descriptions of the objective together: FG(x) = (f(x), g(x)), HH symmetric part = H
    sres = jcall(B, lambda x0: _static(om, fun_and_grad, hessp, x0, cg_maxiter), x0, while_bound=12, fork=True)
    tab = sc.cur().data.get("ufun", {})
    _link(B, tab, n)
    B.eq("compiled x == eager x (on this eager path)", _flat(sres[0]), list(np.asarray(res.x, dtype=object).reshape(-1)))
    B.eq("compiled energy == eager energy", _flat(sres[1]), [res.fun])
    B.eq("compiled status == eager status", _flat(sres[2]), [res.status])


def _static(om, fun_and_grad, hessp, x0, cg_maxiter):
    r = om._static_newton_cg(x0=x0, fun_and_grad=fun_and_grad, hessp=hessp, maxiter=1, energy_reduction_factor=None, absdelta=None,
                             cg_kwargs={"maxiter": cg_maxiter, "miniter": 0})
    return r.x, r.fun, r.status


def _link(B, tab, n):
    """FG_k(x) and f/g_k(x), HH(x) and h_ij(x) denote the same objective: equal arguments give related values"""
    import z3
    c = sc.cur()
    by = {}
    for (fname, argkey), (args, val) in tab.items():
        by.setdefault(fname, []).append((args, val))

    def rel(f1, f2, combine):
        for a1, v1 in by.get(f1, []):
            for a2, v2 in by.get(f2, []):
                if len(a1) == len(a2):
                    c.pc.append(z3.Implies(z3.And(*[p == q_ for p, q_ in zip(a1, a2)]), combine(v1, v2)))
    rel("FG0", "f", lambda u, v: u.e == v.e)
    for i in range(n):
        rel(f"FG{i + 1}", f"g{i}", lambda u, v: u.e == v.e)
    # HH is a full matrix A; the compiled hessp uses (A + A^T)/2: relate its entries to the symmetric h_ij
    for i in range(n):
        for j in range(n):
            a, b = (i, j) if i <= j else (j, i)
            for a1, v1 in by.get(f"HH{i * n + j}", []):
                for a2, v2 in by.get(f"HH{j * n + i}", []):
                    for a3, v3 in by.get(f"h{a}{b}", []):
                        if len(a1) == len(a2) == len(a3):
                            c.pc.append(z3.Implies(z3.And(*[p == q_ for p, q_ in zip(a1, a2)], *[p == q_ for p, q_ in zip(a1, a3)]),
                                                   (v1.e + v2.e) / 2 == v3.e))


def scenarios(tier, seed):
    quick, thorough = [], []
    for curv in ("neg", "pos", "any"):
        quick.append(("eager", {"n": 1, "curvature": curv, "cg_maxiter": 1}))
        quick.append(("eager", {"n": 1, "curvature": curv, "cg_maxiter": 2}))
        thorough.append(("eager", {"n": 2, "curvature": curv, "cg_maxiter": 1}))
        if curv == "neg":     # two CG iterations in dimension 2 with positive curvature do not finish within the budget
            thorough.append(("eager", {"n": 2, "curvature": curv, "cg_maxiter": 2}))
    quick.append(("agree", {"n": 1, "cg_maxiter": 1, "curvature": "pos"}))
    thorough.append(("agree", {"n": 1, "cg_maxiter": 1, "curvature": "neg"}))
    return quick if tier == "quick" else quick + thorough


HARNESSES = {"eager": h_eager, "agree": h_agree}
OPTS = {"quick": {"max_paths": 1200, "budget_s": 600, "jobs": 10, "branch_timeout_ms": 15000, "obl_timeout_ms": 30000},
        "thorough": {"max_paths": 2000, "budget_s": 2400, "jobs": 10, "branch_timeout_ms": 30000, "obl_timeout_ms": 120000}}

META = {
    "level": "other",
    "explanation": "One outer iteration of the eager _newton_cg (real Python loop on object arrays; inner _cg with maxiter <= 2, the 9-trial "
                   "successive-halving line search with its steepest-descent reset) against an UNINTERPRETED objective: f, grad f and a "
                   "symmetric Hessian are fresh symbols per distinct point, so every smooth or non-smooth, convex or non-convex objective "
                   "is covered.  All feasible paths explored; z3 proves on every path: returned energy <= start energy and the returned "
                   "point is an evaluated one; with negative curvature along a non-zero gradient every trial point lies on the ray x0 - s g "
                   "(s > 0), the iteration does not abort at the start when a trial lowers the energy, and an accepted lowering trial "
                   "gives a strictly lower result.  Path-wise agreement of the compiled _static_newton_cg (positive curvature; thorough: negative curvature and dimension 2 for the eager variant) -- "
                   "(jaxpr IR with uninterpreted primitives for the same objective) with the eager result.",
    "functions_encoded": ["nifty.re.optimize.{_newton_cg,_static_newton_cg,_line_search_successive_halving,_prepare_fun_vag_hessp}",
                          "nifty.re.conjugate_gradient.{_cg,_static_cg}"],
    "bounds": {"outer iterations": 1, "dimension": "1 (2 thorough)", "inner CG iterations": "<= 2 (dimension 2: 1, and 2 only with negative curvature along g)", "line-search trials": "all 9"},
    "stubs": ["nifty.re.optimize.{jnp,vdot,jft_norm,size,float} replaced by object-array versions for the eager run; uninterpreted objective"],
    "outside": ["more than one outer iteration", "_trust_ncg", "time_threshold", "dimension > 2", "NaN energies"],
    "assumptions": ["g(x0) != 0", "curvature family (g^T H g < 0, > 0 or unconstrained) per scenario"],
}
