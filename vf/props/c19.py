"""C19 -- the sampled KL energy is the sample average of the Hamiltonian (front end A, classic driver).

SampledKLEnergyClass is built from a ResidualSampleList of *symbolic* residuals;
the oracle evaluates the full Hamiltonian at every full sample m +/- r_i and
averages.  The solver decides equality for ALL means, residuals, data and
directions, for every constants / point-estimate split."""
import itertools

import numpy as np

from .. import shims_cl
from .. import symcore as sc
from ..clcommon import ift, field_of, flat_of, setup_cl, unflat, vdot_flat

N = 2
U = ift.UnstructuredDomain


def setup():
    setup_cl()
    import nifty.cl.pointwise as pw
    import nifty.cl.operators.energy_operators as eo
    import nifty.cl.operators.scaling_operator as so
    import nifty.cl.operators.diagonal_operator as do
    import nifty.cl.minimization.kl_energies as kl
    import nifty.cl.minimization.sample_list as sl
    import nifty.cl.operators.simplify_for_const as sfc
    for m in (pw, eo, so, do, kl, sl):
        shims_cl.proxy_np(m)
    shims_cl.proxy_float(sfc)


_D = None


def d1():
    global _D
    if _D is None:
        _D = ift.DomainTuple.make(U(N))
    return _D


def mdom(keys):
    return ift.MultiDomain.make({k: d1() for k in keys})


def make_ham(B, model, keys):
    dat = B.reals("dat", (N,))
    ops = {k: ift.ducktape(d1(), None, k) for k in keys}
    if model == "prod":            # a*b (+c): the metric w.r.t. one key depends on the other
        m = ops["a"] * ops["b"]
        if "c" in keys:
            m = m + ops["c"]
    elif model == "expsum":
        m = ops["a"].exp() + ops["b"]
        if "c" in keys:
            m = m * ops["c"]
    elif model == "lin":
        m = ops["a"] + ops["b"]
        if "c" in keys:
            m = m - ops["c"]
    else:
        raise ValueError(model)
    lh = ift.GaussianEnergy(field_of(d1(), dat)) @ m
    return ift.StandardHamiltonian(lh)


def _mf(dom, arrs):
    return ift.MultiField.from_dict({k: field_of(dom[k], arrs[k]) for k in dom.keys()}, dom)


def h_kl(B, model, keys, constants, point_estimates, negs, at=False):
    keys = list(keys)
    dom = mdom(keys)
    with B.setup():
        H = make_ham(B, model, keys)
        assert H.domain is dom
    mean = {k: B.reals("m" + k, (N,)) for k in keys}
    rkeys = [k for k in keys if k not in point_estimates]      # point-estimated keys carry no residual
    rdom = mdom(rkeys)
    nres = len(negs)
    res = [{k: B.reals(f"r{i}{k}", (N,)) for k in rkeys} for i in range(nres)]
    # mirrored pairs share the residual (as produced by draw_samples)
    for i in range(1, nres):
        if negs[i] and not negs[i - 1]:
            res[i] = res[i - 1]
    varkeys = [k for k in keys if k not in constants]
    vdom = mdom(varkeys)
    cdom = mdom([k for k in keys if k in constants])

    def build(meanvals):
        sl = ift.ResidualSampleList(_mf(dom, meanvals), [_mf(rdom, r) for r in res], list(negs))
        return ift.minimization.kl_energies.SampledKLEnergyClass(sl, H, list(constants), None, False)

    def reference(meanvals, xdir):
        """explicit sample average of the full Hamiltonian"""
        val, grad, met = 0, None, None
        prior_c = 0
        for r, ng in zip(res, negs):
            s = {k: (meanvals[k] + (-1 if ng else 1) * r[k] if k in r else meanvals[k]) for k in keys}
            lin = H(ift.Linearization.make_var(_mf(dom, s), want_metric=True))
            val = val + flat_of(lin.val)[0]
            g = flat_of(lin.gradient.extract(vdom))
            grad = g if grad is None else grad + g
            full_dir = _mf(dom, {k: (xdir[k] if k in varkeys else np.zeros(N)) for k in keys})
            mm = flat_of(lin.metric(full_dir).extract(vdom))
            met = mm if met is None else met + mm
            for k in constants:
                prior_c = prior_c + 0.5 * vdot_flat(s[k], s[k])
        n = len(negs)
        return val / n, grad / n, met / n, prior_c / n

    kl = build(mean)
    xdir = {k: B.reals("x" + k, (N,)) for k in varkeys}
    B.is_true("KL position holds exactly the non-constant keys", set(kl.position.domain.keys()) == set(varkeys))
    B.eq("KL position == mean on the non-constant keys", flat_of(kl.position), flat_of(_mf(vdom, mean)))
    rv, rg, rm, pc = reference(mean, xdir)
    tag = "" if not constants else " (constants present)"
    if constants:
        B.eq("KL value == sample average of H" + tag, [kl.value], [rv])
        B.eq("KL value == sample average of H up to the constant keys' prior energy", [kl.value + pc], [rv])
    else:
        B.eq("KL value == sample average of H", [kl.value], [rv])
    B.is_true("KL gradient lives on the non-constant keys", set(kl.gradient.domain.keys()) == set(varkeys))
    B.eq("KL gradient == sample average of grad H (non-constant keys)", flat_of(kl.gradient), rg)
    B.eq("KL metric(x) == sample average of the Hamiltonian metric (non-constant block)", flat_of(kl.apply_metric(_mf(vdom, xdir))), rm)
    B.eq("KL metric operator == apply_metric", flat_of(kl.metric(_mf(vdom, xdir))), rm)
    if at:
        new = {k: B.reals("z" + k, (N,)) for k in varkeys}
        kl2 = kl.at(_mf(vdom, new))
        mean2 = {k: (new[k] if k in varkeys else mean[k]) for k in keys}
        rv2, rg2, rm2, pc2 = reference(mean2, xdir)
        B.is_true("at(): same number of samples", kl2.samples.n_samples == len(negs))
        B.eq("at(new): KL value with the same residuals and untouched constants", [kl2.value + (pc2 if constants else 0)], [rv2])
        B.eq("at(new): KL gradient", flat_of(kl2.gradient), rg2)
        B.eq("at(new): KL metric", flat_of(kl2.apply_metric(_mf(vdom, xdir))), rm2)
        # samples of the new energy are new mean +/- old residuals
        for i, s in enumerate(kl2.samples.iterator()):
            want = {k: (mean2[k] + (-1 if negs[i] else 1) * res[i][k] if k in res[i] else mean2[k]) for k in keys}
            B.eq(f"at(new): sample {i} == new mean +/- old residual", flat_of(s), flat_of(_mf(dom, want)))


def h_re_constants(B, nsamples):
    """JAX driver: OptimizeVI.kl_minimize with constants hands the minimiser value / gradient / metric of the sample-averaged
    Hamiltonian restricted to the free keys, and returns the constant keys unchanged.  Model d ~ N(exp(a) b, 1/s^2), key a
    constant (the metric couples a and b)."""
    from ..jaxpr_interp import jcall, jax, jnp
    from .c12 import jft, setup as setup12
    setup12()
    import importlib
    opt = importlib.import_module("nifty.re.optimize")
    J = jft()
    d, s = B.reals("d", (1,)), B.reals("s", ())
    B.assume(s > 0)
    pos = {"a": B.reals("pa", (1,)), "b": B.reals("pb", (1,))}
    res = {"a": B.reals("ra", (nsamples, 1)), "b": B.reals("rb", (nsamples, 1))}
    t = B.reals("t", (1,))

    def run(d, s, pos, res, t):
        lh = J.Gaussian(d, noise_cov_inv=lambda x: s * s * x, noise_std_inv=lambda x: s * x).amend(
            lambda x: jnp.exp(x["a"]) * x["b"], domain={"a": jax.ShapeDtypeStruct((1,), jnp.float64), "b": jax.ShapeDtypeStruct((1,), jnp.float64)})
        ovi = J.OptimizeVI(lh, 1, jit=False, kl_map=jax.vmap)
        smp = J.Samples(pos=J.Vector(pos), samples=J.Vector(res), keys=None)
        cap = {}

        def minimize(fun, x0, fun_and_grad, hessp, **kw):
            tf = jax.tree_util.tree_map(lambda v: t, x0)
            val, grad = fun_and_grad(x0)
            cap.update(val=val, grad=grad, met=hessp(x0, tf), met0=hessp(x0, jax.tree_util.tree_map(jnp.zeros_like, x0)), x0=x0)
            return opt.OptimizeResults(x=x0, success=True, status=0, fun=val, jac=grad)
        st = ovi.kl_minimize(smp, minimize=minimize, constants=("a",))
        leaves = lambda v: jnp.concatenate([jnp.ravel(l) for l in jax.tree_util.tree_leaves(v)])
        return cap["val"], leaves(cap["grad"]), leaves(cap["met"]), leaves(cap["met0"]), leaves(cap["x0"]), st.x.tree["a"], st.x.tree["b"]
    val, grad, met, met0, x0, xa, xb = jcall(B, run, d, s, pos, res, t)
    ex = lambda v: v.exp() if hasattr(v, "exp") else float(np.exp(v))
    a, b = pos["a"][0], pos["b"][0]
    Hs, Gs, Ms = [], [], []
    for i in range(nsamples):
        ai, bi = a + res["a"][i][0], b + res["b"][i][0]
        ea = ex(ai)
        r = s * (d[0] - ea * bi)
        Hs.append(r * r / 2 + (ai * ai + bi * bi) / 2)
        Gs.append(-s * s * (d[0] - ea * bi) * ea + bi)          # d/db
        Ms.append((ea * ea * s * s + 1) * t[0])
    n = nsamples
    f = lambda v: list(np.asarray(v, dtype=object).reshape(-1))
    B.eq("re constants: value handed to the minimiser == sample average of the Hamiltonian", f(val), [sum(Hs, 0) / n])
    B.eq("re constants: gradient == sample average of the Hamiltonian gradient on the free key", f(grad), [sum(Gs, 0) / n])
    B.eq("re constants: metric action == sample average of the Hamiltonian metric on the free key", f(met), [sum(Ms, 0) / n])
    B.eq("re constants: metric applied to the zero tangent is zero", f(met0), [0])
    B.eq("re constants: the minimiser starts at the free part of the position", f(x0), [b])
    B.eq("re constants: the constant key is returned unchanged", f(xa), [a])
    B.eq("re constants: the free key is what the minimiser returned", f(xb), [b])


def scenarios(tier, seed):
    quick, thorough = [], []
    quick.append(("re_constants", {"nsamples": 2}))
    for model, keys in (("prod", "ab"), ("expsum", "ab"), ("prod", "abc"), ("lin", "abc"), ("expsum", "abc")):
        ks = list(keys)
        subsets = [()] + [c for r in range(1, len(ks)) for c in itertools.combinations(ks, r)]
        for cst in subsets:
            for pe in subsets:
                for negs in ((False,), (False, True), (False, True, False)):
                    d = {"model": model, "keys": keys, "constants": list(cst), "point_estimates": list(pe), "negs": list(negs)}
                    heavy = len(keys) == 3 and (len(negs) == 3 or model != "prod" or (cst and pe and set(cst) != set(pe)))
                    if model == "prod" and keys == "ab" and len(negs) == 2:
                        d["at"] = True
                    (thorough if heavy else quick).append(("kl", d))
    return quick if tier == "quick" else quick + thorough


HARNESSES = {"kl": h_kl, "re_constants": h_re_constants}
OPTS = {"quick": {"max_paths": 16, "budget_s": 300}, "thorough": {"max_paths": 16, "budget_s": 1500}}

META = {
    "level": "other",
    "explanation": "Classic driver: SampledKLEnergyClass (value, gradient, apply_metric, metric, at, samples) on a ResidualSampleList "
                   "of symbolic residuals (1-3 samples, mirrored pairs, residuals absent on point-estimated keys) for Gaussian "
                   "likelihoods behind product / exp / linear models on 2-3 keys, for EVERY constants and point-estimate subset; "
                   "z3 refutes any difference from the explicit sample average of the full Hamiltonian's value, gradient and "
                   "metric (restricted to the non-constant keys) for ALL means, residuals, data and directions; constants are absent "
                   "from the position and untouched by at(); at(new) keeps the residuals.",
    "functions_encoded": ["nifty.cl.minimization.kl_energies.{SampledKLEnergyClass.__init__,at,apply_metric,metric,samples,_reduce_by_keys,_reduce_field}",
                          "nifty.cl.minimization.sample_list.{ResidualSampleList.__init__,local_item,at,average,_average_2tuple,_prepare_average,iterator}",
                          "nifty.cl.operators.energy_operators.StandardHamiltonian.{apply,_simplify_for_constant_input_nontrivial}"],
    "bounds": {"samples": "<= 3", "keys": "2-3", "pixels": 2, "splits": "every constants x point-estimates subset pair (3 keys: thorough for the mixed ones)"},
    "stubs": shims_cl.STUBS[:5],
    "outside": ["drawing the samples (C13/C18)", "MPI-distributed sample lists (C22/C23)", "the JAX driver's kl_value_and_grad / kl_metric for all sample maps (C21); only OptimizeVI.kl_minimize with constants is covered here"],
    "assumptions": [],
}
