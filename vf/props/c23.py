"""C23 -- distributed summation: partition independence and deadlock freedom.

The real ``nifty.cl.utilities.allreduce_sum`` (with its _send/_recv/_bcast helpers) runs on every task of a simulated
MPI world whose point-to-point sends are synchronous (block until the matching receive is posted -- the strictest
semantics MPI allows).  The number of tasks T, the number of summands each task holds and -- where a receive does not
name its source -- the sender that is matched are SYMBOLIC integers: the solver decides which values are feasible and
every feasible one becomes a path.  The summands are generators of the free magma (``+`` is uninterpreted and not
associative), so "the same pairwise summation tree" is term identity, independent of any floating-point accident.

Per path: every task returns exactly the term the single-process call returns; no task is left blocked (deadlock),
no message is left undelivered, all tasks take part in the same collectives."""
import threading

import numpy as np

from .. import symcore as sc
from ..clcommon import ift, setup_cl, field_of


def setup():
    setup_cl()


class Val:
    """element of the free magma over the leaves: + builds a term, nothing else is defined"""
    __slots__ = ("t",)

    def __init__(self, t):
        self.t = t

    def __add__(self, o):
        if not isinstance(o, Val):
            return NotImplemented
        return Val((self.t, o.t))

    def __radd__(self, o):
        if not isinstance(o, Val):
            return NotImplemented
        return Val((o.t, self.t))

    def __eq__(self, o):
        return isinstance(o, Val) and self.t == o.t

    def __hash__(self):
        return hash(self.t)

    def __repr__(self):
        return f"Val({self.t})"


class _Abort(BaseException):
    pass


class Deadlock(Exception):
    pass


ANY = -1


class World:
    """T tasks as cooperatively scheduled threads: exactly one runs at a time, a task runs until it blocks in a
    communication call; the scheduler (main thread) matches blocked operations.  Synchronous sends."""

    def __init__(self, B, T):
        self.B, self.T = B, T
        self.go = [threading.Event() for _ in range(T)]
        self.back = threading.Event()
        self.op = [None] * T          # blocked operation of each task
        self.reply = [None] * T
        self.done = [False] * T
        self.result = [None] * T
        self.exc = None
        self.abort = False
        self.events = []              # matched communications, in order
        self.nchoice = 0
        self.on_in = self.on_out = None   # hooks around every time slice of a task (per-task process-global state)

    # -- task side -----------------------------------------------------------
    def _block(self, r, op):
        self.op[r] = op
        self.back.set()
        self.go[r].wait()
        self.go[r].clear()
        if self.abort:
            raise _Abort()
        rep, self.reply[r] = self.reply[r], None
        return rep

    def _task(self, r, fn):
        self.go[r].wait()
        self.go[r].clear()
        try:
            if self.abort:
                return
            self.result[r] = fn(Comm(self, r))
        except _Abort:
            pass
        except BaseException as e:  # noqa: BLE001  (path-steering exceptions of the engine are BaseExceptions)
            if self.exc is None:
                self.exc = e
        finally:
            self.done[r] = True
            self.op[r] = None
            self.back.set()

    # -- scheduler ---------------------------------------------------------------
    def _resume(self, r):
        self.back.clear()
        self.op[r] = None
        if self.on_in is not None:
            self.on_in(r)
        self.go[r].set()
        self.back.wait()
        if self.on_out is not None:
            self.on_out(r)

    def run(self, fns):
        th = [threading.Thread(target=self._task, args=(r, fns[r]), daemon=True) for r in range(self.T)]
        for t in th:
            t.start()
        try:
            for r in range(self.T):
                self._resume(r)
                if self.exc is not None:
                    raise self.exc
            while not all(self.done):
                m = self._match()
                if m is None:
                    raise Deadlock("tasks blocked forever: " + "; ".join(
                        f"task {r}: {self._desc(self.op[r])}" for r in range(self.T) if not self.done[r]))
                for r in m:
                    self._resume(r)
                    if self.exc is not None:
                        raise self.exc
        finally:
            self.abort = True
            for r in range(self.T):
                self.go[r].set()
            for t in th:
                t.join(5)
        return self.result

    @staticmethod
    def _desc(op):
        if op is None:
            return "-"
        if op[0] == "send":
            return f"send to {op[1]}"
        if op[0] == "recv":
            return f"recv from {'ANY' if op[1] == ANY else op[1]}"
        return f"collective {op[1]}"

    def _match(self):
        """complete one communication; -> ranks to resume (in order) or None"""
        T = self.T
        # point-to-point: lowest receiver first (the outcome does not depend on this order for source-specific receives)
        for d in range(T):
            op = self.op[d]
            if self.done[d] or op is None or op[0] != "recv":
                continue
            src = op[1]
            if src == ANY:
                cands = [s for s in range(T) if not self.done[s] and self.op[s] is not None and self.op[s][0] == "send"
                         and self.op[s][1] == d and self.op[s][3] == op[2]]
                if not cands:
                    continue
                # which sender an unspecific receive matches is up to MPI: every candidate is explored
                k = self.B.pick(f"match{self.nchoice}", 0, len(cands) - 1) if len(cands) > 1 else 0
                self.nchoice += 1
                s = cands[k]
            else:
                s = src
                if not (0 <= s < T) or self.done[s] or self.op[s] is None or self.op[s][0] != "send" or self.op[s][1] != d \
                        or self.op[s][3] != op[2]:
                    continue
            payload = self.op[s][2]
            self.events.append(("p2p", s, d, op[2]))
            self.reply[d] = payload
            return [s, d]
        # collectives: every task must have arrived at the same one
        if all((not self.done[r]) and self.op[r] is not None and self.op[r][0] == "coll" for r in range(T)):
            kinds = {self.op[r][1] for r in range(T)}
            if len(kinds) == 1:
                kind = kinds.pop()
                data = [self.op[r][2] for r in range(T)]
                if kind == "allgather":
                    out = [list(data) for _ in range(T)]
                elif kind == "allreduce":
                    tot = data[0]
                    for x in data[1:]:
                        tot = tot + x
                    out = [tot for _ in range(T)]
                elif kind == "Barrier":
                    out = [None for _ in range(T)]
                else:  # bcast / Bcast
                    roots = {self.op[r][3] for r in range(T)}
                    if len(roots) != 1:
                        return None
                    root = roots.pop()
                    out = [data[root] for _ in range(T)]
                self.events.append(("coll", kind))
                for r in range(T):
                    self.reply[r] = out[r]
                return list(range(T))
        return None


class Comm:
    """the part of the mpi4py communicator interface nifty.cl.utilities uses"""

    def __init__(self, world, rank):
        self.w, self.r = world, rank

    def Get_rank(self):
        return self.r

    def Get_size(self):
        return self.w.T

    def allgather(self, x):
        return self.w._block(self.r, ("coll", "allgather", x, None))

    def allreduce(self, x):
        return self.w._block(self.r, ("coll", "allreduce", x, None))

    def Barrier(self):
        self.w._block(self.r, ("coll", "Barrier", None, None))

    def bcast(self, obj, root=0):
        return self.w._block(self.r, ("coll", "bcast", obj, root))

    def Bcast(self, buf, root=0):
        out = self.w._block(self.r, ("coll", "Bcast", buf, root))
        if self.r != root:
            buf[...] = out

    def send(self, obj, dest, tag=0):
        self.w._block(self.r, ("send", dest, obj, "obj"))

    def recv(self, buf=None, source=ANY, tag=0):
        return self.w._block(self.r, ("recv", source, "obj"))

    def Send(self, buf, dest, tag=0):
        self.w._block(self.r, ("send", dest, np.array(buf, copy=True), "buf"))

    def Recv(self, buf, source=ANY, tag=0):
        buf[...] = self.w._block(self.r, ("recv", source, "buf"))


# ----------------------------------------------------------------------------------------------

def _leaf(kind, i):
    """summand number i of the given kind"""
    if kind == "scalar":
        return Val(i)
    a = np.empty((2,), dtype=object)
    a[0], a[1] = Val((i, 0)), Val((i, 1))
    if kind == "ndarray":
        return a
    dom = ift.UnstructuredDomain(2)
    if kind == "field":
        return field_of(dom, a)
    b = np.empty((2,), dtype=object)
    b[0], b[1] = Val((i, 2)), Val((i, 3))
    return ift.MultiField.from_dict({"a": field_of(dom, a), "b": field_of(dom, b)})


def _terms(kind, x):
    """the magma terms a result consists of"""
    if kind == "scalar":
        return [x.t] if isinstance(x, Val) else ["not a Val: " + repr(x)]
    if kind == "ndarray":
        return [v.t for v in np.asarray(x, dtype=object).reshape(-1)]
    if kind == "field":
        return [v.t for v in np.asarray(x.val.val, dtype=object).reshape(-1)]
    return [v.t for k in ("a", "b") for v in np.asarray(x[k].val.val, dtype=object).reshape(-1)]


def h_allreduce(B, kind, Tmax, Nmax):
    from nifty.cl import utilities as ut
    T = B.pick("T", 1, Tmax)
    counts, tot = [], 0
    for r in range(T):
        # any non-negative number of summands per task, in order; at least one summand overall
        c = B.pick(f"count{r}", 0, Nmax - tot)
        counts.append(c)
        tot += c
    B.assume(tot >= 1)
    B.note(f"T={T} counts={counts}")
    leaves = [_leaf(kind, i) for i in range(tot)]
    ref = _terms(kind, ut.allreduce_sum(list(leaves), None))
    offs = np.concatenate([[0], np.cumsum(counts)]).astype(int)
    world = World(B, T)
    fns = [(lambda comm, r=r: ut.allreduce_sum(list(leaves[offs[r]:offs[r + 1]]), comm)) for r in range(T)]
    try:
        res = world.run(fns)
    except Deadlock as e:
        B.is_true("no deadlock with synchronous sends", False)
        B.note(str(e))
        return
    B.is_true("no deadlock with synchronous sends", True)
    for r in range(T):
        B.is_true(f"task {r} returns the single-process summation tree", _terms(kind, res[r]) == ref)
    B.is_true("all tasks return the same value", all(_terms(kind, res[r]) == _terms(kind, res[0]) for r in range(T)))


def h_sharerange(B, bound):
    """shareRange distributes [0, nwork) in order, without gaps or overlaps, as evenly as possible -- symbolic
    nwork, nshares and share index (the partition allreduce_sum's callers hand in)"""
    from nifty.cl import utilities as ut
    if B.mode == "sym":
        n, s, k = B.ints("nwork"), B.ints("nshares"), B.ints("share")
    else:
        n, s, k = (int(B.ints(nm)) for nm in ("nwork", "nshares", "share"))
    B.assume((n >= 0) & (n <= bound) if B.mode == "sym" else (0 <= n <= bound))
    B.assume((s >= 1) & (s <= bound) if B.mode == "sym" else (1 <= s <= bound))
    B.assume((k >= 0) & (k < s) if B.mode == "sym" else (0 <= k < s))
    with _int_shim(ut):
        lo, hi = ut.shareRange(n, s, k)
        lo0, _ = ut.shareRange(n, s, 0)
        _, hil = ut.shareRange(n, s, s - 1)
        lo2, hi2 = ut.shareRange(n, s, k + 1)
    B.holds("first share starts at 0", _t(lo0 == 0))
    B.holds("last share ends at nwork", _t(hil == n))
    B.holds("lo <= hi", _t(lo <= hi))
    B.holds("share k+1 starts where share k ends (k+1 < nshares)", _t((k + 1 >= s) | (lo2 == hi)) if B.mode == "sym" else (k + 1 >= s or lo2 == hi))
    sz = hi - lo
    B.holds("share sizes differ by at most one and are non-increasing",
            _t((k + 1 >= s) | ((sz - (hi2 - lo2) >= 0) & (sz - (hi2 - lo2) <= 1))) if B.mode == "sym"
            else (k + 1 >= s or 0 <= sz - (hi2 - lo2) <= 1))


def _t(c):
    return c if isinstance(c, sc.SB) else bool(c)


class _int_shim:
    """shareRange calls min() and int() on its arguments: symbolic-integer versions inside the module"""

    def __init__(self, mod):
        self.mod = mod

    def __enter__(self):
        def _min(a, b):
            if isinstance(a, sc.SI) or isinstance(b, sc.SI):
                return sc.SI(sc.SI._o(a)).minimum(b) if not isinstance(a, sc.SI) else a.minimum(b)
            return min(a, b)

        def _int(x):
            if isinstance(x, sc.SB):
                return sc.SI(sc.SI._o(x))
            return int(x)
        self.mod.min, self.mod.int = _min, _int

    def __exit__(self, *a):
        for nm in ("min", "int"):
            self.mod.__dict__.pop(nm, None)
        return False


def scenarios(tier, seed):
    quick = [("allreduce", {"kind": "scalar", "Tmax": 3, "Nmax": 5}),
             ("allreduce", {"kind": "ndarray", "Tmax": 3, "Nmax": 4}),
             ("allreduce", {"kind": "field", "Tmax": 3, "Nmax": 4}),
             ("allreduce", {"kind": "multifield", "Tmax": 2, "Nmax": 4}),
             ("sharerange", {"bound": 64})]
    thorough = [("allreduce", {"kind": "scalar", "Tmax": 5, "Nmax": 9}),
                ("allreduce", {"kind": "ndarray", "Tmax": 4, "Nmax": 8}),
                ("allreduce", {"kind": "field", "Tmax": 4, "Nmax": 8}),
                ("allreduce", {"kind": "multifield", "Tmax": 4, "Nmax": 6}),
                ("sharerange", {"bound": 10 ** 6})]
    return quick if tier == "quick" else quick + thorough


HARNESSES = {"allreduce": h_allreduce, "sharerange": h_sharerange}
OPTS = {"quick": {"max_paths": 4000, "budget_s": 600, "jobs": 8, "branch_timeout_ms": 10000, "obl_timeout_ms": 20000},
        "thorough": {"max_paths": 40000, "budget_s": 3000, "jobs": 8, "branch_timeout_ms": 10000, "obl_timeout_ms": 60000}}

META = {
    "level": "other",
    "explanation": "The real allreduce_sum/_send/_recv/_bcast run on every task of a simulated MPI world (cooperative scheduler, "
                   "SYNCHRONOUS point-to-point sends, collectives complete only when every task has entered the same one).  The "
                   "number of tasks, the per-task summand counts and the sender matched by a source-unspecific receive are symbolic "
                   "integers; z3 decides which values are feasible and each becomes a path.  Summands are generators of the free "
                   "magma (uninterpreted, non-associative +; scalars, ndarrays, Fields, MultiFields of them), so equality of results "
                   "is identity of pairwise-summation trees.  Per path: every task returns the single-process tree, no task stays "
                   "blocked, and shareRange (the partition callers use) tiles [0, nwork) in order for symbolic nwork/nshares/share.",
    "functions_encoded": ["nifty.cl.utilities.{allreduce_sum,_send,_recv,_bcast,shareRange}"],
    "bounds": {"tasks": "<= 3 quick, <= 5 thorough", "summands": "<= 5 quick, <= 9 thorough (any distribution incl. empty tasks)",
               "shareRange": "nwork, nshares <= 64 quick, <= 10^6 thorough"},
    "stubs": ["mpi4py communicator replaced by vf.props.c23.Comm/World (synchronous sends, FIFO per pair, collectives as barriers)",
              "summands are free-magma terms instead of floats"],
    "outside": ["real MPI progress engine, buffered/eager sends (weaker than synchronous: fewer deadlocks, same values)",
                "more tasks/summands than the bound", "mixed summand types (asserted against by the code)"],
    "assumptions": ["at least one summand overall", "each task holds a contiguous, ordered block of the summands"],
}
