"""C01 -- linear-operator algebra has exact matrix semantics (front end A)."""
import random

import numpy as np

from .. import shims_cl
from ..clcommon import ift, field_of, flat_of, setup_cl, unflat

setup = setup_cl

N = 2  # pixels of the base domain


# --------------------------------------------------------------------------
# leaf library: name -> (operator, dense matrix) on a given domain kind


def _dom(kind):
    if kind == "single":
        return ift.DomainTuple.make(ift.UnstructuredDomain(N))
    if kind == "prod":
        return ift.DomainTuple.make((ift.UnstructuredDomain(2), ift.UnstructuredDomain(1)))
    if kind == "prod22":
        return ift.DomainTuple.make((ift.UnstructuredDomain(2), ift.UnstructuredDomain(2)))
    if kind == "multi":
        return ift.MultiDomain.make({"a": ift.UnstructuredDomain(1), "b": ift.UnstructuredDomain(2)})
    raise ValueError(kind)


def _size(dom):
    return dom.size


def leaves(B, kind, cplx):
    """returns dict name -> (op, M) ; M dense (size x size) object/float matrix"""
    dom = _dom(kind)
    n = dom.size
    V = lambda name, shape=(): B.values(name, shape, cplx)
    out = {}
    eye = np.eye(n)
    s = V("s")
    t = V("t")
    out["scal"] = (ift.ScalingOperator(dom, s), s * eye)
    out["scal2"] = (ift.ScalingOperator(dom, t), t * eye)
    out["null"] = (ift.NullOperator(dom, dom), 0 * eye)
    if kind == "single":
        d = V("d", (n,))
        e = V("e", (n,))
        out["diag"] = (ift.DiagonalOperator(field_of(dom, d)), np.diag(d))
        out["diag2"] = (ift.DiagonalOperator(field_of(dom, e)), np.diag(e))
        m = V("m", (n, n))
        out["mat"] = (ift.MatrixProductOperator(dom, m), m)
        g = V("g", (n, n))
        out["dense"] = (_Dense(dom, g), g)
        bun = ift.MatrixProductOperator(dom, m)
        out["sand"] = (ift.SandwichOperator.make(bun, ift.DiagonalOperator(field_of(dom, d))),
                       np.conjugate(m).T @ np.diag(d) @ m)
        # bun is a pure scaling (shortcut |s|^2 * cheese), no cheese, and a sandwich as cheese (buns are merged)
        out["sandscal"] = (ift.SandwichOperator.make(ift.ScalingOperator(dom, s), ift.DiagonalOperator(field_of(dom, d))),
                           np.conjugate(s) * s * np.diag(d))
        out["sandnone"] = (ift.SandwichOperator.make(bun), np.conjugate(m).T @ m)
        inner = ift.SandwichOperator.make(ift.MatrixProductOperator(dom, g), ift.DiagonalOperator(field_of(dom, e)))
        out["sandsand"] = (ift.SandwichOperator.make(ift.ScalingOperator(dom, t), inner),
                           np.conjugate(t) * t * (np.conjugate(g).T @ np.diag(e) @ g))
    elif kind in ("prod", "prod22"):
        s0, s1 = dom.shape
        d = V("d", (s0, s1))
        out["diag"] = (ift.DiagonalOperator(field_of(dom, d)), np.diag(d.reshape(-1)))
        p0 = V("p", (s0,))
        p1 = V("r", (s1,))
        f0 = field_of(ift.DomainTuple.make(dom[0]), p0)
        f1 = field_of(ift.DomainTuple.make(dom[1]), p1)
        out["pdiag0"] = (ift.DiagonalOperator(f0, dom, 0),
                         np.diag(np.broadcast_to(p0.reshape(s0, 1), (s0, s1)).reshape(-1)))
        out["pdiag1"] = (ift.DiagonalOperator(f1, dom, 1),
                         np.diag(np.broadcast_to(p1.reshape(1, s1), (s0, s1)).reshape(-1)))
        m0 = V("m", (s0, s0))
        m1 = V("w", (s1, s1))
        # matrix acting on one space only: kron with the identity on the other
        out["pmat1"] = (ift.MatrixProductOperator(dom, m1, spaces=(1,)), np.kron(np.eye(s0), m1))
        out["pmat0"] = (ift.MatrixProductOperator(dom, m0, spaces=(0,)), np.kron(m0, np.eye(s1)))
    elif kind == "multi":
        da = V("da", (1,))
        db = V("db", (2,))
        ea = V("ea", (1,))
        eb = V("eb", (2,))
        u = V("u")
        A, Bd = dom["a"], dom["b"]
        out["blk"] = (ift.BlockDiagonalOperator(dom, {"a": ift.DiagonalOperator(field_of(A, da)),
                                                      "b": ift.DiagonalOperator(field_of(Bd, db))}),
                      np.diag(np.concatenate([da, db])))
        out["blk2"] = (ift.BlockDiagonalOperator(dom, {"a": ift.DiagonalOperator(field_of(A, ea)),
                                                       "b": ift.ScalingOperator(Bd, u)}),
                       np.diag(np.concatenate([ea, [u, u]])))
        out["blkp"] = (ift.BlockDiagonalOperator(dom, {"a": ift.DiagonalOperator(field_of(A, da))}),
                       np.diag(np.concatenate([da, [1, 1]])))
        fd = ift.MultiField.from_dict({"a": field_of(A, ea), "b": field_of(Bd, eb)})
        out["mdiag"] = (ift.makeOp(fd), np.diag(np.concatenate([ea, eb])))
    return dom, out


class _Dense(ift.LinearOperator):
    """harness leaf: invertible dense 2x2 operator with all four modes (the
    library has no non-commuting leaf that advertises the inverse modes)"""

    def __init__(self, dom, mat):
        self._domain = self._target = ift.DomainTuple.make(dom)
        self._capability = self._all_ops
        self._m = mat

    def apply(self, x, mode):
        self._check_input(x, mode)
        m = self._m
        if mode & (self.ADJOINT_TIMES | self.ADJOINT_INVERSE_TIMES):
            m = np.conjugate(m).T
        v = x.val.val
        if mode & (self.INVERSE_TIMES | self.ADJOINT_INVERSE_TIMES):
            dt = m[0, 0] * m[1, 1] - m[0, 1] * m[1, 0]
            r = np.array([(m[1, 1] * v[0] - m[0, 1] * v[1]) / dt, (m[0, 0] * v[1] - m[1, 0] * v[0]) / dt])
        else:
            r = m @ v
        return field_of(self._domain, r)


LEAF_NAMES = {
    "single": ["scal", "scal2", "null", "diag", "diag2", "mat", "sand", "dense", "sandscal", "sandnone", "sandsand"],
    "prod": ["scal", "null", "diag", "pdiag0", "pdiag1", "pmat0", "pmat1"],
    "prod22": ["scal", "diag", "pdiag0", "pdiag1", "pmat0", "pmat1"],
    "multi": ["scal", "null", "blk", "blk2", "blkp", "mdiag"],
}
UNARY = ["adj", "inv", "neg", "scale"]
BINARY = ["add", "sub", "chain"]


def _perm_bits(cap, swap):
    out = 0
    for b in (1, 2, 4, 8):
        if cap & b:
            out |= swap[b]
    return out


ADJ_SWAP = {1: 2, 2: 1, 4: 8, 8: 4}
INV_SWAP = {1: 4, 4: 1, 2: 8, 8: 2}


def _recip_diag(M):
    out = np.zeros(M.shape, dtype=object) if M.dtype == object else np.zeros(M.shape, dtype=M.dtype)
    for i in range(M.shape[0]):
        out[i, i] = 1 / M[i, i]
    return out


def _isdiag_leaf(name):
    return name not in ("mat", "sand", "pmat0", "pmat1", "dense", "null", "sandnone", "sandsand")


def build(tree, lv, scal):
    """tree -> (operator, (M, inverted, isdiag), rule capability)

    The oracle value denotes the matrix M, or M^-1 if ``inverted``.  Inverses of
    diagonal matrices are formed explicitly (entry-wise reciprocal), so they can
    take part in further sums and products."""
    if isinstance(tree, str):
        op, M = lv[tree]
        return op, (M, False, _isdiag_leaf(tree)), op.capability
    kind = tree[0]
    if kind in UNARY:
        op, (M, iv, dg), cap = build(tree[1], lv, scal)
        if kind == "adj":
            return op.adjoint, (np.conjugate(M).T, iv, dg), _perm_bits(cap, ADJ_SWAP)
        if kind == "inv":
            if dg and not iv:
                return op.inverse, (_recip_diag(M), False, True), _perm_bits(cap, INV_SWAP)
            return op.inverse, (M, not iv, dg), _perm_bits(cap, INV_SWAP)
        if kind == "neg":
            return -op, (-M, iv, dg), cap
        if kind == "scale":
            return op.scale(scal), ((M / scal) if iv else (scal * M), iv, dg), cap
    a, (Ma, ia, da), ca = build(tree[1], lv, scal)
    b, (Mb, ib, db), cb = build(tree[2], lv, scal)
    assert not (ia or ib), "oracle cannot combine explicit inverses of non-diagonal matrices"
    if kind == "add":
        return a + b, (Ma + Mb, False, da and db), ca & cb & 3
    if kind == "sub":
        return a - b, (Ma - Mb, False, da and db), ca & cb & 3
    if kind == "chain":
        return a @ b, (Ma @ Mb, False, da and db), ca & cb
    raise ValueError(kind)


def det(M):
    """Laplace expansion (n <= 4) on object / float matrices"""
    n = M.shape[0]
    if n == 1:
        return M[0, 0]
    if n == 2:
        return M[0, 0] * M[1, 1] - M[0, 1] * M[1, 0]
    r = 0
    for j in range(n):
        if isinstance(M[0, j], (int, float)) and M[0, j] == 0:
            continue
        minor = np.delete(np.delete(M, 0, axis=0), j, axis=1)
        r = r + ((-1) ** j) * M[0, j] * det(minor)
    return r


def _structural_cap(op):
    """capability rule applied to the operator's own direct constituents"""
    from nifty.cl.operators.sum_operator import SumOperator
    from nifty.cl.operators.chain_operator import ChainOperator
    from nifty.cl.operators.operator_adapter import OperatorAdapter
    if isinstance(op, SumOperator):
        c = 3
        for o in op._ops:
            c &= o.capability
        return c
    if isinstance(op, ChainOperator):
        c = 15
        for o in op._ops:
            c &= o.capability
        return c
    if isinstance(op, OperatorAdapter):
        sw = {1: ADJ_SWAP, 2: INV_SWAP}
        c = op._op.capability
        if op._trafo & 1:
            c = _perm_bits(c, ADJ_SWAP)
        if op._trafo & 2:
            c = _perm_bits(c, INV_SWAP)
        return c
    return None


def h_tree(B, tree, kind, cplx):
    """one expression tree, all advertised modes"""
    with shims_cl.complex_mode(cplx):
        dom, lv = leaves(B, kind, cplx)
        scal = B.values("c", (), cplx)
        n = dom.size
        op, (M, inverted, _dg), rulecap = build(tree, lv, scal)
        x = B.values("x", (n,), cplx)
        xf = unflat(dom, x)
        cap = op.capability
        sc_ = _structural_cap(op)
        if sc_ is not None:
            B.is_true("capability == rule(constituents)", cap == sc_)
        B.is_true("capability >= rule(tree)", (cap & rulecap) == rulecap)
        B.is_true("domain", op.domain is dom and op.target is dom)
        MH = np.conjugate(M).T
        assumed_regular = False
        for mode in (1, 2, 4, 8):
            if not (cap & mode):
                continue
            inv_mode = bool(mode & 12)
            if (inv_mode != inverted) and not assumed_regular:
                # the (inverse) matrix expression only exists for regular M
                B.assume(det(M) != 0)
                assumed_regular = True
            y = flat_of(op.apply(xf, mode))
            adj = bool(mode & 10)
            Mm = MH if adj else M
            nm = {1: "times", 2: "adjoint_times", 4: "inverse_times", 8: "adjoint_inverse_times"}[mode]
            if inv_mode == inverted:
                B.eq(f"{nm} == matrix action", y, Mm @ x)
            else:
                B.eq(f"matrix applied to {nm} gives x back", Mm @ y, x)


def _flags(tree):
    """(inverted, isdiag) of the oracle value of a tree"""
    if isinstance(tree, str):
        return False, _isdiag_leaf(tree)
    k = tree[0]
    if k == "inv":
        iv, dg = _flags(tree[1])
        if dg and not iv:
            return False, True
        return (not iv), dg
    if k in ("adj", "neg", "scale"):
        return _flags(tree[1])
    fl = [_flags(t) for t in tree[1:]]
    return False, all(d for _, d in fl)


def _inverted(tree):
    return _flags(tree)[0]


def all_trees(kind, depth):
    L = LEAF_NAMES[kind]
    levels = [list(L)]
    for _ in range(depth):
        prev = [t for lv in levels for t in lv]
        new = []
        for u in UNARY:
            for t in levels[-1]:
                new.append([u, t])
        last = levels[-1]
        for b in BINARY:
            for t1 in prev:
                for t2 in prev:
                    if t1 in last or t2 in last:
                        new.append([b, t1, t2])
        levels.append(new)
    return levels


def _oracle_ok(tree):
    """the oracle cannot form sums/products of explicit inverses"""
    if isinstance(tree, str):
        return True
    if tree[0] in UNARY:
        return _oracle_ok(tree[1])
    return all(_oracle_ok(t) and not _inverted(t) for t in tree[1:])


def scenarios(tier, seed):
    rng = random.Random(seed)
    out = []
    for kind in ("single", "prod", "multi"):
        lv = all_trees(kind, 2)
        d0 = [t for t in lv[0]]
        d1 = [t for t in lv[1] if _oracle_ok(t)]
        d2 = [t for t in lv[2] if _oracle_ok(t)]
        n1 = {"quick": 24, "thorough": len(d1)}[tier]
        n2 = {"quick": 12, "thorough": 300}[tier]
        pick = d0 + rng.sample(d1, min(n1, len(d1))) + rng.sample(d2, min(n2, len(d2)))
        for t in pick:
            for cplx in (False, True):
                out.append(("tree", {"tree": t, "kind": kind, "cplx": cplx}))
    # a few hand-written trees that exercise the simplification special cases
    special = [
        ["sub", ["neg", "scal"], ["neg", "diag"]],
        ["add", ["sub", "scal", "diag"], ["neg", "scal2"]],
        ["inv", ["chain", ["scale", "diag"], ["chain", "scal", ["adj", "diag2"]]]],
        ["adj", ["inv", ["chain", "diag", ["chain", "scal", "diag2"]]]],
        ["inv", ["adj", ["chain", ["adj", "diag"], "scal"]]],
        ["sub", ["chain", "mat", "diag"], ["chain", "diag", "mat"]],
        ["add", ["adj", "sand"], ["scale", "sand"]],
        ["sub", "diag", "diag"],
        ["chain", ["sub", "scal", "scal"], "mat"],
    ]
    for t in (["chain", "blkp", "blk"], ["chain", "blk2", "blkp"], ["add", "blkp", "blk"], ["sub", "blk", "blkp"],
              ["chain", "blkp", "blkp"], ["chain", "blk2", "mdiag"], ["chain", "blk2", "blk"]):
        for cplx in (False, True):
            out.append(("tree", {"tree": t, "kind": "multi", "cplx": cplx}))
    # every mode-flip of a diagonal met by each merging routine (_scale, _add,
    # _combine_prod, _combine_sum) and non-commuting chains under every flip
    for fl in ("adj", "inv", "adjinv"):
        w = lambda t: ["adj", ["inv", t]] if fl == "adjinv" else [fl, t]
        fam = [["chain", w("diag"), "diag2"], ["chain", "diag2", w("diag")], ["add", w("diag"), "diag2"],
               ["sub", "diag2", w("diag")], ["scale", w("diag")], ["add", w("diag"), "scal"],
               ["sub", "scal", w("diag")], ["chain", "scal", w("diag")],
               w(["chain", "dense", "diag"]), w(["chain", "diag", ["chain", "dense", "scal"]]),
               w(["chain", ["adj", "dense"], ["inv", "diag2"]])]
        special += fam
    for t in special:
        assert _oracle_ok(t), t
        for cplx in (False, True):
            out.append(("tree", {"tree": t, "kind": "single", "cplx": cplx}))
    if tier == "thorough":
        lv = all_trees("prod22", 1)
        for t in lv[0] + [t for t in lv[1] if _oracle_ok(t)]:
            out.append(("tree", {"tree": t, "kind": "prod22", "cplx": False}))
    return out


HARNESSES = {"tree": h_tree}

META = {
    "level": "other",
    "explanation": "Real nifty.cl operator-algebra code (SumOperator/ChainOperator.make+simplify, OperatorAdapter, "
                   "DiagonalOperator trafo logic, ScalingOperator, SandwichOperator, BlockDiagonalOperator, "
                   "MatrixProductOperator, NullOperator) executed on NumPy object arrays of z3 real/complex scalars; "
                   "every `==0/==1/.imag==0` test inside simplify forks the path.  Per expression tree and advertised "
                   "mode the solver (z3 nlsat) must refute `apply(x,mode) != M_mode x` for an independently built dense "
                   "matrix of symbolic entries (inverse modes through the defining equation M y = x).",
    "functions_encoded": [
        "nifty.cl.operators.linear_operator.LinearOperator.{__add__,__sub__,__matmul__,adjoint,inverse,_flip_modes,capability}",
        "nifty.cl.operators.sum_operator.SumOperator.{make,simplify,apply}",
        "nifty.cl.operators.chain_operator.ChainOperator.{make,simplify,_flip_modes,apply}",
        "nifty.cl.operators.operator_adapter.OperatorAdapter.{__init__,_flip_modes,apply}",
        "nifty.cl.operators.diagonal_operator.DiagonalOperator.{__init__,_get_actual_diag,_scale,_add,_combine_prod,_combine_sum,_flip_modes,apply}",
        "nifty.cl.operators.scaling_operator.ScalingOperator.{apply,_flip_modes}",
        "nifty.cl.operators.sandwich_operator.SandwichOperator.{make,apply}",
        "nifty.cl.operators.block_diagonal_operator.BlockDiagonalOperator.{apply,_combine_chain,_combine_sum}",
        "nifty.cl.operators.matrix_product_operator.MatrixProductOperator.apply",
        "nifty.cl.operators.operator.Operator.{scale,__neg__}",
    ],
    "bounds": {"tree_depth": 2, "pixels": "2 (single), 2x2 (product domain), 1+2 (multi-domain)",
               "modes": "all advertised among TIMES, ADJOINT, INVERSE, ADJOINT_INVERSE",
               "number fields": "real and complex"},
    "stubs": shims_cl.STUBS[:4],
    "outside": ["trees deeper than 2 (3 for hand-written ones)", "domains with more than 4 pixels",
                "FFT/Hartley leaves (see C09)", "draw_sample (C13)", "float32, device handling"],
    "assumptions": ["every divisor met on a path is non-zero (the inverse exists)"],
}
