"""C13 -- Gaussian sampling from covariance operators has the right covariance (front end A).

The random generator is the environment: ``nifty.cl.random.Random.normal`` is
replaced by a stub with the documented contract ``mean + std * xi`` where xi is
white noise handed in by the harness.  A sample is then a function of xi; the
harness checks that it is *linear* in xi (symbolic xi) and reads off its matrix
T column by column (xi = unit vectors), so that the covariance of the sample is
T T^H.  z3 decides T T^H == A (or A^-1) for ALL operator data."""
import numpy as np

from .. import shims_cl
from .. import symcore as sc
from ..clcommon import ift, field_of, flat_of, setup_cl, unflat, vdot_flat

U = ift.UnstructuredDomain
N = 2


class Noise:
    """white-noise source behind the Random.normal stub"""
    cur = None

    def __init__(self, mode, B=None, unit=None, cplx=False):
        self.mode, self.B, self.unit, self.cplx = mode, B, unit, cplx
        self.count = 0          # number of real white-noise components handed out
        self.syms = []

    def take(self, shape, complex_out):
        n = int(np.prod(shape)) if len(shape) else 1
        parts = 2 if complex_out else 1
        out = []
        for _ in range(parts):
            a = np.empty(n, dtype=object if self.mode == "sym" else np.float64)
            for i in range(n):
                k = self.count
                self.count += 1
                if self.mode == "sym":
                    v = self.B.reals(f"xi{k}")
                    self.syms.append(v)
                elif self.mode == "unit":
                    v = 1.0 if k == self.unit else 0.0
                else:
                    v = 0.0
                a[i] = v
            out.append(a.reshape(shape))
        return out


def setup():
    setup_cl()
    import nifty.cl.random as rnd
    import nifty.cl.operators.scaling_operator as so
    import nifty.cl.operators.diagonal_operator as do
    import nifty.cl.minimization.conjugate_gradient as cg
    import nifty.cl.minimization.iteration_controllers as icm
    import nifty.cl.field as fld
    for m in (so, do, cg, icm):
        shims_cl.proxy_np(m)

    def normal(dtype, shape, mean=0., std=1.):
        src = Noise.cur
        if src is None:
            raise sc.HarnessError("Random.normal called outside a Noise context")
        cplx = (dtype is object or dtype == np.dtype(object)) and shims_cl.COMPLEX_MODE[0] or \
            (dtype is not object and np.issubdtype(np.dtype(dtype), np.complexfloating))
        parts = src.take(tuple(shape), cplx)
        sym = src.mode == "sym" or shims_cl.is_sym(std) or shims_cl.is_sym(mean)
        if cplx:
            re = parts[0] * std + (mean.real if hasattr(mean, "real") else mean)
            im = parts[1] * std + (mean.imag if hasattr(mean, "imag") else 0)
            if sym or re.dtype == object or im.dtype == object:
                x = np.empty(shape, dtype=object)
                for idx in np.ndindex(*shape):
                    x[idx] = sc.SC(sc._lift(re[idx]), sc._lift(im[idx]))
                return x.view(sc.SymArr)
            return (re + 1j * im).astype(np.complex128)
        x = parts[0] * std + mean
        if x.dtype == object:
            return x.view(sc.SymArr)
        return x.astype(np.float64)
    rnd.Random.normal = staticmethod(normal)


def _dt(B, cplx):
    if B.mode == "sym":
        return object
    return np.complex128 if cplx else np.float64


def draw(op, from_inverse, src):
    Noise.cur = src
    try:
        return op.draw_sample(from_inverse=from_inverse)
    finally:
        Noise.cur = None


def sample_matrix(B, make_op, from_inverse, cplx):
    """-> (T as list of columns (flat complex/real lists), n_noise).  Also checks linearity in xi."""
    op = make_op()
    src = Noise("sym", B, cplx=cplx)
    s_sym = flat_of(draw(op, from_inverse, src))
    nn = src.count
    cols = []
    for j in range(nn):
        cols.append(flat_of(draw(make_op(), from_inverse, Noise("unit", unit=j, cplx=cplx))))
    zero = flat_of(draw(make_op(), from_inverse, Noise("zero", cplx=cplx)))
    B.eq("zero noise gives the zero sample (zero mean)", zero, np.zeros(len(zero)))
    lin = []
    for i in range(len(s_sym)):
        acc = 0
        for j in range(nn):
            acc = acc + cols[j][i] * src.syms[j]
        lin.append(acc)
    B.eq("sample is linear in the white noise", s_sym, lin)
    return cols, nn


def cov_from(cols, n, pseudo=False):
    """sum_j T_j T_j^H  (n x n)  -- or the pseudo-covariance sum_j T_j T_j^T"""
    C = np.zeros((n, n), dtype=object)
    for a in range(n):
        for b in range(n):
            acc = 0
            for col in cols:
                u, v = col[a], col[b]
                acc = acc + u * (v if pseudo else (v.conjugate() if hasattr(v, "conjugate") else v))
            C[a, b] = acc
    return C


def check_cov(B, label, cols, A, cplx):
    n = A.shape[0]
    if not cplx:
        B.eq(label, cov_from(cols, n), A)
    else:
        # documented convention (Field.from_random): real and imaginary part of the white noise each have unit
        # variance, so E[x x^H] = 2 A and the sample is circular (E[x x^T] = 0)
        B.eq(label + " (complex: E[x x^H] == 2A)", cov_from(cols, n), 2 * A)
        B.eq(label + " (complex: circular, E[x x^T] == 0)", cov_from(cols, n, pseudo=True), np.zeros((n, n)))


def _inv2(M):
    det = M[0, 0] * M[1, 1] - M[0, 1] * M[1, 0]
    return np.array([[M[1, 1] / det, -M[0, 1] / det], [-M[1, 0] / det, M[0, 0] / det]], dtype=object)


# --------------------------------------------------------------------------


def h_scaling(B, cplx, inv):
    """ScalingOperator: covariance on the accepting paths, refusal exactly for non-PD factors"""
    with shims_cl.complex_mode(cplx):
        dom = ift.DomainTuple.make(U(N))
        s = B.reals("s")
        mk = lambda: ift.ScalingOperator(dom, s, _dt(B, cplx))
        try:
            cols, _ = sample_matrix(B, mk, inv, cplx)
        except ValueError:
            B.holds("ScalingOperator refuses only non-positive-definite factors", (s < 0) | ((s == 0) & inv) if B.mode == "sym"
                    else bool(s < 0 or (s == 0 and inv)))
            return
        B.holds("ScalingOperator samples only for positive (semi-)definite factors", (s > 0) | ((s == 0) & (not inv))
                if B.mode == "sym" else bool(s > 0 or (s == 0 and not inv)))
        A = np.eye(N, dtype=object) * (1 / s if inv else s)
        check_cov(B, "ScalingOperator: T T^H == " + ("A^-1" if inv else "A"), cols, A, cplx)


def h_scaling_refuse(B, what):
    dom = ift.DomainTuple.make(U(N))
    if what == "nodtype":
        s = B.reals("s")
        B.assume(s > 0)
        op = ift.ScalingOperator(dom, s)
        B.raises("no sampling dtype: refuses to sample", RuntimeError, lambda: draw(op, False, Noise("zero")))
    elif what == "complex":
        with shims_cl.complex_mode(True):
            c = B.complexes("c")
            B.assume(c.imag != 0)
            op = ift.ScalingOperator(dom, c, _dt(B, True))
            B.raises("complex factor: refuses to sample", ValueError, lambda: draw(op, False, Noise("zero", cplx=True)))
            B.raises("complex factor: refuses to sample from the inverse", ValueError, lambda: draw(op, True, Noise("zero", cplx=True)))


def _flip(op, flip):
    if flip == "adj":
        return op.adjoint
    if flip == "inv":
        return op.inverse
    if flip == "adjinv":
        return op.adjoint.inverse
    if flip == "invadj":
        return op.inverse.adjoint
    return op


def h_diag(B, cplx, inv, flip, prod=False):
    with shims_cl.complex_mode(cplx):
        if prod:
            dom = ift.DomainTuple.make((U(2), U(2)))
            d0 = B.reals("d", (2,))
            B.assume_all([t > 0 for t in d0])
            mk = lambda: _flip(ift.DiagonalOperator(field_of(ift.DomainTuple.make(U(2)), d0), dom, 1, sampling_dtype=_dt(B, cplx)), flip)
            d = np.array([d0[0], d0[1], d0[0], d0[1]], dtype=object)
        else:
            dom = ift.DomainTuple.make(U(N))
            d = B.reals("d", (N,))
            B.assume_all([t > 0 for t in d])
            mk = lambda: _flip(ift.DiagonalOperator(field_of(dom, d), sampling_dtype=_dt(B, cplx)), flip)
        cols, _ = sample_matrix(B, mk, inv, cplx)
        eff_inv = inv ^ (flip in ("inv", "adjinv", "invadj"))
        A = np.diag([(1 / t if eff_inv else t) for t in d])
        check_cov(B, f"DiagonalOperator[{flip}]: T T^H == " + ("A^-1" if inv else "A"), cols, A, cplx)


def h_diag_refuse(B, what):
    dom = ift.DomainTuple.make(U(N))
    if what == "negative":
        d = B.reals("d", (N,))
        B.assume(d[0] < 0)
        B.assume(d[1] > 0)
        op = ift.DiagonalOperator(field_of(dom, d), sampling_dtype=_dt(B, False))
        B.raises("negative diagonal entry: refuses to sample", ValueError, lambda: draw(op, False, Noise("zero")))
        B.raises("negative diagonal entry: refuses to sample from the inverse", ValueError, lambda: draw(op, True, Noise("zero")))
    elif what == "zero_inverse":
        d = B.reals("d", (N,))
        B.assume(d[0] == 0)
        B.assume(d[1] > 0)
        op = ift.DiagonalOperator(field_of(dom, d), sampling_dtype=_dt(B, False))
        B.raises("zero diagonal entry: refuses to sample from the inverse", ValueError, lambda: draw(op, True, Noise("zero")))
        B.raises("zero diagonal entry, inverse view: refuses to sample", ValueError, lambda: draw(op.inverse, False, Noise("zero")))
    elif what == "complex":
        with shims_cl.complex_mode(True):
            d = B.complexes("d", (N,))
            B.assume(d[0].imag != 0)
            op = ift.DiagonalOperator(field_of(dom, d), sampling_dtype=_dt(B, True))
            B.raises("complex diagonal: refuses to sample", ValueError, lambda: draw(op, False, Noise("zero", cplx=True)))
    elif what == "nodtype":
        d = B.reals("d", (N,))
        B.assume_all([t > 0 for t in d])
        op = ift.DiagonalOperator(field_of(dom, d))
        B.raises("no sampling dtype: refuses to sample", RuntimeError, lambda: draw(op, False, Noise("zero")))


def h_sandwich_nonnormal(B, inv):
    """SandwichOperator whose bun is invertible but NOT normal (bun bun^H != bun^H bun): D1 HT^-1 D2 HT on a 2-pixel grid;
    the Hartley kernels are the DFT contracts of C09"""
    from .c09 import setup as setup09
    setup09()
    dom = ift.DomainTuple.make(ift.RGSpace(2, distances=0.5))
    d = B.reals("d", (2,))
    p, q = B.reals("p", (2,)), B.reals("q", (2,))
    B.assume_all([t > 0 for t in d])
    B.assume_all([t != 0 for t in list(p) + list(q)])
    HT = ift.HartleyOperator(dom)

    def bun_op():
        return ift.makeOp(field_of(dom, p)) @ HT.inverse @ ift.makeOp(field_of(HT.target, q)) @ HT

    def mk():
        cheese = ift.DiagonalOperator(field_of(dom, d), sampling_dtype=_dt(B, False))
        return ift.SandwichOperator.make(bun_op(), cheese)
    bo = bun_op()
    Mb = np.empty((2, 2), dtype=object)
    for k in range(2):
        e = np.zeros(2)
        e[k] = 1.
        col = np.asarray(bo(field_of(dom, e.astype(object) if B.mode == "sym" else e)).val.val, dtype=object).reshape(-1)
        Mb[:, k] = col
    A = Mb.T @ np.diag(d) @ Mb
    cols, _ = sample_matrix(B, mk, inv, False)
    check_cov(B, "SandwichOperator[non-normal invertible bun]: T T^H == " + ("A^-1" if inv else "A"), cols, _inv2(A) if inv else A, False)


def h_sandwich(B, bun, inv, cplx=False, outer=None):
    with shims_cl.complex_mode(cplx):
        dom = ift.DomainTuple.make(U(N))
        d = B.reals("d", (N,))
        B.assume_all([t > 0 for t in d])
        m = B.values("m", (N, N), cplx)
        e = B.reals("e", (N,))
        s = B.reals("s")

        def mk():
            cheese = ift.DiagonalOperator(field_of(dom, d), sampling_dtype=_dt(B, cplx))
            if bun == "matrix":
                b = ift.MatrixProductOperator(dom, m)
            elif bun == "diag":
                b = ift.DiagonalOperator(field_of(dom, e))
            elif bun == "scaling":
                b = ift.ScalingOperator(dom, s)
            elif bun == "matrix_diag":
                b = ift.MatrixProductOperator(dom, m) @ ift.DiagonalOperator(field_of(dom, e))
            op = ift.SandwichOperator.make(b, cheese)
            return _flip(op, outer) if outer else op
        Mb = {"matrix": m, "diag": np.diag(e), "scaling": np.eye(N, dtype=object) * s,
              "matrix_diag": m @ np.diag(e)}[bun]
        A = np.conjugate(Mb).T @ np.diag(d) @ Mb
        want_inverse = inv ^ (outer in ("inv", "adjinv", "invadj"))
        invertible_bun = bun in ("diag", "scaling")
        if bun == "diag":
            B.assume_all([t != 0 for t in e])
        if bun == "scaling":
            B.assume(s != 0)
        if want_inverse and not invertible_bun:
            B.raises("sandwich with a non-invertible bun refuses to sample from the inverse", NotImplementedError,
                     lambda: draw(mk(), inv, Noise("zero", cplx=cplx)))
            return
        cols, _ = sample_matrix(B, mk, inv, cplx)
        if want_inverse:
            A = np.diag([1 / (A[i, i]) for i in range(N)])     # diagonal buns only
        check_cov(B, f"SandwichOperator[{bun}]: T T^H == " + ("A^-1" if want_inverse else "A"), cols, A, cplx)


def h_block(B, inv, with_none, cplx=False):
    with shims_cl.complex_mode(cplx):
        da, db = ift.DomainTuple.make(U(1)), ift.DomainTuple.make(U(2))
        md = ift.MultiDomain.make({"a": da, "b": db})
        s = B.reals("s")
        d = B.reals("d", (2,))
        B.assume(s > 0)
        B.assume_all([t > 0 for t in d])

        def mk():
            ops = {"b": ift.DiagonalOperator(field_of(db, d), sampling_dtype=_dt(B, cplx))}
            if with_none:
                return ift.BlockDiagonalOperator(md, ops)
            ops["a"] = ift.ScalingOperator(da, s, _dt(B, cplx))
            return ift.BlockDiagonalOperator(md, ops)
        if with_none:
            # a missing block is the identity but carries no sampling dtype: the operator cannot represent a covariance
            B.raises("block-diagonal operator with a missing (identity) block refuses to sample", RuntimeError,
                     lambda: draw(mk(), inv, Noise("zero", cplx=cplx)))
            return
        cols, _ = sample_matrix(B, mk, inv, cplx)
        diag = [s, d[0], d[1]]
        A = np.diag([(1 / t if inv else t) for t in diag])
        check_cov(B, "BlockDiagonalOperator: T T^H == " + ("A^-1" if inv else "A"), cols, A, cplx)


def h_makeop_multi(B, inv):
    da, db = ift.DomainTuple.make(U(1)), ift.DomainTuple.make(U(2))
    md = ift.MultiDomain.make({"a": da, "b": db})
    a = B.reals("a", (1,))
    d = B.reals("d", (2,))
    B.assume_all([t > 0 for t in list(a) + list(d)])
    mk = lambda: ift.makeOp(ift.MultiField.from_dict({"a": field_of(da, a), "b": field_of(db, d)}, md), sampling_dtype=_dt(B, False))
    cols, _ = sample_matrix(B, mk, inv, False)
    diag = [a[0], d[0], d[1]]
    check_cov(B, "makeOp(MultiField): T T^H == " + ("A^-1" if inv else "A"), cols, np.diag([(1 / t if inv else t) for t in diag]), False)


def h_sum(B, kind, inv):
    dom = ift.DomainTuple.make(U(N))
    d = B.reals("d", (N,))
    e = B.reals("e", (N,))
    m = B.reals("m", (N, N))
    B.assume_all([t > 0 for t in list(d) + list(e)])

    def mk():
        D = ift.DiagonalOperator(field_of(dom, d), sampling_dtype=_dt(B, False))
        S = ift.SandwichOperator.make(ift.MatrixProductOperator(dom, m), ift.DiagonalOperator(field_of(dom, e), sampling_dtype=_dt(B, False)))
        if kind == "diag+sandwich":
            return D + S
        if kind == "sandwich+sandwich":
            S2 = ift.SandwichOperator.make(ift.MatrixProductOperator(dom, m.T.copy()), ift.DiagonalOperator(field_of(dom, d), sampling_dtype=_dt(B, False)))
            return S + S2
        raise ValueError(kind)
    if inv:
        B.raises("sum of operators refuses to sample from the inverse", NotImplementedError, lambda: draw(mk(), True, Noise("zero")))
        return
    cols, _ = sample_matrix(B, mk, False, False)
    A = np.diag(d) + m.T @ np.diag(e) @ m if kind == "diag+sandwich" else m.T @ np.diag(e) @ m + m @ np.diag(d) @ m.T
    check_cov(B, f"SumOperator[{kind}]: T T^H == A (independent draws add)", cols, A, False)


def h_enabler(B, n, start_from_zero):
    """SamplingEnabler: numerical inversion by the real ConjugateGradient (exact termination after n steps)"""
    dom = ift.DomainTuple.make(U(n))
    p = B.reals("p", (n,))
    l = B.reals("l", (n,))
    B.assume_all([t > 0 for t in list(p) + list(l)])

    def mk():
        P = ift.DiagonalOperator(field_of(dom, p), sampling_dtype=_dt(B, False))
        m = B.reals("m", (n, n)) if n == 1 else None
        if n == 1:
            L = ift.SandwichOperator.make(ift.MatrixProductOperator(dom, m), ift.DiagonalOperator(field_of(dom, l), sampling_dtype=_dt(B, False)))
        else:
            # a diagonal likelihood that is *not* merged with the prior into one diagonal: wrap in a sandwich with a diagonal bun
            L = ift.SandwichOperator.make(ift.DiagonalOperator(field_of(dom, B.reals("m", (n,)))), ift.DiagonalOperator(field_of(dom, l), sampling_dtype=_dt(B, False)))
        ic = ift.GradientNormController(iteration_limit=n, tol_abs_gradnorm=0.)
        return ift.SamplingEnabler(L, P, ic, start_from_zero=start_from_zero)
    cols, _ = sample_matrix(B, mk, True, False)
    if n == 1:
        m = B.reals("m", (1, 1))
        A = np.array([[1 / (p[0] + m[0, 0] * m[0, 0] * l[0])]], dtype=object)
    else:
        mm = B.reals("m", (n,))
        A = np.diag([1 / (p[i] + mm[i] * mm[i] * l[i]) for i in range(n)])
    check_cov(B, "SamplingEnabler: T T^H == (likelihood + prior)^-1", cols, A, False)


def scenarios(tier, seed):
    out = []
    for cplx in (False, True):
        for inv in (False, True):
            out.append(("scaling", {"cplx": cplx, "inv": inv}))
            for flip in ("none", "adj", "inv", "adjinv", "invadj"):
                out.append(("diag", {"cplx": cplx, "inv": inv, "flip": flip}))
            out.append(("diag", {"cplx": cplx, "inv": inv, "flip": "none", "prod": True}))
            out.append(("block", {"inv": inv, "with_none": False, "cplx": cplx}))
            out.append(("block", {"inv": inv, "with_none": True, "cplx": cplx}))
    for what in ("nodtype", "complex"):
        out.append(("scaling_refuse", {"what": what}))
    for what in ("negative", "zero_inverse", "complex", "nodtype"):
        out.append(("diag_refuse", {"what": what}))
    for bun in ("matrix", "diag", "scaling", "matrix_diag"):
        for inv in (False, True):
            out.append(("sandwich", {"bun": bun, "inv": inv}))
    out.append(("sandwich_nonnormal", {"inv": True}))
    out.append(("sandwich_nonnormal", {"inv": False}))
    out.append(("sandwich", {"bun": "matrix", "inv": False, "cplx": True}))
    out.append(("sandwich", {"bun": "diag", "inv": True, "cplx": True}))
    for outer in ("inv", "adj", "adjinv", "invadj"):      # the generic OperatorAdapter, also with both bits set
        for inv in (False, True):
            out.append(("sandwich", {"bun": "diag", "inv": inv, "outer": outer}))
            out.append(("sandwich", {"bun": "matrix", "inv": inv, "outer": outer}))
    for inv in (False, True):
        out.append(("makeop_multi", {"inv": inv}))
        for kind in ("diag+sandwich", "sandwich+sandwich"):
            out.append(("sum", {"kind": kind, "inv": inv}))
    out.append(("enabler", {"n": 1, "start_from_zero": False}))
    out.append(("enabler", {"n": 1, "start_from_zero": True}))
    # SamplingEnabler with n = 2 (CG on a symbolic 2x2 system inside the sampler) does not finish within 20 minutes: not claimed
    return out


HARNESSES = {"scaling": h_scaling, "scaling_refuse": h_scaling_refuse, "diag": h_diag, "diag_refuse": h_diag_refuse,
             "sandwich": h_sandwich, "sandwich_nonnormal": h_sandwich_nonnormal, "block": h_block, "makeop_multi": h_makeop_multi, "sum": h_sum, "enabler": h_enabler}
OPTS = {"quick": {"max_paths": 64}, "thorough": {"max_paths": 128, "budget_s": 1200}}

META = {
    "level": "other",
    "explanation": "The RNG is a nondeterministic stub (Random.normal returns mean + std*xi with harness-supplied white noise xi); "
                   "the real draw_sample implementations run on symbolic operator data.  Each sample is shown to be linear in xi "
                   "(symbolic xi) with zero mean, its matrix T is read off with unit vectors, and z3 refutes T T^H != A (or A^-1 "
                   "for from_inverse / inverse views) for ALL positive operator data, real and complex sampling dtypes (complex: "
                   "real and imaginary parts each carry the covariance, the convention documented in Field.from_random).  "
                   "Refusal clauses: no sampling dtype, negative/complex diagonal or factor, zero entries for inverse draws, "
                   "inverse of a sandwich with a non-invertible bun, inverse of a sum must raise; ScalingOperator's accept/refuse "
                   "decision is checked on every path of a fully symbolic factor.  SamplingEnabler runs the real ConjugateGradient "
                   "with iteration limit n (exact termination).",
    "functions_encoded": ["nifty.cl.operators.scaling_operator.ScalingOperator.{_get_fct,draw_sample}",
                          "nifty.cl.operators.diagonal_operator.DiagonalOperator.{process_sample,draw_sample,_flip_modes}",
                          "nifty.cl.operators.sandwich_operator.SandwichOperator.{make,draw_sample}",
                          "nifty.cl.operators.block_diagonal_operator.BlockDiagonalOperator.draw_sample",
                          "nifty.cl.operators.operator_adapter.OperatorAdapter.draw_sample",
                          "nifty.cl.operators.sum_operator.SumOperator.draw_sample",
                          "nifty.cl.operators.sampling_enabler.SamplingEnabler.{special_draw_sample,draw_sample}",
                          "nifty.cl.minimization.conjugate_gradient.ConjugateGradient.__call__ (n = 1)",
                          "nifty.cl.field.Field.from_random, nifty.cl.sugar.from_random"],
    "bounds": {"pixels": "2 (3 for block-diagonal, 4 for partial-space diagonal)", "SamplingEnabler": "n = 1 (n = 2 does not finish and is not claimed)"},
    "stubs": shims_cl.STUBS[:8] + ["nifty.cl.random.Random.normal: returns mean + std*xi for harness-supplied white noise xi (symbolic, unit vectors or zero); "
                                   "the statistical quality of NumPy's generator is outside the claim"],
    "outside": ["statistical quality of the generator", "SamplingEnabler beyond n = 1", "float32 sampling dtypes"],
    "assumptions": ["diagonal entries / factors positive where a covariance is expected"],
}
