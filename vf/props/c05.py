"""C05 -- operator-tree optimisation preserves semantics (front end A).

The operator DAG is built with *concrete* float leaf data, so the real
optimise_operator (deepcopy, tree surgery, its own one-sample self-check) runs
exactly as in production.  Afterwards the original and the optimised operator
are both executed on symbolic inputs and the solver decides equality of value,
Jacobian and adjoint Jacobian for ALL inputs -- the quantifier the built-in
check samples once (and it never compares Jacobians)."""
import random

import numpy as np

from .. import shims_cl
from ..clcommon import ift, field_of, flat_of, setup_cl, unflat, vdot_flat

N = 2
U = ift.UnstructuredDomain


def setup():
    setup_cl()
    import nifty.cl.pointwise as pw
    shims_cl.proxy_np(pw)


_D = None


def d1():
    global _D
    if _D is None:
        _D = ift.DomainTuple.make(U(N))
    return _D


W = {"w1": [1.5, -0.5], "w2": [0.25, 2.0], "w3": [-1.0, 3.0]}
FNS = ("exp", "tanh", "sin", "sigmoid", "cos", "sinh")


class _Id(ift.Operator):
    """a non-linear identity (like the CountingOp of the repository's test): keeps chains as _OpChain"""

    def __init__(self, domain):
        self._domain = self._target = ift.sugar.makeDomain(domain)

    def apply(self, x):
        self._check_input(x)
        return x


def make_dag(prog):
    """prog: list of [name, kind, args...]; the last entry is the result.
    Shared names are shared Python objects (the optimiser compares by id)."""
    env = {}
    for ent in prog:
        name, kind, args = ent[0], ent[1], ent[2:]
        if kind == "key":           # plain input key
            op = ift.ducktape(d1(), None, args[0])
        elif kind == "leaf":        # f(w * x[key]) as an _OpChain
            key, fn, w = args
            op = (ift.makeOp(ift.makeField(d1(), np.array(W[w]))) @ ift.ducktape(d1(), None, key)).ptw(fn)
        elif kind == "nl":          # nonlinear identity @ ref   (forces _OpChain)
            op = _Id(d1()) @ env[args[0]]
        elif kind == "scale":       # ScalingOperator(c) @ nlid @ ref
            op = ift.ScalingOperator(d1(), float(args[1])) @ (_Id(d1()) @ env[args[0]])
        elif kind == "diag":
            op = ift.makeOp(ift.makeField(d1(), np.array(W[args[1]]))) @ (_Id(d1()) @ env[args[0]])
        elif kind == "ptw":
            op = env[args[0]].ptw(args[1])
        elif kind == "shared_chain":    # the SAME operator object applied to a ref
            op = env[args[0]] @ env[args[1]]
        elif kind == "opobj":       # a stand-alone operator object to be shared by identity
            what = args[0]
            if what == "scale3":
                op = ift.ScalingOperator(d1(), 3.) @ _Id(d1())
            elif what == "tanh":
                op = _Id(d1()).ptw("tanh")
            elif what == "diagw2":
                op = ift.makeOp(ift.makeField(d1(), np.array(W["w2"]))) @ _Id(d1())
            else:
                raise ValueError(what)
        elif kind in ("add", "mul", "sub"):
            a, b = env[args[0]], env[args[1]]
            op = a + b if kind == "add" else (a * b if kind == "mul" else a - b)
        elif kind == "left":
            op = env[args[0]].ducktape_left(args[1])
        else:
            raise ValueError(kind)
        env[name] = op
    return env[prog[-1][0]]


def h_opt(B, prog):
    with B.setup():
        op = make_dag(prog)
        dom, tgt = op.domain, op.target
    opt = ift.optimise_operator(op)
    B.is_true("optimised operator has the same domain", opt.domain == dom and (opt.domain is dom or not isinstance(dom, ift.MultiDomain) or set(opt.domain.keys()) == set(dom.keys())))
    B.is_true("optimised operator has the same target", opt.target == tgt)
    keys = list(dom.keys())
    xs = {k: B.reals("x" + k, (N,)) for k in keys}
    dxs = {k: B.reals("d" + k, (N,)) for k in keys}
    x = ift.MultiField.from_dict({k: field_of(dom[k], xs[k]) for k in keys}, dom)
    dx = ift.MultiField.from_dict({k: field_of(dom[k], dxs[k]) for k in keys}, dom)
    B.eq("optimised(x) == original(x)", flat_of(opt(x)), flat_of(op(x)))
    l0 = op(ift.Linearization.make_var(x))
    l1 = opt(ift.Linearization.make_var(x))
    B.eq("Linearization value", flat_of(l1.val), flat_of(l0.val))
    B.eq("Jacobian(dx)", flat_of(l1.jac(dx)), flat_of(l0.jac(dx)))
    y = B.reals("y", (tgt.size,))
    yf = unflat(tgt, y)
    B.eq("adjoint Jacobian(y)", flat_of(l1.jac.adjoint_times(yf)), flat_of(l0.jac.adjoint_times(yf)))
    # the original operator must still be usable and unchanged after optimisation (deepcopy inside)
    B.eq("original unchanged by optimisation", flat_of(op(x)), flat_of(make_dag(prog)(x)))


# --------------------------------------------------------------------------

HAND = [
    # same leaf twice in a product / sum
    [["l", "leaf", "a", "exp", "w1"], ["t", "mul", "l", "l"]],
    [["l", "leaf", "a", "tanh", "w1"], ["t", "add", "l", "l"]],
    [["l", "leaf", "a", "exp", "w1"], ["m", "leaf", "b", "sin", "w2"], ["p", "mul", "l", "m"], ["t", "add", "p", "l"]],
    # same subtree twice
    [["l", "leaf", "a", "exp", "w1"], ["m", "leaf", "b", "tanh", "w2"], ["s", "add", "l", "m"], ["t", "mul", "s", "s"]],
    [["l", "leaf", "a", "exp", "w1"], ["m", "leaf", "b", "tanh", "w2"], ["s", "mul", "l", "m"], ["u", "add", "s", "s"],
     ["t", "mul", "u", "u"]],
    # layering between two levels (structure of the repository's test)
    [["k", "key", "a"], ["c1", "nl", "k"], ["o1", "mul", "c1", "c1"], ["o2", "diag", "o1", "w2"], ["o3", "scale", "o2", 3],
     ["s1", "add", "o3", "o2"], ["s2", "add", "s1", "o3"], ["s3", "add", "s2", "o2"], ["d", "add", "s3", "s3"],
     ["o4", "scale", "d", 1.5], ["t", "add", "o4", "o4"]],
    # shared operator object applied to different inputs (must NOT be merged into one result)
    [["f", "opobj", "tanh"], ["ka", "key", "a"], ["kb", "key", "b"], ["u", "shared_chain", "f", "ka"],
     ["v", "shared_chain", "f", "kb"], ["t", "mul", "u", "v"]],
    [["f", "opobj", "scale3"], ["l", "leaf", "a", "exp", "w1"], ["m", "leaf", "b", "sin", "w3"], ["u", "shared_chain", "f", "l"],
     ["v", "shared_chain", "f", "m"], ["s", "add", "u", "v"], ["t", "mul", "s", "u"]],
    # chains that agree on a prefix only
    [["l", "leaf", "a", "exp", "w1"], ["p", "ptw", "l", "tanh"], ["q", "ptw", "l", "sin"], ["t", "add", "p", "q"]],
    [["l", "leaf", "a", "exp", "w1"], ["p", "ptw", "l", "tanh"], ["q", "ptw", "l", "sin"], ["r", "mul", "p", "q"],
     ["t", "add", "r", "l"]],
    [["l", "leaf", "a", "sigmoid", "w2"], ["p", "scale", "l", 2], ["q", "diag", "l", "w3"], ["r", "mul", "p", "q"], ["t", "sub", "r", "p"]],
    # subtraction and three keys
    [["l", "leaf", "a", "exp", "w1"], ["m", "leaf", "b", "tanh", "w2"], ["n", "leaf", "c", "sin", "w3"], ["s", "mul", "l", "m"],
     ["u", "sub", "s", "n"], ["v", "mul", "u", "s"], ["t", "add", "v", "u"]],
    # multi-key target
    [["l", "leaf", "a", "exp", "w1"], ["m", "leaf", "b", "tanh", "w2"], ["s", "mul", "l", "m"], ["u", "left", "s", "u"],
     ["q", "add", "s", "l"], ["v", "left", "q", "v"], ["t", "add", "u", "v"]],
    # a chain object used twice that shares only its tail with another leaf: b = 3*g(a); (b + g(a)) + b
    [["k", "key", "a"], ["o1", "mul", "k", "k"], ["o2", "diag", "o1", "w2"], ["o3", "scale", "o2", 3], ["s1", "add", "o3", "o2"],
     ["t", "add", "s1", "o3"]],
    # a repeated node that also occurs inside another repeated node
    [["l0", "leaf", "c", "exp", "w1"], ["n0", "sub", "l0", "l0"], ["n1", "mul", "n0", "n0"], ["n2", "add", "n1", "n1"],
     ["n3", "mul", "n0", "n0"], ["t", "add", "n3", "n2"]],
    [["l0", "leaf", "b", "sinh", "w2"], ["n0", "sub", "l0", "l0"], ["n1", "add", "n0", "n0"], ["n2", "sub", "n1", "l0"],
     ["n3", "add", "n0", "l0"], ["n4", "add", "n1", "n1"], ["n5", "ptw", "n0", "sigmoid"], ["t", "mul", "n5", "n4"]],
    # nothing to optimise
    [["l", "leaf", "a", "exp", "w1"], ["m", "leaf", "b", "tanh", "w2"], ["t", "mul", "l", "m"]],
    [["l", "leaf", "a", "exp", "w1"], ["t", "ptw", "l", "tanh"]],
]


def random_prog(rng, nleaf, nnode):
    prog = []
    names = []
    keys = ["a", "b", "c"][:rng.randint(1, 3)]
    for i in range(nleaf):
        nm = f"l{i}"
        prog.append([nm, "leaf", rng.choice(keys), rng.choice(FNS), rng.choice(list(W))])
        names.append(nm)
    for i in range(nnode):
        nm = f"n{i}"
        r = rng.random()
        if r < 0.7:
            a = rng.choice(names)
            b = a if rng.random() < 0.3 else rng.choice(names)
            prog.append([nm, rng.choice(["add", "mul", "sub", "add", "mul"]), a, b])
        elif r < 0.8:
            prog.append([nm, "ptw", rng.choice(names), rng.choice(FNS)])
        elif r < 0.9:
            prog.append([nm, "scale", rng.choice(names), rng.choice([2, -1.5, 0.5])])
        else:
            prog.append([nm, "diag", rng.choice(names), rng.choice(list(W))])
        names.append(nm)
    # make sure the result uses the last nodes: combine the last two
    if len(names) >= 2:
        prog.append(["top", rng.choice(["add", "mul"]), names[-1], names[-2]])
    return prog


def scenarios(tier, seed):
    out = [("opt", {"prog": p}) for p in HAND]
    rng = random.Random(1000 + seed)
    n = {"quick": 40, "thorough": 400}[tier]
    for _ in range(n):
        out.append(("opt", {"prog": random_prog(rng, rng.randint(1, 3), rng.randint(2, 5 if tier == "quick" else 7))}))
    return out


HARNESSES = {"opt": h_opt}
OPTS = {"quick": {"max_paths": 16}, "thorough": {"max_paths": 16, "budget_s": 1200}}

META = {
    "level": "other",
    "explanation": "Operator DAGs with repeated leaves, repeated subtrees, shared operator objects and partially equal chains "
                   "are built with concrete float leaf data; the real optimise_operator (deepcopy + _optimise_operator + its "
                   "own self-check) runs unmodified; original and optimised operators are then both executed on symbolic "
                   "inputs and z3 refutes any difference in value, Jacobian and adjoint Jacobian for ALL inputs and "
                   "directions; domains/targets must agree and the original must be left usable.",
    "functions_encoded": ["nifty.cl.operator_tree_optimiser.{optimise_operator,_optimise_operator}",
                          "nifty.cl.operators.operator.{Operator.partial_insert,_OpChain,_OpProd,_OpSum}.apply",
                          "nifty.cl.operators.simple_linear_operators.FieldAdapter"],
    "bounds": {"leaves": "<= 3", "inner nodes": "<= 6 (quick) / 8 (thorough)", "keys": "<= 3", "pixels": 2,
               "programs": "18 hand-written + 40 (quick) / 400 (thorough) seeded random DAGs"},
    "stubs": shims_cl.STUBS[:5],
    "outside": ["linear ChainOperator/SumOperator trees (documented as not optimised)", "leaf data other than the enumerated floats"],
    "assumptions": [],
}
