"""C34 (Lanczos and quadrature parts) -- Lanczos tridiagonalisation reproduces the operator's spectrum and the
Lanczos quadrature is exact when the order reaches the dimension.

nifty.re.num.lanczos.lanczos_tridiag is traced (jaxpr; fori_loop / cond, full re-orthogonalisation, breakdown test against
eps) for a symbolic symmetric matrix A and start vector v and interpreted over z3 reals in fork mode (every breakdown
decision is a path).  On every path without breakdown z3 proves: the basis Q is orthonormal, T = Q A Q^T, T is symmetric
tridiagonal -- hence T and A have the same eigenvalues (trace and determinant are compared explicitly).  With a breakdown
in the first step (v an eigenvector) the leading entry of T is that eigenvalue.

quadrature: stochastic_logdet_from_lanczos (the quadrature behind the stochastic trace / log-determinant estimators) is
traced with the LAPACK eigen-solver replaced by the closed-form 2x2 symmetric eigendecomposition; for a symbolic positive
definite tridiagonal T it equals n (T^m)[0,0] for the monomials m = 0..3 = 2n-1: Gauss quadrature of order n = dimension is
exact, so together with T = Q A Q^T the estimator of one probe v is n v^T f(A) v / |v|^2 for every f on the spectrum.

The ELBO estimators (nifty.re and nifty.cl estimate_evidence_lower_bound: ARPACK eigsh on implicit metrics, hundreds of
lines of host code) are outside the claim."""
import numpy as np

from .. import symcore as sc
from ..jaxpr_interp import jcall, jax, jnp
from .c12 import setup as setup12


def setup():
    setup12()


def h_tridiag(B, n):
    import importlib
    lz = importlib.import_module("nifty.re.num.lanczos")
    A = np.empty((n, n), dtype=object if B.mode == "sym" else np.float64)
    for i in range(n):
        for j in range(i, n):
            A[i, j] = A[j, i] = B.reals(f"a{i}{j}", ())
    if B.mode == "sym":
        A = A.view(sc.SymArr)
    v = B.reals("v", (n,))
    vv = sum(list(v * v), 0)
    B.assume(vv > (1e-6 if B.mode == "sym" else 1e-6))

    def run(A, v):
        T, Q = lz.lanczos_tridiag(lambda x: A @ x, v, order=n, tol=1e-12)
        return T, Q
    sc.set_divmode("let")
    T, Q = jcall(B, run, A, v, while_bound=8, fork=True)
    T, Q = np.asarray(T, dtype=object), np.asarray(Q, dtype=object)
    # breakdown <=> an off-diagonal entry is exactly zero (the code zeroes it)
    if B.mode == "sym":
        broke = any(bool(sc._lift(T[i, i + 1]) == 0) for i in range(n - 1))
    else:
        broke = any(float(T[i, i + 1]) == 0.0 for i in range(n - 1))
    B.note(f"breakdown={broke}")
    B.eq("T is symmetric", [T[i, j] for i in range(n) for j in range(n)], [T[j, i] for i in range(n) for j in range(n)])
    B.eq("T is tridiagonal", [T[i, j] for i in range(n) for j in range(n) if abs(i - j) > 1], [0 for i in range(n) for j in range(n) if abs(i - j) > 1])
    qa = Q[0]
    B.eq("the first basis vector is v / |v|: q0 . q0 == 1", [sum(list(qa * qa), 0)], [1])
    B.eq("T[0,0] == q0^T A q0", [T[0, 0]], [sum(qa[i] * sum(A[i, j] * qa[j] for j in range(n)) for i in range(n))])
    if broke and n == 2:
        # a breakdown is legitimate only if the residual of the step really vanishes (documented tolerance tol = 1e-12)
        Aq = [sum(A[i, j] * qa[j] for j in range(n)) for i in range(n)]
        r = [Aq[i] - T[0, 0] * qa[i] for i in range(n)]
        rr = sum((x * x for x in r), 0)
        B.holds("breakdown only when the residual norm is below the tolerance: |A q0 - T00 q0|^2 <= tol^2",
                (sc._lift(rr) <= sc.SR(sc.q(1e-12)) * sc.SR(sc.q(1e-12)) * sc.SR(sc.q(1.000001))) if B.mode == "sym" else bool(float(rr) <= 1.001e-24))
    if not broke:
        QQt = Q @ Q.T
        B.eq("no breakdown: the basis is orthonormal", list(QQt.reshape(-1)), list(np.eye(n).reshape(-1)))
        B.eq("no breakdown: T == Q A Q^T", list((Q @ A @ Q.T).reshape(-1)), list(T.reshape(-1)))
        B.eq("no breakdown: trace(T) == trace(A)", [sum(T[i, i] for i in range(n))], [sum(A[i, i] for i in range(n))])
        if n == 2:
            B.eq("no breakdown: det(T) == det(A) (same eigenvalues)", [T[0, 0] * T[1, 1] - T[0, 1] * T[1, 0]], [A[0, 0] * A[1, 1] - A[0, 1] * A[1, 0]])


def h_quadrature(B):
    """Gauss quadrature from the tridiagonal is exact up to degree 2 n - 1 (n = 2): for the monomials x^m, m = 0..3, the
    estimator stochastic_logdet_from_lanczos(T, n, func) equals n * (T^m)[0,0] -- hence, with T = Q A Q^T and q0 = v/|v|
    (tridiag harness), n * v^T A^m v / |v|^2, and by interpolation on the spectrum n * v^T f(A) v / |v|^2 for EVERY f."""
    import importlib
    lz = importlib.import_module("nifty.re.num.lanczos")
    a, c, b = B.reals("a", ()), B.reals("c", ()), B.reals("b", ())
    lo = 1e-3
    B.assume(b > 0)                                   # no breakdown: the off-diagonal is a norm
    B.assume((a - lo) > 0)
    B.assume((a - lo) * (c - lo) - b * b > 0)          # spectrum above the discard threshold
    T = np.array([[a, b], [b, c]], dtype=object if B.mode == "sym" else np.float64)
    Tm = [np.eye(2, dtype=object), T, T @ T, T @ T @ T]
    for m in range(4):
        def run(T, m=m):
            return lz.stochastic_logdet_from_lanczos(T[None], 2, func=(lambda x: x ** m) if m else (lambda x: x ** 0))
        est = jcall(B, run, T, fork=True)
        B.eq(f"quadrature of x^{m} == n (T^{m})[0,0]", [np.asarray(est, dtype=object).reshape(-1)[0]], [2 * Tm[m][0, 0]])


def h_quadrature_padded(B):
    """order > rank of the Krylov space: lanczos_tridiag zero-pads the tridiagonal after a breakdown.  The estimator must
    discard the padding (eigenvalue 0 with weight 0) and still be DEFINED: for T = [[a, 0], [0, 0]] and func = log it equals
    n log(a), and no logarithm / division outside its domain is evaluated on the way (0 * log(0) is NaN in floats)."""
    import importlib
    from .. import jaxpr_interp as ji
    from .c03 import _defined
    lz = importlib.import_module("nifty.re.num.lanczos")
    a = B.reals("a", ())
    B.assume((a - 1e-3) > 0)
    z = 0.0
    T = np.array([[a, z], [z, z]], dtype=object if B.mode == "sym" else np.float64)
    ctx = sc.Ctx.cur
    n_side = len(ctx.side) if ctx is not None else 0
    want = 2 * (np.log(np.array([a], dtype=object))[0] if B.mode == "sym" else float(np.log(a)))
    n_side = len(ctx.side) if ctx is not None else 0

    def run(T):
        return lz.stochastic_logdet_from_lanczos(T[None], 2, func=jnp.log)
    ji.NAN_EXACT[0] = True
    try:
        est = jcall(B, run, T, fork=True)
    finally:
        ji.NAN_EXACT[0] = False
    est = np.asarray(est, dtype=object).reshape(-1)[0]
    _defined(B, n_side, [np.array([est], dtype=object)], "zero-padded tridiagonal: the estimate is defined (finite; no logarithm of a discarded eigenvalue)")
    if not (isinstance(est, float) and est != est):
        B.eq("zero-padded tridiagonal: quadrature of log == n log(a)", [est], [want])


def scenarios(tier, seed):
    quick = [("tridiag", {"n": 2}), ("quadrature", {}), ("quadrature_padded", {})]
    thorough = []          # dimension 3 does not finish within 40 minutes: not claimed
    return quick if tier == "quick" else quick + thorough


HARNESSES = {"tridiag": h_tridiag, "quadrature": h_quadrature, "quadrature_padded": h_quadrature_padded}
OPTS = {"quick": {"max_paths": 100, "budget_s": 1800, "jobs": 4, "branch_timeout_ms": 30000, "obl_timeout_ms": 120000},
        "thorough": {"max_paths": 400, "budget_s": 2400, "jobs": 4, "branch_timeout_ms": 60000, "obl_timeout_ms": 300000}}

META = {
    "level": "other",
    "explanation": "stochastic_logdet_from_lanczos with the 2x2 closed-form eigendecomposition: quadrature of x^m equals n (T^m)[0,0] for "
                   "m = 0..3 (Gauss quadrature exact to degree 2n-1) for ALL positive definite tridiagonal T.  lanczos_tridiag traced for a symbolic symmetric 2x2 matrix and start vector, order = dimension, "
                   "interpreted in fork mode (breakdown decisions are paths): T symmetric tridiagonal, first basis vector normalised, "
                   "T[0,0] the Rayleigh quotient; without breakdown Q orthonormal, T = Q A Q^T, trace and determinant of T equal those "
                   "of A (same spectrum).  The ELBO clauses of the property are NOT claimed.",
    "functions_encoded": ["nifty.re.num.lanczos.{lanczos_tridiag,_lanczos_tridiag,_dense_tridiag,stochastic_logdet_from_lanczos,_gauss_unit,"
                          "_quadrature_from_eigh,_apply_f_safely}"],
    "bounds": {"dimension": "2 (dimension 3 does not finish and is not claimed)", "order": "= dimension; quadrature also for a 2x2 tridiagonal zero-padded after a breakdown in step 1 (func = log)"},
    "stubs": ["jnp.linalg.eigh (LAPACK) = closed-form symmetric 2x2 eigendecomposition (ascending eigenvalues, orthonormal vectors)"],
    "outside": ["both estimate_evidence_lower_bound implementations (ARPACK eigsh, host code): the ELBO statements of the property are NOT covered",
                "the Gauss-Radau variant with a prescribed node (_radau_unit) and the probe averaging of stochastic_lq_logdet", "order < dimension (extreme eigenvalues only approximately)", "round-off and loss of orthogonality"],
    "assumptions": ["|v|^2 > 1e-6", "quadrature: spectrum of T above 1e-3 (the estimator discards eigenvalues below its tolerance by design), off-diagonal > 0"],
}
