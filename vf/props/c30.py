"""C30 -- prior transforms map a standard normal to the documented distribution (front ends B and A).

JAX transforms (normal, log-normal, uniform, Laplace and their inverses, the prior
model classes) are traced to the IR; the classic operators run on object arrays.
The standard normal cdf is whatever jax.scipy.special.ndtr computes from the
uninterpreted error function Erf (odd, strictly monotone, bounded); a probability
p is tied to its standard-normal quantile xi_p by p = ndtr(xi_p), so
"T(xi_p) == F^-1(p)" is decided for ALL xi and ALL distribution parameters.
Not claimed: inverse-gamma / interpolated transforms (tabulated SciPy ppf)."""
import numpy as np

from .. import shims_cl
from .. import symcore as sc
from ..jaxpr_interp import jcall, jax, jnp
from .c12 import setup as setup12, _flat  # noqa: F401


def setup():
    setup12()
    from ..clcommon import setup_cl
    setup_cl()
    import nifty.cl.library.special_distributions as sd
    import nifty.cl.utilities as ut
    import nifty.cl.operators.normal_operators as no
    for m in (ut, no):
        shims_cl.proxy_np(m)

    # SciPy's normal / Laplace distribution objects (compiled kernels) with their documented contracts
    def ew(f):
        def g(x, *a):
            wrapped = hasattr(x, "_val")
            arr = np.asarray(getattr(x, "_val", x), dtype=object)
            out = np.asarray(np.frompyfunc(lambda v: f(sc._lift(v), *a), 1, 1)(arr), dtype=object).reshape(arr.shape).view(sc.SymArr)
            if wrapped:
                from nifty.cl.any_array import AnyArray
                return AnyArray(out)
            return out
        return g

    class NormStub:
        def __init__(self, real):
            self._real = real

        def _cdf(self, x):
            if getattr(x, "dtype", None) == object:
                return ew(PHI)(x)
            return self._real._cdf(x)

        def _pdf(self, x):
            if getattr(x, "dtype", None) == object:
                return ew(lambda v: sc.SR(sc.cur().app("phi_pdf", v.e, lambda c, a, vv, e: [vv > 0])))(x)
            return self._real._pdf(x)

        def _ppf(self, p):
            if getattr(p, "dtype", None) == object:
                return ew(PPF)(p)
            return self._real._ppf(p)

    class LaplaceStub:
        def __init__(self, real):
            self._real = real

        def ppf(self, p, loc, scale):
            if getattr(p, "dtype", None) == object:
                return ew(lambda v: loc + scale * sc.ite(v < 0.5, (2 * v).log(), -((2 * (1 - v)).log())))(p)
            return self._real.ppf(p, loc, scale)

        def cdf(self, x, loc, scale):
            if getattr(x, "dtype", None) == object:
                return ew(lambda v: sc.ite(v < loc, ((v - loc) / scale).exp() / 2, 1 - (-(v - loc) / scale).exp() / 2))(x)
            return self._real.cdf(x, loc, scale)
    if not isinstance(sd.norm, NormStub):
        sd.norm = NormStub(sd.norm)
        sd.laplace = LaplaceStub(sd.laplace)


def PHI(v):
    """standard normal cdf used for the classic operators: uninterpreted Phi (monotone, 0<Phi<1, Phi(-x)=1-Phi(x))"""
    if not isinstance(v, (sc.SR, sc.SC)) and sc.Ctx.cur is None:
        from scipy.stats import norm
        return float(norm.cdf(float(v)))
    return sc._lift(v).ncdf()


def PPF(p):
    """inverse of Phi: fresh q with Phi(q) == p (documented contract of norm.ppf)"""
    c = sc.cur()
    p = sc._lift(p)
    key = ("ppf", sc.canon(p.e).sexpr())
    if key not in c.data:
        qv = sc.SR(c.fresh("ppf"))
        c.pc.append(qv.ncdf().eq_term(p))
        c.data[key] = qv
    return c.data[key]


def sd():
    from nifty.re.num import stats_distributions as s
    return s


def ndtr_code(B, xi):
    from jax.scipy.special import ndtr
    return jcall(B, ndtr, xi)


def _log(v):
    return v.log() if isinstance(v, (sc.SR, sc.SC)) else np.log(v)


def _exp(v):
    return v.exp() if isinstance(v, (sc.SR, sc.SC)) else np.exp(v)


def h_normal(B, n):
    xi, y = B.reals("xi", (n,)), B.reals("y", (n,))
    mean, std = B.reals("mean"), B.reals("std")
    B.assume(std > 0)
    T = jcall(B, lambda xi, m, s: sd().normal_prior(m, s)(xi), xi, mean, std)
    B.eq("normal: T(xi) == mean + std*xi (quantile of N(mean, std^2) at Phi(xi))", _flat(T), list(mean + std * xi))
    inv = jcall(B, lambda xi, m, s: sd().normal_invprior(m, s)(sd().normal_prior(m, s)(xi)), xi, mean, std)
    B.eq("normal: inverse(T(xi)) == xi", _flat(inv), list(xi))
    for a, b in zip(xi[:1], y[:1]):
        B.assume(a < b)
    T2 = jcall(B, lambda xi, m, s: sd().normal_prior(m, s)(xi), y, mean, std)
    B.holds("normal: strictly monotone", T.reshape(-1)[0] < T2.reshape(-1)[0])


def h_lognormal(B, n):
    xi = B.reals("xi", (n,))
    lm, ls = B.reals("lm"), B.reals("ls")
    B.assume(ls > 0)
    T = jcall(B, lambda xi, lm, ls: sd().lognormal_prior(None, None, _log_mean=lm, _log_std=ls)(xi), xi, lm, ls)
    B.eq("log-normal: T(xi) == exp(log_mean + log_std*xi)", _flat(T), [_exp(lm + ls * v) for v in xi])
    inv = jcall(B, lambda xi, lm, ls: sd().lognormal_invprior(None, None, _log_mean=lm, _log_std=ls)(
        sd().lognormal_prior(None, None, _log_mean=lm, _log_std=ls)(xi)), xi, lm, ls)
    B.eq("log-normal: inverse(T(xi)) == xi", _flat(inv), list(xi))
    y = B.reals("y")
    B.assume(xi[0] < y)
    T2 = jcall(B, lambda xi, lm, ls: sd().lognormal_prior(None, None, _log_mean=lm, _log_std=ls)(xi), np.array([y], dtype=object), lm, ls)
    B.holds("log-normal: strictly monotone", T.reshape(-1)[0] < T2.reshape(-1)[0])


def h_lognormal_moments(B):
    """classic lognormal_moments (NumPy): the log-normal with the returned parameters has the requested mean and std"""
    import nifty.cl as ift
    mean, std = B.reals("mean"), B.reals("std")
    B.assume(mean > 0)
    B.assume(std > 0)
    lm, ls = ift.utilities.lognormal_moments(mean, std)
    m_back = _exp(lm + ls * ls / 2)
    B.eq("lognormal_moments: exp(mu + sigma^2/2) == requested mean", [m_back], [mean])
    var_back = (_exp(ls * ls) - 1) * m_back * m_back
    B.eq("lognormal_moments: (exp(sigma^2) - 1) mean^2 == requested variance", [var_back], [std * std])


BOUNDS = {"unit": (0.0, 1.0), "shifted_unit_width": (-0.5, 0.5), "shifted_unit_width2": (2.0, 3.0), "ints": (0, 1),
          "general": (1.5, 4.0), "negative": (-3.0, -1.0)}


def h_uniform(B, bounds, n):
    xi = B.reals("xi", (n,))
    if bounds == "symbolic":
        a, b = B.reals("a"), B.reals("b")
        B.assume(a < b)
        T = jcall(B, lambda xi, a, b: sd().uniform_prior(a, b)(xi), xi, a, b)
    else:
        a, b = BOUNDS[bounds]
        prior = sd().uniform_prior(a, b)          # Python-level construction with concrete bounds, as a user writes it
        T = jcall(B, lambda xi: prior(xi), xi)
    p = ndtr_code(B, xi)                           # p = Phi(xi): xi is the standard-normal quantile of p
    B.eq("uniform: T(xi_p) == a + (b - a) p  (quantile of U(a,b))", _flat(T), [a + (b - a) * v for v in _flat(p)])
    for v in _flat(T):
        B.holds("uniform: T(xi) lies inside the support [a, b]", (v >= a) & (v <= b))
    y = B.reals("y", (n,))
    B.assume(xi[0] < y[0])
    if bounds == "symbolic":
        T2 = jcall(B, lambda xi, a, b: sd().uniform_prior(a, b)(xi), y, a, b)
    else:
        T2 = jcall(B, lambda xi: prior(xi), y)
    B.holds("uniform: monotone", _flat(T)[0] <= _flat(T2)[0])


def h_uniform_model(B, bounds):
    import nifty.re as jft
    a, b = BOUNDS[bounds]
    xi = B.reals("xi", (2,))
    m = jft.UniformPrior(a, b, name="u", shape=(2,))
    T = jcall(B, lambda xi: m({"u": xi}), xi)
    p = ndtr_code(B, xi)
    B.eq("UniformPrior model: value == a + (b - a) Phi(xi)", _flat(T), [a + (b - a) * v for v in _flat(p)])


def h_laplace(B, n):
    xi = B.reals("xi", (n,))
    alpha = B.reals("alpha")
    B.assume(alpha > 0)
    T = jcall(B, lambda xi, al: sd().laplace_prior(al)(xi), xi, alpha)
    p = _flat(ndtr_code(B, xi))
    pm = _flat(ndtr_code(B, -xi))
    LOG2 = float(np.log(2.0))                     # the code's own rounded constant jnp.log(2)
    want = []
    for v, pv, pmv in zip(xi, p, pm):
        neg = alpha * (_log(pv) + LOG2)           # alpha log(2p)      for p < 1/2
        pos = -alpha * (_log(pmv) + LOG2)         # -alpha log(2(1-p)) for p > 1/2   (1 - p = Phi(-xi))
        want.append(sc.ite(v < 0, neg, sc.ite(v > 0, pos, 0)) if isinstance(v, sc.SR) else (neg if v < 0 else (pos if v > 0 else 0.)))
    B.eq("Laplace: T(xi_p) == alpha sgn(p - 1/2) (-log(2 min(p, 1-p)))  (quantile of Laplace(0, alpha))", _flat(T), want)



def h_models(B):
    """prior model classes hand the right parameters to the transforms"""
    import nifty.re as jft
    xi = B.reals("xi", (2,))
    n = jft.NormalPrior(1.5, 0.5, name="n", shape=(2,))
    B.eq("NormalPrior model", _flat(jcall(B, lambda xi: n({"n": xi}), xi)), list(1.5 + 0.5 * xi))
    ln = jft.LogNormalPrior(2.0, 1.0, name="l", shape=(2,))
    lm, ls = sd().lognormal_moments(2.0, 1.0)
    B.close_under("LogNormalPrior model == exp(mu + sigma xi) with the moments-matched mu, sigma",
                  _flat(jcall(B, lambda xi: jnp.log(ln({"l": xi})), xi)), [float(lm) + float(ls) * v for v in xi])


def h_classic(B, op):
    import nifty.cl as ift
    from ..clcommon import field_of, flat_of
    dom = ift.DomainTuple.make(ift.UnstructuredDomain(2))
    xi = B.reals("xi", (2,))
    x = field_of(dom, xi)
    if op == "uniform":
        O = ift.UniformOperator(dom, loc=1.5, scale=2.5)
        val = O(x)
        B.eq("classic UniformOperator: loc + scale Phi(xi)", flat_of(val), [1.5 + 2.5 * PHI(v) for v in xi])
        B.eq("classic UniformOperator: inverse(T(xi)) == xi", flat_of(O.inverse(val)), list(xi))
        lin = O(ift.Linearization.make_var(x))
        B.eq("classic UniformOperator: Linearization value", flat_of(lin.val), flat_of(val))
    elif op == "laplace":
        O = ift.LaplaceOperator(dom, loc=0.5, scale=2.0)
        val = O(x)
        want = []
        for v in xi:
            p = PHI(v)
            want.append(0.5 + 2.0 * sc.ite(p < 0.5, (2 * p).log(), -((2 * (1 - p)).log())) if B.mode == "sym" else None)
        if B.mode == "sym":
            B.eq("classic LaplaceOperator: loc + scale * Laplace quantile of Phi(xi)", flat_of(val), want)
        lin = O(ift.Linearization.make_var(x))
        B.eq("classic LaplaceOperator: Linearization value", flat_of(lin.val), flat_of(val))
    elif op == "normal":
        mean, sig = B.reals("mean"), B.reals("sig")
        B.assume(sig > 0)
        O = ift.NormalTransform(mean, sig, "k", N_copies=0)
        val = O(ift.MultiField.from_dict({"k": field_of(ift.DomainTuple.scalar_domain(), np.array(xi[0], dtype=object).reshape(()))}))
        B.eq("classic NormalTransform: mean + sigma xi", flat_of(val), [mean + sig * xi[0]])
    elif op == "lognormal":
        mean, sig = B.reals("mean"), B.reals("sig")
        B.assume(mean > 0)
        B.assume(sig > 0)
        O = ift.LognormalTransform(mean, sig, "k", N_copies=0)
        val = O(ift.MultiField.from_dict({"k": field_of(ift.DomainTuple.scalar_domain(), np.array(xi[0], dtype=object).reshape(()))}))
        lm, ls = ift.utilities.lognormal_moments(mean, sig)
        B.eq("classic LognormalTransform: exp(mu + sigma xi) with moments-matched mu, sigma", flat_of(val), [_exp(lm + ls * xi[0])])


def scenarios(tier, seed):
    out = [("normal", {"n": 2}), ("lognormal", {"n": 2}), ("lognormal_moments", {}), ("laplace", {"n": 1}), ("models", {})]
    for b in list(BOUNDS) + ["symbolic"]:
        out.append(("uniform", {"bounds": b, "n": 1}))
    for b in ("shifted_unit_width", "general", "unit"):
        out.append(("uniform_model", {"bounds": b}))
    for op in ("uniform", "laplace"):
        out.append(("classic", {"op": op}))
    return out


HARNESSES = {"normal": h_normal, "lognormal": h_lognormal, "lognormal_moments": h_lognormal_moments, "uniform": h_uniform,
             "uniform_model": h_uniform_model, "laplace": h_laplace, "models": h_models, "classic": h_classic}
OPTS = {"quick": {"max_paths": 32, "budget_s": 300, "jobs": 10}, "thorough": {"max_paths": 64, "budget_s": 900, "jobs": 10}}

META = {
    "level": "other",
    "explanation": "jaxpr IR of normal_prior/invprior, lognormal_prior/invprior, uniform_prior (concrete float/int bounds as a user "
                   "writes them -- incl. unit-width intervals -- and traced bounds), laplace_prior, the NormalPrior / LogNormalPrior / "
                   "UniformPrior models; classic lognormal_moments, UniformOperator, LaplaceOperator on "
                   "object arrays.  The standard-normal cdf is what jax.scipy.special.ndtr computes from the uninterpreted error function "
                   "(odd, strictly monotone, bounded); with p = ndtr(xi) z3 refutes T(xi) != F^-1(p) for the target's closed-form "
                   "quantile (normal mean+std*xi, log-normal exp(mu+sigma*xi) with mu, sigma reproducing the requested mean/std, uniform "
                   "a+(b-a)p inside [a,b], Laplace alpha*sgn*log(2 min(p,1-p))), non-monotonicity, and inverse(T(xi)) != xi, for ALL xi "
                   "and parameters.",
    "functions_encoded": ["nifty.re.num.stats_distributions.{normal_prior,normal_invprior,lognormal_prior,lognormal_invprior,uniform_prior,laplace_prior,_standard_to_*}",
                          "nifty.re.prior.{NormalPrior,LogNormalPrior,UniformPrior}", "nifty.cl.utilities.lognormal_moments",
                                                    "nifty.cl.library.special_distributions.{UniformOperator,LaplaceOperator}.{apply,inverse}"],
    "bounds": {"shapes": "1-2 elements", "uniform bounds": "6 concrete pairs + symbolic"},
    "stubs": ["jaxpr interpreter; Erf uninterpreted with axioms; jax.scipy.special.log_ndtr stubbed with its contract log(ndtr(x))",
              "classic: scipy.stats norm._cdf/_pdf/_ppf and laplace.ppf/cdf replaced by their documented formulas over an uninterpreted Phi"],
    "outside": ["classic NormalTransform / LognormalTransform wrappers (thin compositions of lognormal_moments, exp and an affine map)", "inverse-gamma / gamma / beta priors and the classic _InterpolationOperator (tabulated SciPy ppf)", "numerical accuracy of erf/ndtr",
                "nifty.re lognormal_moments with symbolic arguments (Python-level checks on traced values)"],
    "assumptions": ["std > 0, scale > 0, a < b, alpha > 0"],
}
