"""C20 -- linear Gaussian problems: the Wiener filter is the exact posterior.

nifty.re.wiener_filter_posterior is traced (jaxpr) for a linear forward model R (symbolic 2x2 / 1x2 matrix), Gaussian noise
(symbolic inverse standard deviations) and symbolic data and interpreted over z3 reals.  The linear solver is the
library's own injection point `draw_linear_kwargs["cg"]`: (a) an exact 2x2 solve written in jnp (contract of CG: A x = b;
CG itself is C15's subject), (b) the real static_cg run for dim(x) iterations.  z3 / the polynomial rewriter prove for ALL
R, N, d: (1 + R^T N^-1 R) m = R^T N^-1 d for the signal-space AND the data-space solution (hence both equal the exact
posterior mean and each other); samples come in exact +- pairs around m; each residual s solves
(1 + R^T N^-1 R) s = R^T N^-1/2 xi_1 + xi_2 for symbolic white noise xi, and the linear map xi -> s has covariance
(1 + R^T N^-1 R)^-1.  Classic: WienerFilterCurvature(R, N, S) applied to a symbolic field is R^T N^-1 R x + S^-1 x."""
import numpy as np

from .. import symcore as sc
from ..jaxpr_interp import jcall, jax, jnp
from .c12 import setup as setup12, jft, _flat


def setup():
    setup12()


def exact_solve(A, b, *, x0=None, name=None, **kw):
    """contract of conjugate gradient: returns (x, info) with A x = b; written in jnp so that it is traced with the rest.
    A complex system is solved as the REAL-linear system it is (the data-space operator R Re(R^H .) + N of a real signal is
    real-linear, not complex-linear): unknowns Re x, Im x."""
    n = b.shape[0]
    if jnp.iscomplexobj(b):
        if n != 1:
            raise NotImplementedError
        c1 = A(jnp.ones(1, dtype=b.dtype))[0]            # A(1)
        ci = A(1j * jnp.ones(1, dtype=b.dtype))[0]       # A(i)
        m00, m10, m01, m11 = c1.real, c1.imag, ci.real, ci.imag
        det = m00 * m11 - m01 * m10
        xr = (m11 * b[0].real - m01 * b[0].imag) / det
        xi = (m00 * b[0].imag - m10 * b[0].real) / det
        return jnp.array([xr + 1j * xi]), 0
    cols = [A(jnp.zeros(n, dtype=b.dtype).at[i].set(1.)) for i in range(n)]
    M = jnp.stack(cols, axis=1)
    if n == 1:
        return b / M[0, 0], 0
    if n == 2:
        det = M[0, 0] * M[1, 1] - M[0, 1] * M[1, 0]
        x = jnp.array([M[1, 1] * b[0] - M[0, 1] * b[1], M[0, 0] * b[1] - M[1, 0] * b[0]]) / det
        return x, 0
    raise NotImplementedError


def _real_cg(A, b, **kw):
    """the real compiled CG; its status is dropped because wiener_filter_posterior inspects it with a Python `if` (host code)"""
    x, _ = jft().static_cg(A, b, **kw)
    return x, None


class white_noise:
    """randomness = nondeterministic stub: nifty.re.evi.random_like returns the given (symbolic) arrays in call order"""

    def __init__(self, arrays):
        self.arrays = list(arrays)

    def __enter__(self):
        import importlib
        self.evi = importlib.import_module("nifty.re.evi")
        self.orig = self.evi.random_like
        it = iter(self.arrays)

        def random_like(key, primals, rng=None):
            a = next(it)
            want = jax.tree_util.tree_map(jnp.shape, primals)
            return a
        self.evi.random_like = random_like
        return self

    def __exit__(self, *a):
        self.evi.random_like = self.orig
        return False


def _model(B, ndata):
    R = B.reals("R", (ndata, 2))
    d = B.reals("d", (ndata,))
    s = B.reals("s", (ndata,))           # inverse noise standard deviation
    B.assume_all([t > 0 for t in s.reshape(-1)])
    return R, d, s


def _lh(R, d, s):
    J = jft()
    return J.Gaussian(d, noise_cov_inv=lambda x: s * s * x, noise_std_inv=lambda x: s * x).amend(
        lambda x: R @ x, domain=jax.ShapeDtypeStruct((2,), jnp.float64))


def _M(R, s):
    """1 + R^T N^-1 R as an object matrix"""
    ninv = s * s
    M = np.empty((2, 2), dtype=object)
    for i in range(2):
        for j in range(2):
            M[i, j] = (1 if i == j else 0) + sum(R[k, i] * ninv[k] * R[k, j] for k in range(R.shape[0]))
    return M


def h_mean(B, ndata, solver, signal_space, linearize=False, cplx=False):
    J = jft()
    R, d, s = _model(B, ndata)
    if cplx:        # complex response and data (Fourier / visibility type measurements of a real signal)
        R, d = B.complexes("R", (ndata, 2)), B.complexes("d", (ndata,))
    pos = B.reals("p", (2,)) if linearize else None

    def run(R, d, s, pos=None):
        lh = _lh(R, d, s)
        extra = {"model_is_linear": False, "position": pos} if linearize else {}
        kw = {"cg": exact_solve} if solver == "exact" else {"cg": _real_cg, "cg_kwargs": {"maxiter": 2 if signal_space else ndata, "miniter": 2 if signal_space else ndata, "absdelta": None, "resnorm": None}}
        smp, _ = J.wiener_filter_posterior(lh, key=jax.random.PRNGKey(0), n_samples=0, draw_linear_kwargs=kw, jit=False,
                                           signal_space=signal_space, noise_covariance=(lambda x: x / (s * s)), **extra)
        return smp.pos
    args = (R, d, s, pos) if linearize else (R, d, s)
    m = np.asarray(jcall(B, run, *args, while_bound=4), dtype=object).reshape(-1)
    if cplx:
        # exact posterior mean of a real signal: (1 + Re(R^H N^-1 R)) m = Re(R^H N^-1 d)
        cj = (lambda v: v.conjugate())
        M = np.empty((2, 2), dtype=object)
        for i in range(2):
            for k2 in range(2):
                t = sum(cj(R[k, i]) * (s[k] * s[k]) * R[k, k2] for k in range(ndata))
                M[i, k2] = (1 if i == k2 else 0) + (t.real if hasattr(t, "real") else t)
        j = np.array([(lambda t: t.real if hasattr(t, "real") else t)(sum(cj(R[k, i]) * (s[k] * s[k]) * d[k] for k in range(ndata))) for i in range(2)], dtype=object)
        m = np.array([(v.real if hasattr(v, "real") else v) for v in m], dtype=object)
    else:
        M = _M(R, s)
        j = np.array([sum(R[k, i] * s[k] * s[k] * d[k] for k in range(ndata)) for i in range(2)], dtype=object)
    B.eq(f"(1 + R^T N^-1 R) m == R^T N^-1 d  ({'signal' if signal_space else 'data'} space, solver={solver}{', complex response' if cplx else ''}"
         f"{', linearised at an arbitrary position' if linearize else ''})", list(M @ m), list(j))


def h_samples(B, ndata, nsamples):
    """samples of wiener_filter_posterior: exact +- pairs, each residual solves the sampling equation, covariance = M^-1"""
    J = jft()
    R, d, s = _model(B, ndata)
    xi = [B.reals(f"xi{k}", (ndata + 2,)) for k in range(nsamples)]

    def run(R, d, s, *xi):
        lh = _lh(R, d, s)
        arrays = []
        for x in xi:
            arrays += [x[:ndata], x[ndata:]]
        with white_noise(arrays):
            smp, _ = J.wiener_filter_posterior(lh, key=jax.random.PRNGKey(0), n_samples=nsamples, draw_linear_kwargs={"cg": exact_solve},
                                               jit=False, residual_map=_seqmap)
        return smp.pos, smp._samples
    pos, res = jcall(B, run, R, d, s, *xi)
    pos = np.asarray(pos, dtype=object).reshape(-1)
    res = np.asarray(res, dtype=object)
    M = _M(R, s)
    B.is_true("2 n_samples residuals are returned", res.shape[0] == 2 * nsamples)
    tot = np.zeros(2, dtype=object)
    for k in range(nsamples):
        a, b = res[2 * k], res[2 * k + 1]
        B.eq(f"sample pair {k}: mirrored residual is the exact negative", list(b), list(-a))
        # the relative and global signs of the two white-noise contributions are free (antithetic variants have the same law)
        lhs = M @ a
        lik = [sum(R[q, i] * s[q] * xi[k][q] for q in range(ndata)) for i in range(2)]
        pri = [xi[k][ndata + i] for i in range(2)]
        if B.mode == "sym":
            alts = None
            for s1 in (1, -1):
                for s2 in (1, -1):
                    c = None
                    for i in range(2):
                        e = (sc._lift(lhs[i]) == s1 * lik[i] + s2 * pri[i])
                        c = e if c is None else (c & e)
                    alts = c if alts is None else (alts | c)
            B.holds(f"sample pair {k}: (1 + R^T N^-1 R) residual == +-R^T N^-1/2 xi_data +- xi_signal", alts)
        else:
            ok = any(np.allclose(np.asarray(lhs, dtype=float), s1 * np.asarray(lik, dtype=float) + s2 * np.asarray(pri, dtype=float), rtol=1e-8, atol=1e-10)
                     for s1 in (1, -1) for s2 in (1, -1))
            B.is_true(f"sample pair {k}: (1 + R^T N^-1 R) residual == +-R^T N^-1/2 xi_data +- xi_signal", ok)
        tot = tot + a + b
    B.eq("the sample average equals the posterior mean", list(pos + tot / (2 * nsamples)), list(pos))


def _seqmap(f, in_axes=(None, 0)):
    """plain Python map over the leading axis of the mapped arguments (the white-noise stub is consumed in call order)"""
    def g(*args):
        mapped = [i for i, ax in enumerate(in_axes) if ax is not None]
        n = jax.tree_util.tree_leaves(args[mapped[0]])[0].shape[0]
        outs = []
        for k in range(n):
            a = [jax.tree_util.tree_map(lambda x: x[k], arg) if i in mapped else arg for i, arg in enumerate(args)]
            outs.append(f(*a))
        return jax.tree_util.tree_map(lambda *a: jnp.stack(a), *outs)
    return g


def h_cov(B, ndata):
    """the linear map white noise -> residual of draw_linear_residual has covariance (1 + R^T N^-1 R)^-1"""
    J = jft()
    import importlib
    evi = importlib.import_module("nifty.re.evi")
    R, d, s = _model(B, ndata)
    pos = B.reals("p", (2,))
    cols = []
    for k in range(ndata + 2):
        e = np.zeros(ndata + 2)
        e[k] = 1.

        def run(R, d, s, pos, e=e):
            lh = _lh(R, d, s)
            with white_noise([jnp.asarray(e[:ndata]), jnp.asarray(e[ndata:])]):
                r, _ = evi.draw_linear_residual(lh, pos, jax.random.PRNGKey(1), cg=exact_solve)
            return r
        cols.append(np.asarray(jcall(B, run, R, d, s, pos), dtype=object).reshape(-1))
    A = np.stack(cols, axis=1)            # 2 x (ndata + 2)
    C = A @ A.T
    M = _M(R, s)
    MC = M @ C
    B.eq("(1 + R^T N^-1 R) Cov(residual) == 1", list(MC.reshape(-1)), [1, 0, 0, 1])


def h_curvature(B, ndata):
    """classic WienerFilterCurvature"""
    from ..clcommon import ift, setup_cl, field_of
    setup_cl()
    sdom = ift.DomainTuple.make(ift.UnstructuredDomain(2))
    ddom = ift.DomainTuple.make(ift.UnstructuredDomain(ndata))
    Rm = B.reals("R", (ndata, 2))
    n = B.reals("n", (ndata,))
    sp = B.reals("S", (2,))
    B.assume_all([t > 0 for t in list(n) + list(sp)])
    x = B.reals("x", (2,))
    R = ift.MatrixProductOperator(sdom, Rm)
    N = ift.makeOp(field_of(ddom, n), sampling_dtype=object if B.mode == "sym" else np.float64)
    S = ift.makeOp(field_of(sdom, sp), sampling_dtype=object if B.mode == "sym" else np.float64)
    ic = ift.GradientNormController(iteration_limit=2)
    curv = ift.WienerFilterCurvature(R, N, S, ic, ic)
    out = np.asarray(curv(field_of(sdom, x)).val.val, dtype=object).reshape(-1)
    ref = [sum(Rm[k, i] * (1 / n[k]) * sum(Rm[k, j] * x[j] for j in range(2)) for k in range(ndata)) + x[i] / sp[i] for i in range(2)]
    B.eq("WienerFilterCurvature(R,N,S) x == R^T N^-1 R x + S^-1 x", list(out), ref)


def scenarios(tier, seed):
    quick = [("mean", {"ndata": 2, "solver": "exact", "signal_space": True}),
             ("mean", {"ndata": 2, "solver": "exact", "signal_space": False}),
             ("mean", {"ndata": 1, "solver": "exact", "signal_space": False}),
             ("mean", {"ndata": 2, "solver": "exact", "signal_space": True, "linearize": True}),
             ("mean", {"ndata": 1, "solver": "exact", "signal_space": False, "linearize": True}),
             ("mean", {"ndata": 1, "solver": "exact", "signal_space": False, "cplx": True}),
             ("mean", {"ndata": 1, "solver": "exact", "signal_space": True, "cplx": True}),
             ("samples", {"ndata": 2, "nsamples": 1}),
             ("cov", {"ndata": 1}),
             ("curvature", {"ndata": 2})]
    thorough = [("mean", {"ndata": 1, "solver": "cg", "signal_space": False}),
                ("mean", {"ndata": 1, "solver": "cg", "signal_space": True}),
                ("samples", {"ndata": 2, "nsamples": 2}),
                ("cov", {"ndata": 2})]
    return quick if tier == "quick" else quick + thorough


HARNESSES = {"mean": h_mean, "samples": h_samples, "cov": h_cov, "curvature": h_curvature}
OPTS = {"quick": {"max_paths": 200, "budget_s": 600, "jobs": 8, "branch_timeout_ms": 20000, "obl_timeout_ms": 120000},
        "thorough": {"max_paths": 400, "budget_s": 2400, "jobs": 8, "branch_timeout_ms": 30000, "obl_timeout_ms": 300000}}

META = {
    "level": "other",
    "explanation": "nifty.re.wiener_filter_posterior and draw_linear_residual traced for a linear model R (symbolic 1x2 / 2x2), symbolic "
                   "Gaussian noise and data; the linear solver is injected through the library's own `cg` parameter: an exact jnp solve "
                   "(contract A x = b) and, thorough, the real static_cg run for dim iterations; white noise is a nondeterministic stub "
                   "(symbolic arrays).  Proved for ALL R, N, d, xi: the signal-space and the data-space mean both satisfy the normal "
                   "equation of the exact posterior mean; samples are exact +- pairs whose average is the mean; every residual solves "
                   "the sampling equation; the map white noise -> residual has covariance (1 + R^T N^-1 R)^-1.  Classic "
                   "WienerFilterCurvature applied to a symbolic field equals R^T N^-1 R x + S^-1 x.",
    "functions_encoded": ["nifty.re.evi.{wiener_filter_posterior,draw_linear_residual,sample_likelihood,_ham_metric,Samples}",
                          "nifty.re.likelihood.{LikelihoodWithModel,Likelihood.amend}", "nifty.re.likelihood_impl.Gaussian",
                          "nifty.re.conjugate_gradient.static_cg (thorough)", "nifty.cl.library.wiener_filter_curvature.WienerFilterCurvature"],
    "bounds": {"signal dimension": 2, "data dimension": "1-2", "samples": "1 (2 thorough)"},
    "stubs": ["nifty.re.evi.random_like returns symbolic arrays (white noise as nondeterministic input)",
              "draw_linear_kwargs['cg'] = exact 2x2 solve in jnp (quick); the real static_cg in the thorough tier"],
    "outside": ["convergence of sample covariances with the number of samples (statistical)", "MAP / MGVI runs through optimize_kl",
                "the classic curvature's inverse (InversionEnabler + ConjugateGradient: C14)"],
    "assumptions": ["noise standard deviation > 0, prior covariance > 0"],
}
