"""C35 -- response operators compute their documented quantity.

The geometry code of the operators (which pixels, which weights) runs for real on concrete positions; the FIELD the
operator is applied to is symbolic, the compiled sparse mat-vec behind `_sop` is replaced by its contract (explicit sums
over the operator's own COO triplets).  z3 / the polynomial rewriter then prove for ALL field values:

interp: LinearInterpolator is exact for (multi)linear functions with symbolic coefficients at points inside the grid,
        periodic in the positions, reproduces constants, and apply / adjoint are adjoint to each other.
regrid: RegriddingOperator maps samples of an affine function to its samples on the coarser grid, reproduces constants.
los:    LOSResponse of a piecewise constant field is the sum of (pixel value x length of the line inside the pixel) for
        axis-parallel and diagonal lines; a constant field gives constant x length.
Masks and zero padding are covered by C02's action formulas (every flag pattern / padding configuration there)."""
import numpy as np

from .. import symcore as sc
from ..clcommon import ift, setup_cl, field_of


def setup():
    setup_cl()


class _Sparse:
    """contract of scipy's sparse linear operator on the operator's own COO matrix, for object arrays"""

    def __init__(self, mat):
        m = mat.tocoo()
        self.shape = m.shape
        self.trip = list(zip(m.row.tolist(), m.col.tolist(), [float(v) for v in m.data]))

    def matvec(self, x):
        x = np.asarray(x).reshape(-1)
        out = np.zeros(self.shape[0], dtype=object)
        for r, c, v in self.trip:
            out[r] = out[r] + v * x[c]
        return out.view(sc.SymArr) if x.dtype == object else out.astype(np.float64)

    def rmatvec(self, y):
        y = np.asarray(y).reshape(-1)
        out = np.zeros(self.shape[1], dtype=object)
        for r, c, v in self.trip:
            out[c] = out[c] + v * y[r]
        return out.view(sc.SymArr) if y.dtype == object else out.astype(np.float64)


def _symbolic_sop(op, attr):
    op._sop = _Sparse(getattr(op, attr))
    op._device_preparation = lambda x, mode: None
    return op


def _flat(f):
    return list(np.asarray(f.val.val, dtype=object).reshape(-1))


def h_interp(B, shape, dist, points):
    shape, dist = tuple(shape), tuple(dist)
    ndim = len(shape)
    dom = ift.RGSpace(shape, distances=dist)
    pts = np.array(points, dtype=np.float64).T            # (ndim, npoints)
    op = _symbolic_sop(ift.LinearInterpolator(dom, pts), "_mat")
    # a multilinear function with symbolic coefficients sampled on the grid
    coef = B.reals("c", (2,) * ndim)

    def f(pos):
        tot = 0
        for idx in np.ndindex(*((2,) * ndim)):
            term = coef[idx]
            for a in range(ndim):
                if idx[a]:
                    term = term * pos[a]
            tot = tot + term
        return tot
    grid = np.empty(shape, dtype=object)
    for idx in np.ndindex(*shape):
        grid[idx] = f([idx[a] * dist[a] for a in range(ndim)])
    out = _flat(op(field_of(dom, grid)))
    inside = [k for k in range(pts.shape[1]) if all(0 <= pts[a, k] <= (shape[a] - 1) * dist[a] for a in range(ndim))]
    B.is_true("some sampling points lie inside the grid", len(inside) > 0)
    B.close("exact for multilinear functions at points inside the grid", [out[k] for k in inside],
            [f([sc.SR(sc.q(float(pts[a, k]))) if B.mode == "sym" else float(pts[a, k]) for a in range(ndim)]) for k in inside], rel=1e-9)
    # general field: periodicity in the positions, constants, adjointness
    x = B.reals("x", shape)
    y = B.reals("y", (pts.shape[1],))
    ext = np.array([shape[a] * dist[a] for a in range(ndim)]).reshape(-1, 1)
    op2 = _symbolic_sop(ift.LinearInterpolator(dom, pts + ext), "_mat")
    op3 = _symbolic_sop(ift.LinearInterpolator(dom, pts - ext), "_mat")
    fx = field_of(dom, x)
    B.close("positions are periodic: value(p) == value(p + extent)", _flat(op2(fx)), _flat(op(fx)), rel=1e-9)
    B.close("positions are periodic: value(p) == value(p - extent)", _flat(op3(fx)), _flat(op(fx)), rel=1e-9)
    # the documented action for EVERY point (also in the last cell of an axis, where the upper neighbour is pixel 0):
    # multilinear weights on the 2^ndim surrounding pixels, indices taken modulo the grid shape
    xo = np.asarray(x, dtype=object if B.mode == "sym" else np.float64)
    ref = []
    for k in range(pts.shape[1]):
        lo, fr = [], []
        for a in range(ndim):
            q = float(pts[a, k]) / dist[a]
            lo.append(int(np.floor(q)))
            fr.append(q - np.floor(q))
        tot = 0
        for corner in np.ndindex(*((2,) * ndim)):
            w = 1.0
            for a in range(ndim):
                w = w * (fr[a] if corner[a] else 1.0 - fr[a])
            if w == 0.0:
                continue
            tot = tot + xo[tuple((lo[a] + corner[a]) % shape[a] for a in range(ndim))] * (sc.SR(sc.q(float(w))) if B.mode == "sym" else w)
        ref.append(tot)
    B.close("every point: periodic multilinear interpolation of the surrounding pixels (upper neighbour of the last cell is pixel 0)",
            _flat(op(fx)), ref, rel=1e-9)
    cst = B.reals("k", ())
    B.close("a constant field is reproduced", _flat(op(field_of(dom, np.full(shape, cst, dtype=object if B.mode == "sym" else np.float64)))),
            [cst] * pts.shape[1], rel=1e-9)
    tdom = op.target
    lhs = sum(a * b for a, b in zip(list(y), _flat(op(fx))))
    rhs = sum(a * b for a, b in zip(_flat(op.adjoint(field_of(tdom, y))), list(x.reshape(-1))))
    B.eq("<y, A x> == <A^T y, x>", [lhs], [rhs])


def h_regrid(B, n, new, dist):
    dom = ift.RGSpace((n,), distances=dist)
    op = ift.RegriddingOperator(dom, (new,))
    a, b, k = B.reals("a", ()), B.reals("b", ()), B.reals("k", ())
    vals = np.array([a + b * (i * dist) for i in range(n)], dtype=object if B.mode == "sym" else np.float64)
    out = _flat(op(field_of(dom, vals)))
    newdist = dist * n / new
    ok = [j for j in range(new) if j * newdist <= (n - 1) * dist + 1e-12]
    B.is_true("target pixels inside the source grid exist", len(ok) > 0)
    B.close("samples of an affine function are mapped to its samples on the coarse grid", [out[j] for j in ok],
            [a + b * (sc.SR(sc.q(float(j * newdist))) if B.mode == "sym" else j * newdist) for j in ok], rel=1e-9)
    B.close("a constant field is reproduced", _flat(op(field_of(dom, np.full((n,), k, dtype=object if B.mode == "sym" else np.float64)))), [k] * new, rel=1e-9)
    # general field: every target pixel inside the source grid is the convex combination of its two bracketing neighbours
    x = B.reals("x", (n,))
    outx = _flat(op(field_of(dom, x)))
    refs = []
    for j in ok:
        u = j * newdist / dist
        i = min(int(np.floor(u + 1e-12)), n - 2)
        t = u - i
        refs.append(x[i] * (1 - t) + x[i + 1] * t)
    B.close("linear interpolation between the two bracketing source pixels", [outx[j] for j in ok], refs, rel=1e-9)
    tgt = op.target[0]
    B.is_true("the target grid spans the same extent", abs(tgt.distances[0] * tgt.shape[0] - dist * n) < 1e-12 and tgt.shape == (new,))


def _overlap_1d(lo, hi, i, d):
    """length of [lo, hi] inside pixel i = [(i-1/2)d, (i+1/2)d]"""
    a, b = (i - 0.5) * d, (i + 0.5) * d
    return max(0.0, min(hi, b) - max(lo, a))


def h_los(B, case):
    if case == "1d":
        shape, dist = (5,), (0.5,)
        starts, ends = [[0.1, 0.3, 1.9, -1.0, 2.9]], [[1.6, 0.4, 0.2, 0.8, 1.1]]     # the last two start outside the grid volume
    elif case == "2d_axis":
        shape, dist = (4, 3), (0.5, 1.0)
        # along x, along y, along -x; then two lines that START OUTSIDE the volume and enter through the boundary
        starts, ends = [[0.1, 0.6, 1.4, -0.9, 0.6], [0.2, 0.1, 1.7, 1.2, 3.4]], [[1.3, 0.6, 0.2, 1.1, 0.6], [0.2, 1.9, 1.7, 1.2, 0.3]]
    else:  # diagonal of square pixels: crosses pixel corners region; lengths by symmetry
        shape, dist = (4, 4), (1.0, 1.0)
        starts, ends = [[0.0, 0.0], [0.0, 2.0]], [[2.0, 2.0], [2.0, 0.0]]
    dom = ift.RGSpace(shape, distances=dist)
    st, en = np.array(starts, dtype=np.float64), np.array(ends, dtype=np.float64)
    op = _symbolic_sop(ift.LOSResponse(dom, st, en), "_smat")
    x = B.reals("x", shape)
    out = _flat(op(field_of(dom, x)))
    k = B.reals("k", ())
    const = _flat(op(field_of(dom, np.full(shape, k, dtype=object if B.mode == "sym" else np.float64))))
    lens = np.linalg.norm(en - st, axis=0)
    if case == "diag":
        B.close("a constant field gives constant x length of the line", const, [k * float(l) for l in lens], rel=1e-5)
    if case == "diag":
        # by symmetry the diagonal spends sqrt(2)/2 in the corner pixels (0,0),(2,2) and sqrt(2) in (1,1)
        r2 = float(np.sqrt(2.0))
        ref0 = x[0, 0] * (r2 / 2) + x[1, 1] * r2 + x[2, 2] * (r2 / 2)
        ref1 = x[0, 2] * (r2 / 2) + x[1, 1] * r2 + x[2, 0] * (r2 / 2)
        B.close("diagonal line: sum of pixel value x length inside the pixel", out, [ref0, ref1], rel=1e-5)
        return
    refs, inside = [], []
    for l in range(st.shape[1]):
        tot = 0
        if len(shape) == 1:
            lo, hi = sorted((st[0, l], en[0, l]))
            for i in range(shape[0]):
                w = _overlap_1d(lo, hi, i, dist[0])
                if w > 0:
                    tot = tot + x[i] * w
        else:
            ax = 0 if st[1, l] == en[1, l] else 1
            other = 1 - ax
            j = int(np.floor(st[other, l] / dist[other] + 0.5))
            lo, hi = sorted((st[ax, l], en[ax, l]))
            for i in range(shape[ax]):
                w = _overlap_1d(lo, hi, i, dist[ax])
                if w > 0:
                    idx = (i, j) if ax == 0 else (j, i)
                    tot = tot + x[idx] * w
        refs.append(tot)
        inside.append(sum(_overlap_1d(lo, hi, i, dist[ax if len(shape) > 1 else 0]) for i in range(shape[ax if len(shape) > 1 else 0])))
    B.close("line integral of a piecewise constant field: sum of pixel value x length inside the pixel", out, refs, rel=1e-5)
    B.close("a constant field gives constant x length of the line INSIDE the grid volume", const, [k * float(l) for l in inside], rel=1e-5)


def scenarios(tier, seed):
    quick = [("interp", {"shape": [4], "dist": [0.5], "points": [[0.0], [0.3], [1.0], [1.49], [-0.2], [2.3]]}),
             ("interp", {"shape": [3, 3], "dist": [0.5, 1.0], "points": [[0.25, 0.5], [0.9, 1.9], [0.0, 0.0], [1.2, -0.5]]}),
             ("regrid", {"n": 6, "new": 3, "dist": 0.5}),
             ("regrid", {"n": 5, "new": 4, "dist": 1.0}), ("regrid", {"n": 7, "new": 4, "dist": 0.5}),
             ("los", {"case": "1d"}), ("los", {"case": "2d_axis"}), ("los", {"case": "diag"})]
    thorough = [("interp", {"shape": [5, 4], "dist": [0.25, 0.75], "points": [[0.1, 0.1], [0.99, 2.2], [0.5, 1.5], [0.7, 0.2], [-0.1, 3.1]]}),
                ("interp", {"shape": [2, 2, 2], "dist": [1.0, 0.5, 2.0], "points": [[0.5, 0.25, 1.0], [0.1, 0.4, 1.9]]}),
                ("regrid", {"n": 8, "new": 8, "dist": 0.25}), ("regrid", {"n": 7, "new": 2, "dist": 0.3})]
    return quick if tier == "quick" else quick + thorough


HARNESSES = {"interp": h_interp, "regrid": h_regrid, "los": h_los}
OPTS = {"quick": {"max_paths": 50, "budget_s": 600, "jobs": 8, "branch_timeout_ms": 10000, "obl_timeout_ms": 60000},
        "thorough": {"max_paths": 50, "budget_s": 1800, "jobs": 8, "branch_timeout_ms": 10000, "obl_timeout_ms": 120000}}

META = {
    "level": "other",
    "explanation": "LinearInterpolator, RegriddingOperator and LOSResponse are constructed for real on concrete geometries (their pixel / "
                   "weight computation is the code under test) and applied to SYMBOLIC fields; the compiled sparse mat-vec is replaced "
                   "by explicit sums over the operator's own COO triplets.  Proved for ALL field values / coefficients (polynomial "
                   "identities up to a relative coefficient tolerance of 1e-9, 1e-5 for the float32 LOS weights): interpolation is exact "
                   "for multilinear functions inside the grid, periodic, reproduces constants and is adjoint-consistent; regridding maps "
                   "affine samples to affine samples; LOS responses are sums of pixel value x length inside the pixel.",
    "functions_encoded": ["nifty.cl.operators.linear_interpolation.LinearInterpolator.{__init__,_build_mat,apply}",
                          "nifty.cl.operators.regridding_operator.RegriddingOperator.{__init__,apply}",
                          "nifty.cl.library.los_response.{LOSResponse.__init__,apply,_comp_traverse}"],
    "bounds": {"grids": "1-3 dimensions, <= 20 pixels", "sampling points / lines": "the listed concrete geometries (inside, on-grid, negative, wrapped; axis-parallel and diagonal lines)"},
    "stubs": ["scipy.sparse.linalg.aslinearoperator(...).matvec/rmatvec replaced by explicit sums over the operator's COO triplets"],
    "outside": ["nft.Nufft / Gridder / VariablePositionNufft (ducc C++ kernels)", "nifty.re.extra.sampling_los", "LOS with parallax uncertainty (sigmas)",
                "masks and zero padding (C02 action formulas)", "symbolic positions (geometry is concrete)"],
    "assumptions": [],
}
