"""C18 -- variational samples have the right distribution.

nifty.re.draw_linear_residual / OptimizeVI.draw_linear_samples / nonlinearly_update_residual are traced (jaxpr) and
interpreted over z3 reals.  White noise is a nondeterministic stub (symbolic or unit arrays returned by
nifty.re.evi.random_like), the linear solver is injected through the library's own `cg` parameter as an exact jnp solve
(contract of CG; CG itself is C15's subject).

cov:   for nonlinear models (Gaussian / Poissonian likelihood behind R exp(x)) the linear map white noise -> residual at the
       expansion point p has covariance (1 + J^T M_lh J)^-1, J = Jacobian at p (so for linear Gaussian models samples are
       exact posterior samples, see also C20); zero mean follows from linearity in the noise.
pe:    point-estimated keys get exactly zero residuals, the remaining keys the covariance of the frozen model.
ovi:   OptimizeVI.draw_linear_samples returns exact +- pairs, so the sample average is the expansion point.
geo:   for a linear model one Newton step of the nonlinear (geoVI) update leaves a linear sample unchanged."""
import numpy as np

from .. import symcore as sc
from ..jaxpr_interp import jcall, jax, jnp
from .c12 import setup as setup12, jft
from .c20 import exact_solve, white_noise, _seqmap


def setup():
    setup12()


def _exp(v):
    return v.exp() if hasattr(v, "exp") else float(np.exp(v))


def _mk(B, kind, ndata):
    """-> (hyper parameters, builder(hp) of a LikelihoodWithModel on R^2, lh_metric(p) as object matrix)"""
    J = jft()
    R = B.reals("R", (ndata, 2))
    if kind == "gauss_exp":
        d, s = B.reals("d", (ndata,)), B.reals("s", (ndata,))
        B.assume_all([t > 0 for t in s])
        hp = (R, d, s)

        def build(hp):
            R, d, s = hp
            return J.Gaussian(d, noise_cov_inv=lambda x: s * s * x, noise_std_inv=lambda x: s * x).amend(
                lambda x: R @ jnp.exp(x), domain=jax.ShapeDtypeStruct((2,), jnp.float64))

        def metric(p):
            ex = [_exp(p[0]), _exp(p[1])]
            Jm = np.array([[R[k, i] * ex[i] for i in range(2)] for k in range(ndata)], dtype=object)
            return Jm.T @ np.diag([s[k] * s[k] for k in range(ndata)]).astype(object) @ Jm
        return hp, build, metric
    if kind == "poisson_exp":
        hp = (R,)
        B.assume_all([t > 0 for t in R.reshape(-1)])
        counts = np.array([3, 1, 4][:ndata])
        pois = J.Poissonian(counts)          # built outside any trace (its constructor inspects the data)

        def build(hp):
            (R,) = hp
            return pois.amend(lambda x: R @ jnp.exp(x), domain=jax.ShapeDtypeStruct((2,), jnp.float64))

        def metric(p):
            ex = [_exp(p[0]), _exp(p[1])]
            Jm = np.array([[R[k, i] * ex[i] for i in range(2)] for k in range(ndata)], dtype=object)
            lam = [sum(R[k, i] * ex[i] for i in range(2)) for k in range(ndata)]
            return Jm.T @ np.diag([1 / lam[k] for k in range(ndata)]).astype(object) @ Jm
        return hp, build, metric
    raise sc.HarnessError(kind)


def h_cov(B, kind, ndata):
    import importlib
    evi = importlib.import_module("nifty.re.evi")
    hp, build, metric = _mk(B, kind, ndata)
    pos = B.reals("p", (2,))
    cols = []
    for k in range(ndata + 2):
        e = np.zeros(ndata + 2)
        e[k] = 1.

        def run(hp, pos, e=e):
            lh = build(hp)
            with white_noise([jnp.asarray(e[:ndata]), jnp.asarray(e[ndata:])]):
                r, _ = evi.draw_linear_residual(lh, pos, jax.random.PRNGKey(1), cg=exact_solve)
            return r
        cols.append(np.asarray(jcall(B, run, hp, pos), dtype=object).reshape(-1))
    A = np.stack(cols, axis=1)
    M = metric(pos) + np.eye(2, dtype=object)
    MC = M @ (A @ A.T)
    B.eq("(1 + J^T M_lh J) Cov(residual) == 1 at the expansion point", list(MC.reshape(-1)), [1, 0, 0, 1])
    zero = np.zeros(ndata + 2)

    def run0(hp, pos):
        lh = build(hp)
        with white_noise([jnp.asarray(zero[:ndata]), jnp.asarray(zero[ndata:])]):
            r, _ = evi.draw_linear_residual(lh, pos, jax.random.PRNGKey(1), cg=exact_solve)
        return r
    B.eq("zero white noise gives a zero residual (the residual is linear in the noise: zero mean)",
         list(np.asarray(jcall(B, run0, hp, pos), dtype=object).reshape(-1)), [0, 0])


def h_pe(B, frozen):
    """dict primals {'a': (1,), 'b': (1,)}; model d ~ N(ra * a * exp(b), 1/s^2); point estimate for `frozen`"""
    import importlib
    evi = importlib.import_module("nifty.re.evi")
    J = jft()
    ra, d, s = B.reals("ra", ()), B.reals("d", (1,)), B.reals("s", ())
    B.assume(s > 0)
    pos = {"a": B.reals("pa", (1,)), "b": B.reals("pb", (1,))}
    liquid = "a" if frozen == "b" else "b"
    cols = []
    for k in range(2):
        e = np.zeros(2)
        e[k] = 1.

        def run(ra, d, s, pos, e=e):
            lh = J.Gaussian(d, noise_cov_inv=lambda x: s * s * x, noise_std_inv=lambda x: s * x).amend(
                lambda x: ra * x["a"] * jnp.exp(x["b"]), domain={"a": jax.ShapeDtypeStruct((1,), jnp.float64), "b": jax.ShapeDtypeStruct((1,), jnp.float64)})
            with white_noise([jnp.asarray(e[:1]), J.Vector((jnp.asarray(e[1:]),))]):
                r, _ = evi.draw_linear_residual(lh, J.Vector(pos), jax.random.PRNGKey(1), cg=_solve_tree, point_estimates=(frozen,))
            return r.tree if hasattr(r, "tree") else r
        out = jcall(B, run, ra, d, s, pos)
        B.eq(f"white-noise component {k}: the point-estimated key '{frozen}' has a zero residual", list(np.asarray(out[frozen], dtype=object).reshape(-1)), [0])
        cols.append(np.asarray(out[liquid], dtype=object).reshape(-1)[0])
    pa, pb = pos["a"][0], pos["b"][0]
    eb = _exp(pb)
    jac = ra * eb if liquid == "a" else ra * pa * eb
    M = 1 + jac * s * s * jac
    C = cols[0] * cols[0] + cols[1] * cols[1]
    B.eq(f"(1 + J_{liquid}^T N^-1 J_{liquid}) Var(residual of '{liquid}') == 1 (frozen model)", [M * C], [1])


def _solve_tree(A, b, *, x0=None, name=None, **kw):
    """exact solve for a one-dimensional Vector system"""
    J = jft()
    one = jax.tree_util.tree_map(jnp.ones_like, b)
    m = A(one)
    return jax.tree_util.tree_map(lambda bb, mm: bb / mm, b, m), 0


def h_ovi(B, nkeys):
    J = jft()
    R, d, s = B.reals("R", (2, 2)), B.reals("d", (2,)), B.reals("s", (2,))
    B.assume_all([t > 0 for t in s])
    pos = B.reals("p", (2,))
    xi = [B.reals(f"xi{k}", (4,)) for k in range(nkeys)]

    def run(R, d, s, pos, *xi):
        lh = J.Gaussian(d, noise_cov_inv=lambda x: s * s * x, noise_std_inv=lambda x: s * x).amend(
            lambda x: R @ jnp.exp(x), domain=jax.ShapeDtypeStruct((2,), jnp.float64))
        ovi = J.OptimizeVI(lh, 1, jit=False, linear_minimizer_jit=False, residual_map=_seqmap)
        arrays = []
        for x in xi:
            arrays += [x[:2], x[2:]]
        keys = jax.random.split(jax.random.PRNGKey(3), nkeys)
        with white_noise(arrays):
            smp, _ = ovi.draw_linear_samples(pos, keys, cg=exact_solve)
        return smp._samples, smp.samples
    res, full = jcall(B, run, R, d, s, pos, *xi)
    res, full = np.asarray(res, dtype=object), np.asarray(full, dtype=object)
    B.is_true("2 residuals per key", res.shape[0] == 2 * nkeys)
    for k in range(nkeys):
        B.eq(f"pair {k}: the mirrored residual is the exact negative", list(res[2 * k + 1]), list(-res[2 * k]))
    B.eq("the sample average equals the expansion point", list(full.sum(axis=0) / (2 * nkeys)), list(pos))


def h_ovi_pe(B, frozen):
    """OptimizeVI.draw_samples with point estimates: linear_resample followed by nonlinear_update (the driver's own
    sequence of sample modes); model d ~ N(ra a exp(b), 1/s^2) is linear in a"""
    import importlib
    opt = importlib.import_module("nifty.re.optimize")
    J = jft()
    ra, d, s = B.reals("ra", ()), B.reals("d", (1,)), B.reals("s", ())
    B.assume(s > 0)
    pos = {"a": B.reals("pa", (1,)), "b": B.reals("pb", (1,))}
    xi = B.reals("xi", (2,))
    liquid = "a" if frozen == "b" else "b"

    def run(ra, d, s, pos, xi):
        lh = J.Gaussian(d, noise_cov_inv=lambda x: s * s * x, noise_std_inv=lambda x: s * x).amend(
            lambda x: ra * x["a"] * jnp.exp(x["b"]), domain={"a": jax.ShapeDtypeStruct((1,), jnp.float64), "b": jax.ShapeDtypeStruct((1,), jnp.float64)})
        ovi = J.OptimizeVI(lh, 1, jit=False, linear_minimizer_jit=False, nonlinear_minimizer_jit=False, residual_map=_seqmap)
        noise = [xi[:1], J.Vector((xi[1:],))]
        key = jax.random.PRNGKey(3)
        start = J.Samples(pos=J.Vector(pos), samples=None, keys=None)
        with white_noise(noise + noise + noise):
            lin, _ = ovi.draw_samples(start, key=key, sample_mode="linear_resample", n_samples=1, point_estimates=(frozen,),
                                      draw_linear_kwargs=dict(cg=_solve_tree))
            upd, _ = ovi.draw_samples(lin, key=key, sample_mode="nonlinear_update", n_samples=1, point_estimates=(frozen,),
                                      nonlinearly_update_kwargs=dict(minimize=opt._static_newton_cg,
                                                                     minimize_kwargs={"maxiter": 1, "cg_kwargs": {"maxiter": 1, "miniter": 0},
                                                                                      "energy_reduction_factor": None}))
        return lin._samples.tree, upd._samples.tree
    lin, upd = jcall(B, run, ra, d, s, pos, xi, while_bound=12, fork=True)
    for nm, smp in (("linear_resample", lin), ("nonlinear_update", upd)):
        B.eq(f"{nm}: the point-estimated key '{frozen}' has zero residuals in every sample", list(np.asarray(smp[frozen], dtype=object).reshape(-1)), [0, 0])
        r = np.asarray(smp[liquid], dtype=object).reshape(-1)
        B.eq(f"{nm}: the mirrored residual of '{liquid}' is the exact negative", [r[1]], [-r[0]])
    if liquid == "a":
        B.eq("model linear in the liquid key: nonlinear_update leaves the linear residuals unchanged",
             list(np.asarray(upd[liquid], dtype=object).reshape(-1)), list(np.asarray(lin[liquid], dtype=object).reshape(-1)))


def h_geo(B, ndata, part):
    """linear model: the nonlinear update (one compiled Newton-CG iteration) returns the linear sample"""
    import importlib
    evi = importlib.import_module("nifty.re.evi")
    opt = importlib.import_module("nifty.re.optimize")
    J = jft()
    R, d, s = B.reals("R", (ndata, 2)), B.reals("d", (ndata,)), B.reals("s", (ndata,))
    B.assume_all([t > 0 for t in s])
    pos = B.reals("p", (2,))
    xi = B.reals("xi", (ndata + 2,))

    def run(R, d, s, pos, xi):
        lh = J.Gaussian(d, noise_cov_inv=lambda x: s * s * x, noise_std_inv=lambda x: s * x).amend(
            lambda x: R @ x, domain=jax.ShapeDtypeStruct((2,), jnp.float64))
        with white_noise([xi[:ndata], xi[ndata:], xi[:ndata], xi[ndata:]]):
            lin, _ = evi.draw_linear_residual(lh, pos, jax.random.PRNGKey(1), cg=exact_solve)
            new, st = evi.nonlinearly_update_residual(lh, pos, lin, jax.random.PRNGKey(1), 1.0, minimize=opt._static_newton_cg,
                                                      minimize_kwargs={"maxiter": 1, "cg_kwargs": {"maxiter": 2, "miniter": 0}, "energy_reduction_factor": None})
        return lin, new
    if part == "grad":
        def grad_at_linear(R, d, s, pos, xi):
            lh = J.Gaussian(d, noise_cov_inv=lambda x: s * s * x, noise_std_inv=lambda x: s * x).amend(
                lambda x: R @ x, domain=jax.ShapeDtypeStruct((2,), jnp.float64))
            with white_noise([xi[:ndata], xi[ndata:], xi[:ndata], xi[ndata:]]):
                lin, _ = evi.draw_linear_residual(lh, pos, jax.random.PRNGKey(1), cg=exact_solve)
                ms, _ = evi.draw_linear_residual(lh, pos, jax.random.PRNGKey(1), from_inverse=False)
            val, g = evi._nonlinear_residual_vg(lh, (), pos, lh.transformation(pos), ms, pos + lin)
            return val, g
        val, g = jcall(B, grad_at_linear, R, d, s, pos, xi)
        B.eq("linear model: the geoVI residual objective vanishes at the linear sample", [np.asarray(val, dtype=object).reshape(-1)[0]], [0])
        B.eq("linear model: its gradient vanishes at the linear sample", list(np.asarray(g, dtype=object).reshape(-1)), [0, 0])
        return
    lin, new = jcall(B, run, R, d, s, pos, xi, while_bound=12, fork=True)
    B.eq("linear model: the nonlinearly updated residual equals the linear residual", list(np.asarray(new, dtype=object).reshape(-1)),
         list(np.asarray(lin, dtype=object).reshape(-1)))


def scenarios(tier, seed):
    quick = [("cov", {"kind": "gauss_exp", "ndata": 1}),
             ("cov", {"kind": "poisson_exp", "ndata": 1}),
             ("pe", {"frozen": "b"}),
             ("pe", {"frozen": "a"}),
             ("ovi", {"nkeys": 1}),
             ("ovi_pe", {"frozen": "b"}),
             ("geo", {"ndata": 1, "part": "grad"}),
             ("geo", {"ndata": 1, "part": "newton"})]
    thorough = [("cov", {"kind": "gauss_exp", "ndata": 2}),
                ("ovi", {"nkeys": 2}),
                ("geo", {"ndata": 2, "part": "grad"}),
                ("geo", {"ndata": 2, "part": "newton"})]
    return quick if tier == "quick" else quick + thorough


HARNESSES = {"cov": h_cov, "pe": h_pe, "ovi": h_ovi, "ovi_pe": h_ovi_pe, "geo": h_geo}
OPTS = {"quick": {"max_paths": 400, "budget_s": 600, "jobs": 8, "branch_timeout_ms": 20000, "obl_timeout_ms": 120000},
        "thorough": {"max_paths": 2000, "budget_s": 2400, "jobs": 8, "branch_timeout_ms": 30000, "obl_timeout_ms": 300000}}

META = {
    "level": "other",
    "explanation": "draw_linear_residual traced for Gaussian and Poissonian likelihoods behind the nonlinear model R exp(x) (R, data, "
                   "noise, expansion point symbolic; exp uninterpreted): the map white noise -> residual has covariance "
                   "(1 + J^T M_lh J)^-1 and maps zero to zero; point-estimated keys get exactly zero residuals and the other keys the "
                   "covariance of the frozen model; OptimizeVI.draw_linear_samples yields exact +- pairs whose average is the expansion "
                   "point; for a linear model the geoVI update (compiled Newton-CG, one iteration, fork mode) returns the linear sample.",
    "functions_encoded": ["nifty.re.evi.{draw_linear_residual,sample_likelihood,_ham_metric,_process_point_estimate,nonlinearly_update_residual,"
                          "_nonlinear_residual_vg,_nonlinear_residual_metric,_nonlinear_residual_sampnorm,Samples}",
                          "nifty.re.optimize_kl.OptimizeVI.{__init__,draw_linear_samples}", "nifty.re.likelihood.{Likelihood.freeze,LikelihoodWithModel}",
                          "nifty.re.likelihood_impl.{Gaussian,Poissonian}", "nifty.re.optimize._static_newton_cg (geo)"],
    "bounds": {"signal dimension": 2, "data dimension": "1 (Gaussian: 2 thorough; Poissonian with 2 data points is inconclusive within 20 min and not claimed)", "keys": "1 (2 thorough)"},
    "stubs": ["nifty.re.evi.random_like returns the given white-noise arrays", "cg = exact jnp solve (the library's injection point)", "exp uninterpreted"],
    "outside": ["the classic draw_samples distribution (its task independence is C22, sampling operators C13)",
                "convergence of CG inside sampling (C15)", "more than one Newton iteration of the geoVI update", "statistical convergence of sample moments"],
    "assumptions": ["noise standard deviation > 0; Poissonian: positive response entries"],
}
