"""C07 -- fields are immutable once constructed.

Bounded history exploration of the real Field / AnyArray API: a history is
    constructor x (root handle -> chain of handle derivations -> mutation attempt) x ... (K rounds)
where every choice is a symbolic integer concretised by solver-decided forking, the field's initial entries and the
value that is written are symbolic reals.  After every round z3 must prove, for ALL values, that the field's entries
(read without side effects and through the public accessors) and the action of operators built from the field
(makeOp, Adder, GaussianEnergy) are what they were at construction.  A mutation attempt may be refused (exception) or
may hit a copy; it must never change the field."""
import numpy as np

from .. import symcore as sc
from ..clcommon import ift, setup_cl


def setup():
    setup_cl()


N = 3

CTORS = ["makeField", "Field", "from_raw_anyarray", "multifield", "sum", "scaled", "makeField_2d", "from_raw_0d", "makeField_0d"]


class _Sub(np.ndarray):
    """user-defined ndarray subclass (stands for np.matrix, masked arrays, memmaps, ...)"""


def _arr(B, x, shape=None):
    """the source array: an instance of an ndarray subclass in both back ends (the engine's SymArr / _Sub); what holds
    for it holds for plain ndarrays, for which np.asarray & co. are the identity"""
    a = np.array(x, dtype=object if B.mode == "sym" else np.float64)
    a = a.view(sc.SymArr) if B.mode == "sym" else a.view(_Sub)
    return a if shape is None else a.reshape(shape)


def _construct(B, ctor, vals):
    """-> (field whose immutability is checked, source array or None, expected entries)"""
    dom = ift.UnstructuredDomain(N)
    a = _arr(B, vals)
    if ctor == "makeField":
        return ift.makeField(dom, a), a, list(vals)
    if ctor == "Field":
        return ift.Field(ift.DomainTuple.make(dom), a), a, list(vals)
    if ctor == "from_raw_anyarray":
        return ift.Field.from_raw(dom, ift.AnyArray(a)), a, list(vals)
    if ctor == "multifield":
        mf = ift.makeField(ift.MultiDomain.make({"k": dom}), {"k": a})
        return mf["k"], a, list(vals)
    if ctor == "sum":           # a field produced by arithmetic: nobody else holds its buffer
        g = ift.makeField(dom, a)
        return g + g, None, [v + v for v in vals]
    if ctor == "scaled":
        g = ift.makeField(dom, a)
        return 3 * g, None, [3 * v for v in vals]
    if ctor in ("from_raw_0d", "makeField_0d"):      # a zero-dimensional source array on the scalar domain
        sdom = ift.DomainTuple.scalar_domain()
        a0 = _arr(B, vals[0]).reshape(())
        f0 = ift.Field.from_raw(sdom, a0) if ctor == "from_raw_0d" else ift.makeField(sdom, a0)
        return f0, a0, [vals[0]]
    if ctor == "makeField_2d":
        dom2 = ift.RGSpace((N, 1))
        a2 = a.reshape((N, 1))
        return ift.makeField(dom2, a2), a2, list(vals)
    raise sc.HarnessError(ctor)


# handle derivations: name -> (applicable type, function)
def _derivations():
    AA = ift.AnyArray
    D = [
        ("field.val", ift.Field, lambda h: h.val),
        ("field.raw", ift.Field, lambda h: h.raw),
        ("field.asnumpy()", ift.Field, lambda h: h.asnumpy()),
        ("field.val_rw()", ift.Field, lambda h: h.val_rw()),
        ("field.asnumpy_rw()", ift.Field, lambda h: h.asnumpy_rw()),
        ("field.ducktape-free view: field.val.view()", ift.Field, lambda h: h.val.view()),
        ("any.val", AA, lambda h: h.val),
        ("any.asnumpy()", AA, lambda h: h.asnumpy()),
        ("any.view()", AA, lambda h: h.view()),
        ("any.reshape(-1)", AA, lambda h: h.reshape(-1)),
        ("any[...]", AA, lambda h: h[...]),
        ("any[0:2]", AA, lambda h: h[0:2]),
        ("any.real", AA, lambda h: h.real),
        ("any.T", AA, lambda h: h.T),
        ("any.at(-1)", AA, lambda h: h.at(-1)),
        ("any.astype(copy=False)", AA, lambda h: h.astype(h.dtype, copy=False)),
        ("any.copy()", AA, lambda h: h.copy()),
        ("AnyArray(any)", AA, lambda h: AA(h)),
        ("nd.view()", np.ndarray, lambda h: h.view()),
        ("nd[0:2]", np.ndarray, lambda h: h[0:2]),
        ("nd.reshape(-1)", np.ndarray, lambda h: h.reshape(-1)),
        ("nd.ravel()", np.ndarray, lambda h: h.ravel()),
        ("nd.T", np.ndarray, lambda h: h.T),
        ("np.asarray(nd)", np.ndarray, lambda h: np.asarray(h)),
        ("AnyArray(nd)", np.ndarray, lambda h: AA(h)),
    ]
    return D


def _mutations():
    AA = ift.AnyArray

    def first(h):
        return (0,) * h.ndim

    def like(h, w):
        b = np.empty(h.shape, dtype=h.dtype)
        b[...] = w
        return b
    M = [
        ("nd[0] = w", np.ndarray, lambda h, w: h.__setitem__(first(h), w)),
        ("nd[...] = w", np.ndarray, lambda h, w: h.__setitem__(Ellipsis, w)),
        ("nd += w", np.ndarray, lambda h, w: h.__iadd__(w)),
        ("nd *= w", np.ndarray, lambda h, w: h.__imul__(w)),
        ("nd.fill(w)", np.ndarray, lambda h, w: h.fill(w)),
        ("np.copyto(nd, w)", np.ndarray, lambda h, w: np.copyto(h, like(h, w))),
        ("np.add(nd, w, out=nd)", np.ndarray, lambda h, w: np.add(h, w, out=h)),
        ("np.put(nd, [0], w)", np.ndarray, lambda h, w: np.put(h, [0], w)),
        ("any[0] = w", AA, lambda h, w: h.__setitem__(first(h), w)),
        ("any[...] = any", AA, lambda h, w: h.__setitem__(Ellipsis, AA(like(h, w)))),
        ("any += any", AA, lambda h, w: h.__iadd__(AA(like(h, w)))),
        ("any *= any", AA, lambda h, w: h.__imul__(AA(like(h, w)))),
        ("any += scalar", AA, lambda h, w: _iadd(h, w)),
        ("any *= scalar", AA, lambda h, w: _imul(h, w)),
        ("np.add(any, w, out=any)", AA, lambda h, w: np.add(h, w, out=h)),
        ("np.multiply(any, any, out=any)", AA, lambda h, w: np.multiply(h, AA(like(h, w)), out=h)),
        ("any.val[0] = w", AA, lambda h, w: h.val.__setitem__(first(h), w)),
        ("any.val.fill(w)", AA, lambda h, w: h.val.fill(w)),
        ("field.val[0] = w", ift.Field, lambda h, w: h.val.__setitem__(first(h.val), w)),
        ("field.raw[0] = w", ift.Field, lambda h, w: h.raw.__setitem__(first(h.raw), w)),
        ("field.val += any", ift.Field, lambda h, w: h.val.__iadd__(AA(like(h.val, w)))),
    ]
    return M


def _iadd(h, w):
    h += w
    return h


def _imul(h, w):
    h *= w
    return h


def _entries(B, f):
    """the field's entries read WITHOUT side effects (the public accessors set flags)"""
    raw = f._val._val
    return list(np.array(raw, dtype=object if B.mode == "sym" else np.float64, copy=True).reshape(-1))


def h_history(B, ctor, rounds, chain, root=None):
    vals = list(B.reals("v", (N,)))
    f, src, expected = _construct(B, ctor, vals)
    x = list(B.reals("x", (N,)))
    D, M = _derivations(), _mutations()
    fx = ift.makeField(f.domain, _arr(B, x[:f.size], f.shape))
    op0 = [np.array(o.val.val, dtype=object if B.mode == "sym" else np.float64, copy=True).reshape(-1) for o in _observe_ops(f, fx)]
    roots = [("field", f)] + ([("source array", src)] if src is not None else [])
    if root is not None:
        roots = [r for r in roots if r[0] == root]
        if not roots:
            B.assume(False)
    for rnd in range(rounds):
        w = B.reals(f"w{rnd}", ())
        i = B.pick(f"root{rnd}", 0, len(roots) - 1) if len(roots) > 1 else 0
        name, h = roots[i]
        hist = [name]
        for c in range(chain):
            app = [(nm, fn) for (nm, ty, fn) in D if isinstance(h, ty)]
            k = B.pick(f"derive{rnd}_{c}", 0, len(app))          # len(app) = stop deriving
            if k == len(app):
                break
            nm, fn = app[k]
            try:
                h = fn(h)
            except Exception as e:  # noqa: BLE001  a refused derivation ends the chain
                hist.append(f"{nm} raised {type(e).__name__}")
                break
            hist.append(nm)
            if not isinstance(h, (np.ndarray, ift.AnyArray, ift.Field)):
                break
        app = [(nm, fn) for (nm, ty, fn) in M if isinstance(h, ty)]
        if not app:
            B.assume(False)
        k = B.pick(f"mutate{rnd}", 0, len(app) - 1)
        nm, fn = app[k]
        try:
            fn(h, w)
            hist.append(nm + " (accepted)")
        except Exception as e:  # noqa: BLE001  refusing the write is the expected behaviour
            hist.append(f"{nm} refused: {type(e).__name__}")
        B.note("round %d: %s" % (rnd, " -> ".join(hist)))
        B.eq(f"round {rnd}: field entries unchanged", _entries(B, f), expected)
    B.eq("field.asnumpy() returns the entries given at construction", list(np.asarray(f.asnumpy()).reshape(-1)), expected)
    B.eq("field.val.val returns the entries given at construction", list(np.asarray(f.val.val).reshape(-1)), expected)
    op1 = [np.asarray(o.val.val).reshape(-1) for o in _observe_ops(f, fx)]
    for nm, a, b in zip(("makeOp(field)(x)", "Adder(field)(x)", "GaussianEnergy(data=field)(x)"), op0, op1):
        B.eq(f"{nm} unchanged", list(b), list(a))


def _observe_ops(f, fx):
    return [ift.makeOp(f)(fx), ift.Adder(f)(fx), ift.GaussianEnergy(data=f)(fx)]


def scenarios(tier, seed):
    quick, thorough = [], []
    for ctor in CTORS:
        quick.append(("history", {"ctor": ctor, "rounds": 1, "chain": 1}))
        thorough.append(("history", {"ctor": ctor, "rounds": 1, "chain": 2}))
    for ctor in ("makeField", "sum"):
        for root in ("field", "source array"):
            if ctor == "sum" and root != "field":
                continue
            thorough.append(("history", {"ctor": ctor, "rounds": 2, "chain": 1, "root": root}))
    return quick if tier == "quick" else quick + thorough


HARNESSES = {"history": h_history}
OPTS = {"quick": {"max_paths": 3000, "budget_s": 600, "jobs": 8, "branch_timeout_ms": 10000, "obl_timeout_ms": 20000},
        "thorough": {"max_paths": 60000, "budget_s": 3000, "jobs": 12, "branch_timeout_ms": 10000, "obl_timeout_ms": 30000}}

META = {
    "level": "other",
    "explanation": "Bounded history exploration of the real Field/AnyArray API on arrays of symbolic reals: constructor (9 kinds incl. zero-dimensional sources) x "
                   "rounds of [root handle (field or the source array) -> chain of handle derivations (25 kinds: val, raw, asnumpy, "
                   "views, slices, reshape, astype(copy=False), re-wrapping, ...) -> mutation attempt (21 kinds: item/slice assignment, "
                   "in-place operators, fill, copyto, put, ufunc out=, on ndarray / AnyArray / Field handles)]; every choice is a "
                   "symbolic integer concretised by solver-decided forking.  After every round z3 proves for ALL initial entries and "
                   "written values that the field's entries are those given at construction; at the end the public accessors and "
                   "makeOp/Adder/GaussianEnergy built from the field give the same results as before the history.",
    "functions_encoded": ["nifty.cl.any_array.AnyArray.{__init__,lock,readonly,asnumpy,view,copy,val,astype,__getitem__,__setitem__,"
                          "real,T,at,reshape,__array_ufunc__,__array_function__,__iadd__,__imul__}",
                          "nifty.cl.field.Field.{__init__,from_raw,val,raw,asnumpy,val_rw,asnumpy_rw}", "nifty.cl.sugar.{makeField,makeOp}"],
    "bounds": {"entries": 3, "rounds": "1 (2 thorough)", "derivation chain": "<= 1 (<= 2 thorough)"},
    "stubs": ["entries are read through the private attribute _val._val between rounds (public accessors change flags)"],
    "outside": ["deliberately re-enabling write access on the source array (flags.writeable = True / setflags)",
                "memory aliased by OTHER arrays before construction (the source being a view of a base array that is then written)",
                "cupy arrays", "ctypes / buffer-protocol writes"],
    "assumptions": [],
}
