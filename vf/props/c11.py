"""C11 -- classic likelihood energies are negative log-pdfs with Fisher metrics (front end A)."""
import numpy as np

from .. import shims_cl
from .. import symcore as sc
from ..clcommon import ift, field_of, flat_of, setup_cl, unflat, vdot_flat
from .c03 import Dual, d_fn

N = 2
U = ift.UnstructuredDomain


def setup():
    setup_cl()
    import nifty.cl.pointwise as pw
    import nifty.cl.operators.energy_operators as eo
    import nifty.cl.operators.scaling_operator as so
    import nifty.cl.operators.diagonal_operator as do
    for m in (pw, eo, so, do):
        shims_cl.proxy_np(m)


def _dt(B):
    """sampling dtype matching the dtype of the data field in this mode"""
    return object if B.mode == "sym" else np.float64


def _log(B, u):
    return d_fn("log", u, B)


def _sum(lst):
    r = Dual(0, 0)
    for u in lst:
        r = r + u
    return r


# --------------------------------------------------------------------------
# energies: builder -> (energy operator, domain, ref)
#   ref(xd: list of Dual) -> (nlp: Dual, fisher_apply(dxlist)-> list)  in the energy's own parameter space


def e_gauss(B, cfg):
    dom = ift.DomainTuple.make(U(N))
    d = B.reals("dat", (N,))
    kind = cfg["icov"]
    if kind == "none":
        en = ift.GaussianEnergy(field_of(dom, d))
        icov = lambda v: v
    elif kind == "scaling":
        s = B.reals("ns")
        B.assume(s > 0)
        en = ift.GaussianEnergy(field_of(dom, d), ift.ScalingOperator(dom, s, _dt(B)))
        icov = lambda v: [s * t for t in v]
    elif kind == "diag":
        n = B.reals("nd", (N,))
        B.assume_all([t > 0 for t in n])
        en = ift.GaussianEnergy(field_of(dom, d), ift.makeOp(field_of(dom, n), sampling_dtype=_dt(B)))
        icov = lambda v: [a * t for a, t in zip(n, v)]
    elif kind == "sandwich":
        n = B.reals("nd", (N,))
        m = B.reals("rm", (N, N))
        B.assume_all([t > 0 for t in n])
        R = ift.MatrixProductOperator(dom, m)
        en = ift.GaussianEnergy(field_of(dom, d), ift.SandwichOperator.make(R, ift.makeOp(field_of(dom, n), sampling_dtype=_dt(B))))

        def icov(v):
            rv = [sum_(m[i, j] * v[j] for j in range(N)) for i in range(N)]
            nrv = [n[i] * rv[i] for i in range(N)]
            return [sum_(m[i, j] * nrv[i] for i in range(N)) for j in range(N)]
    else:
        raise ValueError(kind)

    def ref(x):
        r = [u - di for u, di in zip(x, d)]
        nr = icov(r)
        return 0.5 * _sum([a * b for a, b in zip(r, nr)]), icov
    return en, dom, ref, {}


def sum_(it):
    r = 0
    for t in it:
        r = r + t
    return r


def e_poisson(B, cfg):
    dom = ift.DomainTuple.make(U(N))
    d = np.array(cfg["d"], dtype=np.int64)
    en = ift.PoissonianEnergy(ift.makeField(dom, d))

    def ref(x):
        for u in x:
            B.assume(u.v > 0)
        val = _sum(x) - _sum([_log(B, u) * int(k) for u, k in zip(x, d)])
        return val, (lambda v: [t / u.v for t, u in zip(v, x)])
    return en, dom, ref, {"pos": True}


def e_bernoulli(B, cfg):
    dom = ift.DomainTuple.make(U(N))
    d = np.array(cfg["d"], dtype=np.int64)
    en = ift.BernoulliEnergy(ift.makeField(dom, d))

    def ref(x):
        for u in x:
            B.assume(u.v > 0)
            B.assume(u.v < 1)
        val = _sum([-(_log(B, u) * int(k)) - _log(B, 1 - u) * (1 - int(k)) for u, k in zip(x, d)])
        return val, (lambda v: [t / (u.v * (1 - u.v)) for t, u in zip(v, x)])
    return en, dom, ref, {}


def e_studentt(B, cfg):
    dom = ift.DomainTuple.make(U(N))
    if cfg["theta"] == "scalar":
        th = B.reals("th")
        B.assume(th > 0)
        ths = [th] * N
        en = ift.StudentTEnergy(dom, th)
    else:
        tf = B.reals("th", (N,))
        B.assume_all([t > 0 for t in tf])
        ths = list(tf)
        en = ift.StudentTEnergy(dom, field_of(dom, tf))

    def ref(x):
        val = _sum([d_fn("log1p", u * u / t, B) * ((t + 1) / 2) for u, t in zip(x, ths)])
        return val, (lambda v: [w * (t + 1) / (t + 3) for w, t in zip(v, ths)])
    return en, dom, ref, {}


def e_invgamma(B, cfg):
    dom = ift.DomainTuple.make(U(N))
    beta = np.array(cfg["beta"], dtype=np.float64)
    if cfg["alpha"] == "field":
        af = B.reals("al", (N,))
        B.assume_all([t > -1 for t in af])
        alphas = list(af)
        en = ift.InverseGammaEnergy(ift.makeField(dom, beta), field_of(dom, af))
    else:
        # alpha + 1 must have an exact floating-point square root (the code takes
        # np.sqrt of the concrete number; a rounded constant is outside exact arithmetic)
        alphas = [cfg["alpha"]] * N
        en = ift.InverseGammaEnergy(ift.makeField(dom, beta), cfg["alpha"])

    def ref(x):
        for u in x:
            B.assume(u.v > 0)
        val = _sum([_log(B, u) * (a + 1) + (1 / u) * float(b) for u, b, a in zip(x, beta, alphas)])
        return val, (lambda v: [w * (a + 1) / (u.v * u.v) for w, u, a in zip(v, x, alphas)])
    return en, dom, ref, {}


def e_categorical(B, cfg):
    dom = ift.DomainTuple.make((U(2), U(2)))
    d = np.array(cfg["d"], dtype=np.int64).reshape(2, 2)
    en = ift.CategoricalEnergy(ift.makeField(dom, d), axis=0)

    def ref(x):
        for u in x:
            B.assume(u.v > 0)
        val = _sum([-(_log(B, u) * int(k)) for u, k in zip(x, d.reshape(-1))])
        return val, (lambda v: [w / u.v for w, u in zip(v, x)])
    return en, dom, ref, {}


def e_varcov(B, cfg):
    d1 = ift.DomainTuple.make(U(N))
    en = ift.VariableCovarianceGaussianEnergy(d1, "r", "i", np.float64, use_full_fisher=True)
    dom = en.domain   # keys in MultiDomain order

    def ref(x):
        # x is flat in domain key order: i first, then r (sorted keys)
        keys = list(dom.keys())
        parts = {k: x[j * N:(j + 1) * N] for j, k in enumerate(keys)}
        r, i = parts["r"], parts["i"]
        for u in i:
            B.assume(u.v > 0)
        val = 0.5 * (_sum([a * a * b for a, b in zip(r, i)]) - _sum([_log(B, u) for u in i]))

        def fisher(v):
            pv = {k: v[j * N:(j + 1) * N] for j, k in enumerate(keys)}
            out = {"r": [w * u.v for w, u in zip(pv["r"], i)], "i": [w * 0.5 / (u.v * u.v) for w, u in zip(pv["i"], i)]}
            return [t for k in keys for t in out[k]]
        return val, fisher
    return en, dom, ref, {"no_trafo_identity": True}


def e_specialgamma(B, cfg):
    from nifty.cl.operators.energy_operators import _SpecialGammaEnergy
    dom = ift.DomainTuple.make(U(N))
    if cfg.get("cplx"):
        # complex residual (two real degrees of freedom per entry): E = 0.5 sum |r|^2 x - sum log x, Fisher information 1 / x^2
        r = B.values("res", (N,), cplx=True)
        with shims_cl.complex_mode(True):          # the class decides real / complex from the residual's dtype in its constructor
            en = _SpecialGammaEnergy(field_of(dom, r))

        def refc(x):
            for u in x:
                B.assume(u.v > 0)
            r2 = [(sc._lift(a).conjugate() * a).real if B.mode == "sym" else abs(complex(a)) ** 2 for a in list(np.asarray(r, dtype=object).reshape(-1))]
            val = 0.5 * _sum([a * u for a, u in zip(r2, x)]) - _sum([_log(B, u) for u in x])
            return val, (lambda v: [w / (u.v * u.v) for w, u in zip(v, x)])
        return en, dom, refc, {}
    r = B.reals("res", (N,))
    en = _SpecialGammaEnergy(field_of(dom, r))

    def ref(x):
        for u in x:
            B.assume(u.v > 0)
        val = 0.5 * (_sum([a * a * u for a, u in zip(r, x)]) - _sum([_log(B, u) for u in x]))
        return val, (lambda v: [w * 0.5 / (u.v * u.v) for w, u in zip(v, x)])
    return en, dom, ref, {}


ENERGIES = {
    "gauss": (e_gauss, [{"icov": k} for k in ("none", "scaling", "diag", "sandwich")]),
    "poisson": (e_poisson, [{"d": [0, 3]}, {"d": [2, 1]}]),
    "bernoulli": (e_bernoulli, [{"d": [0, 1]}, {"d": [1, 1]}]),
    "studentt": (e_studentt, [{"theta": "scalar"}, {"theta": "field"}]),
    "invgamma": (e_invgamma, [{"beta": [1.5, 0.25], "alpha": 3.0}, {"beta": [2.0, 1.0], "alpha": "field"}]),
    "categorical": (e_categorical, [{"d": [1, 0, 0, 1]}, {"d": [0, 0, 1, 1]}]),
    "varcov": (e_varcov, [{}]),
    "specialgamma": (e_specialgamma, [{}, {"cplx": True}]),
}

# wrappers: how the bare likelihood is embedded


def wrap(B, en, dom, ref, wkind):
    """-> (operator H, its domain, ref on the new input space)"""
    if wkind == "bare":
        return en, dom, ref
    if wkind == "scaled":
        s = B.reals("sc")
        B.assume(s > 0)
        H = ift.ScalingOperator(ift.DomainTuple.scalar_domain(), s) @ en

        def r2(x):
            v, f = ref(x)
            return v * s, (lambda w: [s * t for t in f(w)])
        return H, dom, r2
    if wkind in ("linmodel", "expmodel"):
        if isinstance(dom, ift.MultiDomain):
            raise sc.HarnessError("model wrappers only for single-domain energies")
        w = B.reals("mw", (dom.size,))
        if wkind == "linmodel":
            model = ift.makeOp(field_of(dom, w.reshape(dom.shape)))
            fwd = lambda x: [u * t for u, t in zip(x, w)]
        else:
            model = ift.makeOp(field_of(dom, w.reshape(dom.shape))) @ ift.ScalingOperator(dom, 1.).exp()
            fwd = lambda x: [d_fn("exp", u, B) * t for u, t in zip(x, w)]
        H = en @ model

        def r2(x):
            mx = fwd(x)
            v, f = ref(mx)

            def fisher(dx):
                # pull-back J^T F J with J from dual numbers, component by component
                jdx = [u.d for u in fwd([Dual(a.v, b) for a, b in zip(x, dx)])]
                fj = f(jdx)
                out = []
                for k in range(len(x)):
                    ek = [1 if j == k else 0 for j in range(len(x))]
                    jek = [u.d for u in fwd([Dual(a.v, b) for a, b in zip(x, ek)])]
                    out.append(sum_(a * b for a, b in zip(jek, fj)))
                return out
            return v, fisher
        return H, dom, r2
    if wkind == "hamiltonian":
        H = ift.StandardHamiltonian(en)

        def r2(x):
            v, f = ref(x)
            return v + 0.5 * _sum([u * u for u in x]), (lambda w: [a + b for a, b in zip(f(w), w)])
        return H, dom, r2
    if wkind == "averaged":
        s1 = B.reals("s1", (dom.size,))
        s2 = B.reals("s2", (dom.size,))
        H = ift.AveragedEnergy(ift.StandardHamiltonian(en), [unflat(dom, s1), unflat(dom, s2)])

        def r2(x):
            tot = None
            fs = []
            for s in (s1, s2):
                xs = [u + t for u, t in zip(x, s)]
                v, f = ref(xs)
                v = v + 0.5 * _sum([u * u for u in xs])
                tot = v if tot is None else tot + v
                fs.append(f)
            return tot * 0.5, (lambda w: [0.5 * (a + b) + c for a, b, c in zip(fs[0](w), fs[1](w), w)])
        return H, dom, r2
    raise ValueError(wkind)


def h_energy(B, name, cfg, wkind):
    builder, _ = ENERGIES[name]
    with B.setup():
        en, dom, ref, flags = builder(B, cfg)
    n = dom.size
    x = B.reals("x", (n,))
    dx = B.reals("dx", (n,))
    with B.setup():
        H, dom, ref = wrap(B, en, dom, ref, wkind)
    # reference first (validity assumptions precede the code under test)
    xd = [Dual(a, b) for a, b in zip(x, dx)]
    val, fisher = ref(xd)
    xf, dxf = unflat(dom, x), unflat(dom, dx)
    plain = H(xf)
    B.eq("energy value == documented negative log-probability", flat_of(plain), [val.v])
    lin = H(ift.Linearization.make_var(xf, want_metric=True))
    B.eq("Linearization value == plain value", flat_of(lin.val), [val.v])
    B.eq("Jacobian(dx) == exact directional derivative", flat_of(lin.jac(dxf)), [val.d])
    B.eq("<gradient,dx> == exact directional derivative", vdot_flat(flat_of(lin.gradient), dx), val.d)
    B.is_true("metric present", lin.metric is not None)
    mdx = lin.metric(dxf)
    B.eq("metric(dx) == Fisher information applied to dx", flat_of(mdx), fisher(list(dx)))
    # coordinate transformation: metric is the pull-back of the identity
    if wkind in ("bare", "scaled", "linmodel", "expmodel") and not flags.get("no_trafo_identity"):
        tr = H.get_transformation()
        B.is_true("transformation provided", tr is not None)
        _, trafo = tr
        jl = trafo(ift.Linearization.make_var(xf))
        jtj = jl.jac.adjoint_times(jl.jac(dxf))
        B.eq("J^T J dx == metric dx for the transformation's Jacobian", flat_of(jtj), flat_of(mdx))


def h_sum(B, cfg):
    """_LikelihoodSum of two likelihoods on different keys + Hamiltonian"""
    da = ift.DomainTuple.make(U(N))
    dat = B.reals("dat", (N,))
    g = ift.GaussianEnergy(field_of(da, dat)) @ ift.ducktape(da, None, "a")
    p = ift.PoissonianEnergy(ift.makeField(da, np.array([1, 2]))) @ ift.ducktape(da, None, "b").exp()
    lh = g + p
    H = ift.StandardHamiltonian(lh)
    dom = H.domain
    keys = list(dom.keys())
    x = {k: B.reals("x" + k, (N,)) for k in keys}
    dx = {k: B.reals("d" + k, (N,)) for k in keys}
    a = [Dual(u, v) for u, v in zip(x["a"], dx["a"])]
    b = [Dual(u, v) for u, v in zip(x["b"], dx["b"])]
    lam = [d_fn("exp", u, B) for u in b]
    val = 0.5 * _sum([(u - t) * (u - t) for u, t in zip(a, dat)]) + _sum(lam) - _sum([u * k for u, k in zip(b, (1, 2))])
    val = val + 0.5 * _sum([u * u for u in a + b])
    xf = ift.MultiField.from_dict({k: field_of(da, x[k]) for k in keys}, dom)
    dxf = ift.MultiField.from_dict({k: field_of(da, dx[k]) for k in keys}, dom)
    lin = H(ift.Linearization.make_var(xf, want_metric=True))
    B.eq("sum: value", flat_of(lin.val), [val.v])
    B.eq("sum: Jacobian", flat_of(lin.jac(dxf)), [val.d])
    want = {"a": [2 * t for t in dx["a"]], "b": [(l.v + 1) * t for l, t in zip(lam, dx["b"])]}
    B.eq("sum: metric == block Fisher + prior", flat_of(lin.metric(dxf)), [t for k in keys for t in want[k]])


def h_nested(B, grouping):
    """sums of likelihood energies in every grouping equal the sum of the individual terms (value, Jacobian, metric)"""
    da = ift.DomainTuple.make(U(N))
    dats = [B.reals(f"dat{i}", (N,)) for i in range(4)]
    terms = [ift.GaussianEnergy(field_of(da, dats[0])) @ ift.ducktape(da, None, "a"),
             ift.GaussianEnergy(field_of(da, dats[1])) @ ift.ducktape(da, None, "a").exp(),
             ift.PoissonianEnergy(ift.makeField(da, np.array([1, 2]))) @ ift.ducktape(da, None, "a").exp(),
             ift.GaussianEnergy(field_of(da, dats[3])) @ (2. * ift.ducktape(da, None, "a"))]
    a, b, c, d = terms
    lh = {"(a+b)+c": lambda: (a + b) + c, "a+(b+c)": lambda: a + (b + c), "(a+b)+(c+d)": lambda: (a + b) + (c + d),
          "a+((b+c)+d)": lambda: a + ((b + c) + d)}[grouping]()
    used = terms if "d" in grouping else terms[:3]
    x = B.reals("x", (N,))
    dx = B.reals("dx", (N,))
    xf = ift.MultiField.from_dict({"a": field_of(da, x)})
    dxf = ift.MultiField.from_dict({"a": field_of(da, dx)})
    lin = lh(ift.Linearization.make_var(xf, want_metric=True))
    parts = [t(ift.Linearization.make_var(xf, want_metric=True)) for t in used]
    B.is_true("domain of the sum", lh.domain is used[0].domain)
    B.eq(f"{grouping}: value == sum of the terms", flat_of(lin.val), [sum((flat_of(p.val)[0] for p in parts), 0)])
    B.eq(f"{grouping}: Jacobian == sum of the terms", flat_of(lin.jac(dxf)), [sum((flat_of(p.jac(dxf))[0] for p in parts), 0)])
    mets = [flat_of(p.metric(dxf)) for p in parts]
    B.eq(f"{grouping}: metric == sum of the terms", flat_of(lin.metric(dxf)), [sum((m[i] for m in mets), 0) for i in range(N)])


def h_cgauss(B, model, icov):
    """complex Gaussian likelihood behind a complex linear model: the metric is the
    Hermitian pull-back J^H N^-1 J (|f|^2 N^-1 for a scaling), not J^T N^-1 J"""
    with shims_cl.complex_mode(True):
        dom = ift.DomainTuple.make(U(N))
        cdt = object if B.mode == "sym" else np.complex128
        d = B.complexes("dat", (N,))
        x = B.complexes("x", (N,))
        dx = B.complexes("dx", (N,))
        if icov == "diag":
            n = B.reals("nd", (N,))
            B.assume_all([t > 0 for t in n])
            ic = ift.makeOp(field_of(dom, n), sampling_dtype=cdt)
        elif icov == "scaling":
            ns = B.reals("ns")
            B.assume(ns > 0)
            n = [ns] * N
            ic = ift.ScalingOperator(dom, ns, cdt)
        else:
            n = [1] * N
            ic = None
        f = B.complexes("f")
        w = B.complexes("w", (N,))
        with B.setup():
            en = ift.GaussianEnergy(field_of(dom, d), ic)
            if model == "cscale":
                mop = ift.ScalingOperator(dom, f)
                J = [f] * N
            elif model == "cdiag":
                mop = ift.makeOp(field_of(dom, w))
                J = list(w)
            elif model == "cscale_diag":
                mop = ift.ScalingOperator(dom, f) @ ift.makeOp(field_of(dom, w))
                J = [f * t for t in w]
            elif model == "half_cscale":      # 0.5 * lh behind a scaling (scaled likelihood)
                mop = ift.ScalingOperator(dom, f)
                J = [f] * N
            else:
                raise ValueError(model)
            H = en @ mop
            fac = 1
            if model == "half_cscale":
                H = ift.ScalingOperator(ift.DomainTuple.scalar_domain(), 0.5) @ H
                fac = 0.5
        xf, dxf = field_of(dom, x), field_of(dom, dx)
        r = [j * a - b for j, a, b in zip(J, x, d)]
        val = fac * 0.5 * sum_(t.conjugate() * k * t for t, k in zip(r, n))
        lin = H(ift.Linearization.make_var(xf, want_metric=True))
        B.eq("complex Gaussian: value", flat_of(lin.val), [val])
        B.eq("complex Gaussian: gradient == J^H N^-1 r", flat_of(lin.gradient),
             [fac * j.conjugate() * k * t for j, k, t in zip(J, n, r)])
        mdx = lin.metric(dxf)
        B.eq("complex Gaussian: metric(dx) == J^H N^-1 J dx", flat_of(mdx),
             [fac * j.conjugate() * k * j * t for j, k, t in zip(J, n, dx)])
        tr = H.get_transformation()
        B.is_true("transformation provided", tr is not None)
        jl = tr[1](ift.Linearization.make_var(xf))
        B.eq("complex Gaussian: J^H J dx == metric dx for the transformation", flat_of(jl.jac.adjoint_times(jl.jac(dxf))), flat_of(mdx))
        m2 = H.get_metric_at(xf)(dxf)
        B.eq("complex Gaussian: get_metric_at == metric", flat_of(m2), flat_of(mdx))


def scenarios(tier, seed):
    out = []
    for model in ("cscale", "cdiag", "cscale_diag", "half_cscale"):
        for icov in ("none", "scaling", "diag"):
            if tier == "quick" and model == "half_cscale" and icov != "diag":
                continue    # 20-60 s each: thorough tier
            out.append(("cgauss", {"model": model, "icov": icov}))
    for name, (_, cfgs) in ENERGIES.items():
        for cfg in cfgs:
            wk = ["bare", "scaled", "hamiltonian"]
            if name not in ("varcov",):
                wk += ["linmodel", "expmodel", "averaged"]
            if name in ("bernoulli", "categorical") :
                wk = [w for w in wk if w not in ("expmodel", "averaged")]
            for w in wk:
                out.append(("energy", {"name": name, "cfg": cfg, "wkind": w}))
    out.append(("sum", {"cfg": {}}))
    for grp in ("(a+b)+c", "a+(b+c)", "(a+b)+(c+d)", "a+((b+c)+d)"):
        out.append(("nested", {"grouping": grp}))
    return out


HARNESSES = {"energy": h_energy, "sum": h_sum, "nested": h_nested, "cgauss": h_cgauss}
OPTS = {"quick": {"max_paths": 64}, "thorough": {"max_paths": 128}}

META = {
    "level": "other",
    "explanation": "Every classic likelihood energy is built through its public constructor and evaluated on "
                   "Linearization.make_var(x, want_metric=True) with symbolic parameters, directions and real-valued data; "
                   "z3 refutes, for ALL parameter values in the distribution's support: value != documented negative "
                   "log-probability, Jacobian/gradient != its exact (dual-number) derivative, metric(dx) != closed-form "
                   "Fisher information (N^-1, 1/lambda, 1/(p(1-p)), (theta+1)/(theta+3), (alpha+1)/x^2, diag(1/p), "
                   "diag(i, 1/(2 i^2)), ...), J^T J != metric for get_transformation().  The same for scaled, "
                   "model-composed (linear, exp), summed, Hamiltonian and sample-averaged versions.",
    "functions_encoded": ["nifty.cl.operators.energy_operators.{GaussianEnergy,PoissonianEnergy,BernoulliEnergy,StudentTEnergy,"
                          "InverseGammaEnergy,CategoricalEnergy,VariableCovarianceGaussianEnergy,_SpecialGammaEnergy,"
                          "Squared2NormOperator,QuadraticFormOperator,_LikelihoodChain,_LikelihoodSum,StandardHamiltonian,"
                          "AveragedEnergy}.{apply,get_transformation,get_metric_at}",
                          "nifty.cl.operators.sandwich_operator.SandwichOperator.make", "nifty.cl.linearization.Linearization.add_metric/prepend_jac"],
    "bounds": {"pixels": 2, "integer data": "two concrete data sets per discrete likelihood"},
    "stubs": shims_cl.STUBS[:5],
    "outside": ["VariableCovarianceGaussianEnergy(use_full_fisher=False) (metric only equals the Fisher information in "
                "expectation over data)", "complex sampling dtypes other than the Gaussian likelihood", "float32"],
    "assumptions": ["parameters inside the support (rates > 0, 0 < p < 1, covariances > 0, theta > 0)"],
}
