"""C33 -- pytree vector arithmetic and custom maps match flat-array semantics (front end B: jaxpr IR).

Vector / tree_math operations are traced on generated nested structures and
compared with the same operation on the concatenated flat symbolic array
(explicit Python sums).  smap / lmap are compared with jax.vmap for an
UNINTERPRETED mapped function (custom JAX primitive -> fresh symbols with
congruence), for every in_axes / out_axes combination."""
import itertools

import numpy as np

from .. import symcore as sc
from ..jaxpr_interp import jcall, jax, jnp, make_uf
from .c12 import setup, _flat, jft  # noqa: F401

STRUCTS = {
    "array": lambda mk: mk("x", (3,)),
    "dict": lambda mk: {"a": mk("a", (2,)), "b": mk("b", (3,))},
    "nested": lambda mk: {"a": mk("a", (2,)), "b": (mk("b0", (1,)), mk("b1", ()))},
    "list2d": lambda mk: [mk("m", (2, 2)), mk("v", (1,))],
}


def build(B, struct, prefix, cplx):
    return STRUCTS[struct](lambda n, shp: B.values(prefix + n, shp, cplx))


def _conj(v):
    return v.conjugate() if hasattr(v, "conjugate") else v


def _abs2(v):
    v = sc._lift(v) if not isinstance(v, (float, complex, np.floating, np.complexfloating)) else v
    if isinstance(v, sc.SC):
        return v.r * v.r + v.i * v.i
    if isinstance(v, (complex, np.complexfloating)):
        return v.real ** 2 + v.imag ** 2
    return v * v


def _sqrt(v):
    return v.sqrt() if isinstance(v, (sc.SR, sc.SC)) else np.sqrt(v)


def _absv(v):
    if isinstance(v, (sc.SC, complex, np.complexfloating)):
        return _sqrt(_abs2(v))
    return abs(v)


def _smax(lst):
    m = lst[0]
    for v in lst[1:]:
        m = sc._lift(m).maximum(v) if isinstance(m, sc.SR) or isinstance(v, sc.SR) else max(m, v)
    return m


def _smin(lst):
    m = lst[0]
    for v in lst[1:]:
        m = sc._lift(m).minimum(v) if isinstance(m, sc.SR) or isinstance(v, sc.SR) else min(m, v)
    return m


def _tree_of(v):
    return v.tree if hasattr(v, "tree") else v


def h_vector(B, struct, cplx):
    J = jft()
    a, b = build(B, struct, "a", cplx), build(B, struct, "b", cplx)
    s = B.values("s", (), cplx)
    fa, fb = _flat(a), _flat(b)
    V = J.Vector
    ops = {
        "a+b": (lambda a, b, s: (V(a) + V(b)).tree, [u + v for u, v in zip(fa, fb)]),
        "a-b": (lambda a, b, s: (V(a) - V(b)).tree, [u - v for u, v in zip(fa, fb)]),
        "a*b": (lambda a, b, s: (V(a) * V(b)).tree, [u * v for u, v in zip(fa, fb)]),
        "a/b": (lambda a, b, s: (V(a) / V(b)).tree, [u / v for u, v in zip(fa, fb)]),
        "s*a": (lambda a, b, s: (s * V(a)).tree, [s * u for u in fa]),
        "a*s": (lambda a, b, s: (V(a) * s).tree, [u * s for u in fa]),
        "a+s": (lambda a, b, s: (V(a) + s).tree, [u + s for u in fa]),
        "s-a": (lambda a, b, s: (s - V(a)).tree, [s - u for u in fa]),
        "s/a": (lambda a, b, s: (s / V(a)).tree, [s / u for u in fa]),
        "-a": (lambda a, b, s: (-V(a)).tree, [-u for u in fa]),
        "a**2": (lambda a, b, s: (V(a) ** 2).tree, [u * u for u in fa]),
        "conj": (lambda a, b, s: V(a).conj().tree, [_conj(u) for u in fa]),
        "vdot": (lambda a, b, s: J.vdot(V(a), V(b)), [sum_(_conj(u) * v for u, v in zip(fa, fb))]),
        "vdot(trees)": (lambda a, b, s: J.vdot(a, b), [sum_(_conj(u) * v for u, v in zip(fa, fb))]),
        "dot / @ (no conjugation)": (lambda a, b, s: V(a) @ V(b), [sum_(u * v for u, v in zip(fa, fb))]),
        "Vector.dot": (lambda a, b, s: V(a).dot(V(b)), [sum_(u * v for u, v in zip(fa, fb))]),
        "sum": (lambda a, b, s: J.sum(V(a)), [sum_(fa)]),
        "zeros_like": (lambda a, b, s: J.zeros_like(V(a)).tree, [0] * len(fa)),
        "ones_like": (lambda a, b, s: J.ones_like(V(a)).tree, [1] * len(fa)),
        "norm2^2": (lambda a, b, s: J.norm(V(a), 2) ** 2, [sum_(_abs2(u) for u in fa)]),
    }
    if cplx:
        ops["real"] = (lambda a, b, s: V(a).real.tree, [u.real for u in fa])
        ops["imag"] = (lambda a, b, s: V(a).imag.tree, [u.imag for u in fa])
    else:
        ops["abs"] = (lambda a, b, s: abs(V(a)).tree, [_absv(u) for u in fa])
        ops["max"] = (lambda a, b, s: J.max(V(a)), [_smax(fa)])
        ops["min"] = (lambda a, b, s: J.min(V(a)), [_smin(fa)])
        ops["norm1"] = (lambda a, b, s: J.norm(V(a), 1), [sum_(_absv(u) for u in fa)])
        ops["norm_inf"] = (lambda a, b, s: J.norm(V(a), np.inf), [_smax([_absv(u) for u in fa])])
        ops["where(a>b,a,b)"] = (lambda a, b, s: J.where(V(a) > V(b), V(a), V(b)).tree,
                                 [(_smax([u, v])) for u, v in zip(fa, fb)])
        def ind(c):       # indicator of a symbolic / concrete truth value
            return sc.ite(c, 1, 0) if isinstance(c, sc.SB) else (1 if c else 0)
        one, zero = (lambda a: J.ones_like(V(a))), (lambda a: J.zeros_like(V(a)))
        # every comparison operator, ties included (the solver is free to make entries equal)
        ops["a>=b"] = (lambda a, b, s: J.where(V(a) >= V(b), one(a), zero(a)).tree, [ind(u >= v) for u, v in zip(fa, fb)])
        ops["a<=b"] = (lambda a, b, s: J.where(V(a) <= V(b), one(a), zero(a)).tree, [ind(u <= v) for u, v in zip(fa, fb)])
        ops["a<b"] = (lambda a, b, s: J.where(V(a) < V(b), one(a), zero(a)).tree, [ind(u < v) for u, v in zip(fa, fb)])
        ops["a>=s"] = (lambda a, b, s: J.where(V(a) >= s, one(a), zero(a)).tree, [ind(u >= s) for u in fa])
        ops["s<=a (reflected)"] = (lambda a, b, s: J.where(s <= V(a), one(a), zero(a)).tree, [ind(u >= s) for u in fa])
        ops["s>=a (reflected)"] = (lambda a, b, s: J.where(s >= V(a), one(a), zero(a)).tree, [ind(u <= s) for u in fa])
        ops["where(a>0,a,s)"] = (lambda a, b, s: J.where(V(a) > 0., V(a), s).tree,
                                 [sc.ite(u > 0, u, s) if isinstance(u, sc.SR) else (u if u > 0 else s) for u in fa])
        # scalar branches that have to be broadcast to the tree structure of the condition
        ops["where(a>b,s,2s) (both branches scalar)"] = (lambda a, b, s: _tree_of(J.where(V(a) > V(b), s, 2. * s)),
                                                        [sc.ite(u > v, s, 2 * s) if isinstance(u > v, sc.SB) else (s if u > v else 2 * s) for u, v in zip(fa, fb)])
        ops["where(a>0,s,a) (scalar first branch)"] = (lambda a, b, s: _tree_of(J.where(V(a) > 0., s, V(a))),
                                                      [sc.ite(u > 0, s, u) if isinstance(u, sc.SR) else (s if u > 0 else u) for u in fa])
    B.is_true("size == number of elements of the flat array", J.size(V(jax.tree_util.tree_map(lambda l: np.zeros(np.shape(l)), a))) == len(fa))
    for name, (fn, want) in ops.items():
        got = jcall(B, fn, a, b, s)
        B.eq(f"{name} == flat-array semantics", _flat(got), want)


def sum_(it):
    r = 0
    for t in it:
        r = r + t
    return r


def h_maps(B, which, in_axes, out_axes, two_in):
    """smap / lmap == jax.vmap for an uninterpreted mapped function"""
    J = jft()
    nb = 3
    f1 = make_uf(B, "f", (2,))
    if two_in:
        def fun(x, y):
            return f1(jnp.concatenate([jnp.ravel(x), jnp.ravel(y)]))
    else:
        def fun(x):
            return f1(jnp.ravel(x))
    shapes = []
    axes = in_axes if isinstance(in_axes, (list, tuple)) else [in_axes] * (2 if two_in else 1)
    for k, ax in enumerate(axes):
        inner = (2,) if k == 0 else (1,)
        if ax is None:
            shapes.append(inner)
        else:
            shp = list(inner)
            shp.insert(ax, nb)
            shapes.append(tuple(shp))
    xs = [B.reals(f"x{k}", shp) for k, shp in enumerate(shapes)]
    ia = tuple(axes) if two_in else axes[0]
    mp = {"smap": J.smap, "lmap": J.lmap}[which]
    import jax._src.core as jcore
    old_dev = getattr(jcore.Tracer, "devices", None)
    if which == "lmap" and B.mode == "sym":
        # lmap is a Python loop that asks its inputs for their devices (placement only; outside the claim):
        # while tracing, abstract values report "no device"
        jcore.Tracer.devices = lambda self: set()
    try:
        got = jcall(B, lambda *a: mp(fun, in_axes=ia, out_axes=out_axes)(*a), *xs)
    finally:
        if old_dev is not None:
            jcore.Tracer.devices = old_dev
    ref = jcall(B, lambda *a: jax.vmap(fun, in_axes=ia, out_axes=out_axes)(*a), *xs)
    B.is_true("same output shape as jax.vmap", np.shape(got) == np.shape(ref))
    B.eq(f"{which}(f) == jax.vmap(f) for an arbitrary f", _flat(got), _flat(ref))
    # and vmap itself is the slice-wise application (anchors both to the definition)
    want = []
    for i in range(nb):
        args = [(x if ax is None else np.take(x, i, axis=ax)) for x, ax in zip(xs, axes)]
        want.append(_flat(jcall(B, fun, *args)))
    w = np.array(want, dtype=object)            # (nb, 2)
    if out_axes == 1:
        w = w.T
    B.eq(f"{which}(f) == slice-wise application of f", _flat(got), list(w.reshape(-1)))


def h_stack(B):
    J = jft()
    a = {"a": B.reals("a", (2,)), "b": B.reals("b", ())}
    b = {"a": B.reals("c", (2,)), "b": B.reals("d", ())}
    st = jcall(B, lambda a, b: J.stack((a, b)), a, b)
    B.eq("stack puts the trees along a new leading axis", _flat(st), list(np.stack([a["a"], b["a"]]).reshape(-1)) + [a["b"], b["b"]])
    un = jcall(B, lambda a, b: J.unstack(J.stack((a, b))), a, b)
    B.eq("unstack(stack(.)) is the identity", _flat(un), _flat((a, b)))
    mean = jcall(B, lambda a, b: J.mean((a, b)), a, b)
    B.eq("mean of a forest is the leaf-wise arithmetic mean", _flat(mean), [(u + v) / 2 for u, v in zip(_flat(a), _flat(b))])


def scenarios(tier, seed):
    out = []
    for st in STRUCTS:
        for cplx in (False, True):
            out.append(("vector", {"struct": st, "cplx": cplx}))
    for which in ("smap", "lmap"):
        for ia in (0, 1):
            for oa in (0, 1):
                out.append(("maps", {"which": which, "in_axes": ia, "out_axes": oa, "two_in": False}))
        for ia in ([0, 0], [0, None], [None, 0], [1, 0], [0, 1]):
            for oa in ((0, 1) if tier == "thorough" else (0,)):
                out.append(("maps", {"which": which, "in_axes": ia, "out_axes": oa, "two_in": True}))
    out.append(("stack", {}))
    return out


HARNESSES = {"vector": h_vector, "maps": h_maps, "stack": h_stack}
OPTS = {"quick": {"max_paths": 16, "budget_s": 300, "jobs": 10}, "thorough": {"max_paths": 16, "budget_s": 1200, "jobs": 10}}

META = {
    "level": "other",
    "explanation": "jaxpr IR of nifty.re Vector operators and tree_math functions (+ - * / ** neg abs conj real imag, scalar "
                   "broadcasting, vdot, dot/@/matmul, norm ord 1/2/inf, sum/max/min, where, zeros_like/ones_like, size, stack/unstack/"
                   "mean) on nested dict/tuple/list structures (<= 3 leaves incl. scalar and 2-D leaves, real and complex) interpreted "
                   "over symbolic scalars and compared by z3 with the same operation on the concatenated flat array; smap and lmap "
                   "are compared with jax.vmap and with slice-wise application for an UNINTERPRETED mapped function with one or two "
                   "inputs and every in_axes/out_axes in {None,0,1} on batches of 3.",
    "functions_encoded": ["nifty.re.tree_math.vector.Vector (operators)", "nifty.re.tree_math.vector_math.{vdot,dot,matmul,norm,sum,max,min,where,"
                          "zeros_like,ones_like,size,conjugate}", "nifty.re.tree_math.forest_math.{stack,unstack,mean}",
                          "nifty.re.custom_map.{smap,lmap,_generic_smap,_lscan,_fun_reord}"],
    "bounds": {"structures": "array, dict, nested dict/tuple with scalar leaf, list with 2-D leaf; <= 5 elements", "batch": 3},
    "stubs": ["jaxpr interpreter; uninterpreted JAX primitive vf_uf (abstract eval + batching rule) for the mapped function",
              "jax Tracer.devices() returns the empty set while lmap is traced (device placement is outside the claim)"],
    "outside": ["dtype promotion / weak types", "floor-division, modulo and bit operators of Vector", "random_like"],
    "assumptions": ["divisors non-zero"],
}
