"""C28 -- correlated-field models: the classic and the JAX implementation agree and the model is normalised as documented.

Both models are the REAL code, executed on symbolic latent parameters: nifty.cl CorrelatedFieldMaker through front end A
(object arrays; the compiled Hartley kernel replaced by its DFT contract, see C09), nifty.re CorrelatedFieldMaker through
its jaxpr.  ALL hyperparameter latents (fluctuations, loglogavgslope, flexibility, asperity, the spectrum excitations, the
zero mode) are z3 reals; exp is an uninterpreted function with its monotonicity / positivity axioms, sqrt is defined by
s >= 0, s^2 = x.  The field is affine in the harmonic excitations xi, so it is compared / analysed column by column
(xi = 0 and xi = e_j):

agree:     for the same latents the two implementations (non-parametric power parametrisation; Matern) return the same offset
           and the same response to every excitation
           (relative 1e-9: the two code bases bake differently rounded float constants -- log k, volumes -- into the
           arguments of exp; applications whose arguments agree up to 1e-9 in every coefficient are identified).
variance:  for fixed hyperparameters (= for ALL values of their latents) the expected spatial variance of a realisation about
           its spatial mean, E_xi[mean_x (s - mean_x s)^2] = sum_j var_x(M e_j), equals the square of the model's own
           total_fluctuation; for product spectra also slice_fluctuation and average_fluctuation (the real
           *_fluctuation_realized functions are evaluated on the columns) -- on every grid shape / distance of the bound.
variance_re: the same for the JAX model alone, in both parametrisations of the non-parametric amplitude (power / amplitude):
           E[spatial variance] == fluctuations^2, for two spaces prod_i (azm^2 + fluctuations_i^2)/azm^2 - azm^2."""
import os

import numpy as np

from .. import symcore as sc
from ..clcommon import ift, mfield_of
from ..jaxpr_interp import jcall, jnp
from .c09 import setup as setup09, _set_convention

HYPER = dict(fluctuations=(1.3, 0.4), loglogavgslope=(-2., 0.5))
FLEX, ASP = (0.8, 0.3), (0.2, 0.1)
OFFSET = (0.7, (0.5, 0.2))


def setup():
    setup09()


MATERN = dict(scale=(1.1, 0.4), cutoff=(0.9, 0.3), loglogslope=(-3., 0.5))


def _cl_model(spaces, flex, asp):
    cfm = ift.CorrelatedFieldMaker("")
    cfm.set_amplitude_total_offset(*OFFSET)
    for i, (shape, dist) in enumerate(spaces):
        if flex == "matern":
            cfm.add_fluctuations_matern(ift.RGSpace(tuple(shape), distances=tuple(dist)), **MATERN, prefix=f"s{i}" if len(spaces) > 1 else "")
            continue
        cfm.add_fluctuations(ift.RGSpace(tuple(shape), distances=tuple(dist)), **HYPER, flexibility=FLEX if flex else None,
                             asperity=ASP if asp else None, prefix=f"s{i}" if len(spaces) > 1 else "")
    return cfm, cfm.finalize()


def _re_model(spaces, flex, asp, kind="power"):
    from .c12 import jft
    J = jft()
    jcfm = J.CorrelatedFieldMaker("")
    jcfm.set_amplitude_total_offset(offset_mean=OFFSET[0], offset_std=OFFSET[1])
    for i, (shape, dist) in enumerate(spaces):
        if flex in ("matern", "matern_renorm"):
            jcfm.add_fluctuations_matern(tuple(shape), distances=tuple(dist), **MATERN, non_parametric_kind="amplitude" if flex == "matern" else kind,
                                         renormalize_amplitude=(flex == "matern_renorm"), prefix=f"s{i}" if len(spaces) > 1 else "")
            continue
        jcfm.add_fluctuations(tuple(shape), distances=tuple(dist), **HYPER, flexibility=FLEX if flex else None,
                              asperity=ASP if asp else None, non_parametric_kind=kind, prefix=f"s{i}" if len(spaces) > 1 else "")
    return jcfm, jcfm.finalize()


def _sym(B, v):
    return np.asarray(v, dtype=object).view(sc.SymArr) if B.mode == "sym" else np.asarray(v, dtype=float)


def _columns(B, cf, lat, hshape):
    """offset f(0) and the columns f(e_j) - f(0) of the classic model as flat lists"""
    nh = int(np.prod(hshape))
    off, cols = None, []
    for j in [nh] + list(range(nh)):
        xi = np.zeros(nh)
        if j < nh:
            xi[j] = 1.
        out = cf(mfield_of(cf.domain, {**lat, "xi": xi.reshape(hshape)}))
        v = np.asarray(out.val.val, dtype=object if B.mode == "sym" else float)
        if j == nh:
            off = v
        else:
            cols.append(v - off)
    return off, cols


def _debug(j, a, b):
    import sys
    import z3
    c = sc.cur()
    for i in range(len(a)):
        sv = z3.Solver()
        sv.set("timeout", 60000)
        for f in c.facts():
            sv.add(f)
        u, v = sc._lift(a[i]), sc._lift(b[i])
        sv.add((u - v).e * (u - v).e > 1e-18 * (u * u + v * v).e)
        r = sv.check()
        print("DBG", j, i, r, file=sys.stderr)
        if str(r) == "sat":
            m = sv.model()
            print("DBG out", m.eval(u.e, model_completion=True).as_decimal(12), m.eval(v.e, model_completion=True).as_decimal(12), file=sys.stderr)
            print("DBG u", str(z3.simplify(u.e))[:900].replace(chr(10), " "), file=sys.stderr)
            print("DBG v", str(z3.simplify(v.e))[:900].replace(chr(10), " "), file=sys.stderr)
            for f, lst in c.by_f.items():
                for (a2, v2) in lst:
                    print("  APP", f, v2, "=", m.eval(v2, model_completion=True).as_decimal(6), "<-", str(z3.simplify(a2))[:200].replace(chr(10), " "), file=sys.stderr)
            for d in m.decls():
                if d.arity() == 0 and ("sqrt" in d.name()):
                    print("DBG  ", d.name(), m[d].as_decimal(8) if hasattr(m[d], "as_decimal") else m[d], file=sys.stderr)
            return


def h_agree(B, spaces, flex, asp, convention="non_canonical_hartley"):
    _set_convention(convention)
    try:
        cfm, cf = _cl_model(spaces, flex, asp)
        jcfm, jcf = _re_model(spaces, flex, asp)
        jdom = jcf.domain
        same = sorted(jdom.keys()) == sorted(cf.domain.keys())
        B.is_true("both models have the same latent parameters", same)
        same = same and all(tuple(jdom[k].shape) == (tuple(cf.domain[k].shape)[::-1] if k.endswith("spectrum") else tuple(cf.domain[k].shape)) for k in jdom)
        B.is_true("the latent parameters of both models have the same shapes (same number of spectral bins)", same)
        if not same:
            return
        lat = {k: B.reals(k, v.shape) for k, v in jdom.items() if k != "xi"}
        if B.mode == "sym":
            sc.cur().uf_tol = 1e-9
        hshape = jdom["xi"].shape
        nh = int(np.prod(hshape))
        lat_cl = {k: _sym(B, np.asarray(v, dtype=object if B.mode == "sym" else float).T if k.endswith("spectrum") else v) for k, v in lat.items()}
        off_cl, cols_cl = _columns(B, cf, lat_cl, hshape)
        off_re = None
        for j in [nh] + list(range(nh)):
            xi = np.zeros(nh)
            if j < nh:
                xi[j] = 1.
            xi = xi.reshape(hshape)
            out = np.asarray(jcall(B, lambda d, xi=xi: jcf({**d, "xi": jnp.asarray(xi)}), lat), dtype=object if B.mode == "sym" else float)
            if j == nh:
                off_re = out
                B.close_under("the offset f(xi = 0) of the classic and the JAX model agree for ALL hyperparameter latents",
                              list(off_cl.reshape(-1)), list(off_re.reshape(-1)), rel=1e-9)
            else:
                if B.mode == "sym" and os.environ.get("C28_DEBUG"):
                    _debug(j, list(cols_cl[j].reshape(-1)), list((out - off_re).reshape(-1)))
                B.close_under("the response f(e_j) - f(0) to every harmonic excitation agrees for ALL hyperparameter latents",
                              list(cols_cl[j].reshape(-1)), list((out - off_re).reshape(-1)), rel=1e-9)
    finally:
        _set_convention("non_canonical_hartley")


def h_variance(B, spaces, flex, asp):
    cfm, cf = _cl_model(spaces, flex, asp)
    lat = {k: _sym(B, B.reals(k, cf.domain[k].shape)) for k in cf.domain.keys() if k != "xi"}
    hshape = cf.domain["xi"].shape
    off, cols = _columns(B, cf, lat, hshape)
    n = len(cols)
    samples = [ift.makeField(cf.target, c.view(sc.SymArr) if B.mode == "sym" else c) for c in cols]
    zero_xi = {**lat, "xi": np.zeros(hshape)}

    def predicted(op):
        v = op.force(mfield_of(cf.domain, zero_xi))
        return np.asarray(v.val.val, dtype=object if B.mode == "sym" else float).reshape(-1)[0]

    def realized_sq(fn, *a):
        r = fn(samples, *a)
        r = np.asarray(r, dtype=object if B.mode == "sym" else float).reshape(-1)[0]
        return r * r * n            # the realized functions average over the n columns; E_xi[q(M xi)] = sum_j q(M e_j)

    C = ift.CorrelatedFieldMaker
    tot = predicted(cfm.total_fluctuation)
    B.close_under("E[spatial variance about the spatial mean] == total_fluctuation^2", [realized_sq(C.total_fluctuation_realized)], [tot * tot], rel=1e-9)
    if B.mode == "sym":
        B.holds("the predicted total fluctuation is positive (the identity is not 0 == 0)", sc._lift(tot) > 0)
    if len(spaces) > 1:
        for i in range(len(spaces)):
            sl = predicted(cfm.slice_fluctuation(i))
            B.close_under(f"E[slice variance] == slice_fluctuation^2 (documented product formula, space {i})",
                          [realized_sq(C.slice_fluctuation_realized, i)], [sl * sl], rel=1e-9)
            av = predicted(cfm.average_fluctuation(i))
            B.close_under(f"E[variance of the average over the other spaces] == average_fluctuation^2 (space {i})",
                          [realized_sq(C.average_fluctuation_realized, i)], [av * av], rel=1e-9)


def h_variance_re(B, spaces, flex, asp, kind):
    """JAX model, both parametrisations of the non-parametric amplitude ('power': the latent spectrum is the power spectrum,
    'amplitude': it is the amplitude spectrum): E[spatial variance about the spatial mean] == fluctuations^2 for ALL latents
    (one space), == prod_i (azm^2 + fluctuations_i^2) - azm^2 for two spaces (the documented product formula)"""
    jcfm, jcf = _re_model(spaces, flex, asp, kind)
    jdom = jcf.domain
    lat = {k: B.reals(k, v.shape) for k, v in jdom.items() if k != "xi"}
    hshape = jdom["xi"].shape
    nh = int(np.prod(hshape))
    dt = object if B.mode == "sym" else float
    off, var = None, 0
    for j in [nh] + list(range(nh)):
        xi = np.zeros(nh)
        if j < nh:
            xi[j] = 1.
        xi = xi.reshape(hshape)
        out = np.asarray(jcall(B, lambda d, xi=xi: jcf({**d, "xi": jnp.asarray(xi)}), lat), dtype=dt).reshape(-1)
        if j == nh:
            off = out
            continue
        c = out - off
        m = sum(list(c), 0) / len(c)
        var = var + sum(((x - m) * (x - m) for x in c), 0) / len(c)
    flus = [np.asarray(jcall(B, lambda d, a=a: (a.scale if flex == "matern_renorm" else a.fluctuations)(d), lat), dtype=dt).reshape(-1)[0]
            for a in jcfm._fluctuations]
    if len(flus) == 1:
        pred = flus[0] * flus[0]
    else:
        azm = np.asarray(jcall(B, lambda d: jcfm.azm(d), lat), dtype=dt).reshape(-1)[0]
        pred = 1
        for f in flus:
            pred = pred * (azm * azm + f * f)
        pred = pred / (azm * azm) ** (len(flus) - 1) - azm * azm
    B.close_under(f"JAX model ({kind} parametrisation): E[spatial variance about the spatial mean] == predicted total fluctuation^2", [var], [pred], rel=1e-9)


def scenarios(tier, seed):
    def one(shape, dist):
        return [(tuple(shape), tuple(dist))]
    if tier == "probe":
        return [("variance_re", {"spaces": one((4,), (0.5,)), "flex": "matern_renorm", "asp": False, "kind": "power"}),
                ("variance_re", {"spaces": one((4,), (0.5,)), "flex": "matern_renorm", "asp": False, "kind": "amplitude"}),
                ("variance_re", {"spaces": one((2, 4), (0.5, 0.3)), "flex": "matern_renorm", "asp": False, "kind": "amplitude"})]
        return [("agree", {"spaces": one((2,), (0.5,)), "flex": "matern", "asp": False}),
                ("agree", {"spaces": one((6,), (0.3,)), "flex": "matern", "asp": False}),
                ("agree", {"spaces": one((3, 3), (5., 5.)), "flex": "matern", "asp": False}),
                ("agree", {"spaces": one((2, 4), (0.5, 0.3)), "flex": "matern", "asp": False}),
                ("agree", {"spaces": [((4,), (0.5,)), ((4,), (2.,))], "flex": "matern", "asp": False})]
        return [("variance_re", {"spaces": one((4,), (0.5,)), "flex": True, "asp": True, "kind": "power"}),
                ("variance_re", {"spaces": one((4,), (0.5,)), "flex": True, "asp": True, "kind": "amplitude"}),
                ("variance_re", {"spaces": [((4,), (0.5,)), ((4,), (2.,))], "flex": True, "asp": False, "kind": "amplitude"})]
        return [("agree", {"spaces": one((4,), (0.5,)), "flex": "matern", "asp": False}),
                ("variance", {"spaces": one((4,), (0.5,)), "flex": "matern", "asp": False})]
    quick = [("agree", {"spaces": one((4,), (0.5,)), "flex": False, "asp": False}),
             ("agree", {"spaces": one((4,), (0.5,)), "flex": True, "asp": True}),
             ("agree", {"spaces": one((4,), (3.,)), "flex": True, "asp": True, "convention": "canonical_hartley"}),
             ("agree", {"spaces": one((2, 4), (0.5, 0.3)), "flex": True, "asp": True}),
             ("variance", {"spaces": one((4,), (0.5,)), "flex": False, "asp": False}),
             ("variance", {"spaces": one((4,), (0.5,)), "flex": True, "asp": True}),
             ("variance", {"spaces": one((6,), (0.1,)), "flex": True, "asp": True}),
             ("variance", {"spaces": one((8,), (2.,)), "flex": True, "asp": False}),
             ("variance", {"spaces": one((2, 4), (0.5, 0.3)), "flex": True, "asp": True}),
             ("variance", {"spaces": one((3, 3), (1., 1.)), "flex": True, "asp": True}),
             ("variance", {"spaces": one((4, 4), (1., 2.)), "flex": True, "asp": True}),
             ("variance", {"spaces": [((4,), (0.5,)), ((4,), (2.,))], "flex": True, "asp": False}),
             ("variance", {"spaces": [((4,), (0.5,)), ((4,), (2.,)), ((4,), (1.,))], "flex": False, "asp": False}),
             ("variance_re", {"spaces": one((4,), (0.5,)), "flex": True, "asp": True, "kind": "power"}),
             ("variance_re", {"spaces": one((4,), (0.5,)), "flex": True, "asp": True, "kind": "amplitude"}),
             ("variance_re", {"spaces": one((6,), (0.3,)), "flex": True, "asp": False, "kind": "amplitude"}),
             ("variance_re", {"spaces": [((4,), (0.5,)), ((4,), (2.,))], "flex": True, "asp": False, "kind": "amplitude"}),
             ("agree", {"spaces": one((4,), (0.5,)), "flex": "matern", "asp": False}),
             ("agree", {"spaces": one((2, 4), (0.5, 0.3)), "flex": "matern", "asp": False}),
             ("variance_re", {"spaces": one((4,), (0.5,)), "flex": "matern_renorm", "asp": False, "kind": "power"}),
             ("variance_re", {"spaces": one((2, 4), (0.5, 0.3)), "flex": "matern_renorm", "asp": False, "kind": "amplitude"}),
             ("variance", {"spaces": one((4,), (0.5,)), "flex": "matern", "asp": False})]       # known finding
    thorough = [("agree", {"spaces": one((6,), (1.,)), "flex": True, "asp": True}),
                # non-parametric agreement on 3x3 (sqrt(3) twiddle factors, 5 spectral bins) does not finish within 40 minutes: not claimed
                ("agree", {"spaces": one((4, 4), (1., 2.)), "flex": True, "asp": False}),
                ("agree", {"spaces": [((4,), (0.5,)), ((4,), (2.,))], "flex": True, "asp": False}),
                ("variance", {"spaces": [((4,), (0.5,)), ((2, 4), (1., 3.))], "flex": True, "asp": True}),
                ("variance", {"spaces": [((6,), (0.5,)), ((4,), (2.,))], "flex": True, "asp": True}),
                ("variance", {"spaces": one((4, 6), (1., 0.5)), "flex": True, "asp": True}),
                ("variance_re", {"spaces": one((2, 4), (0.5, 0.3)), "flex": True, "asp": True, "kind": "amplitude"}),
                ("variance_re", {"spaces": one((4, 4), (1., 2.)), "flex": True, "asp": False, "kind": "power"}),
                ("agree", {"spaces": one((2,), (0.5,)), "flex": "matern", "asp": False}),
                ("agree", {"spaces": one((6,), (0.3,)), "flex": "matern", "asp": False}),
                ("agree", {"spaces": one((3, 3), (5., 5.)), "flex": "matern", "asp": False}),
                ("agree", {"spaces": [((4,), (0.5,)), ((4,), (2.,))], "flex": "matern", "asp": False}),
                ("variance_re", {"spaces": one((4,), (0.5,)), "flex": "matern_renorm", "asp": False, "kind": "amplitude"}),
                ("variance", {"spaces": one((8,), (1.,)), "flex": "matern", "asp": False})]       # known finding
    return quick if tier == "quick" else quick + thorough


HARNESSES = {"agree": h_agree, "variance": h_variance, "variance_re": h_variance_re}
OPTS = {"probe": {"max_paths": 20, "budget_s": 900, "jobs": 12, "branch_timeout_ms": 20000, "obl_timeout_ms": 120000}, "quick": {"max_paths": 20, "budget_s": 900, "jobs": 12, "branch_timeout_ms": 20000, "obl_timeout_ms": 120000},
        "thorough": {"max_paths": 20, "budget_s": 2400, "jobs": 12, "branch_timeout_ms": 20000, "obl_timeout_ms": 300000}}

META = {
    "level": "other",
    "explanation": "The real classic (front end A, Hartley kernel = DFT contract) and JAX (jaxpr) CorrelatedFieldMaker models with the non-parametric "
                   "amplitude run on symbolic latents: every hyperparameter latent is a z3 real, exp is uninterpreted with positivity / monotonicity "
                   "axioms, sqrt is defined algebraically.  The field is affine in the excitations xi and is analysed column by column: "
                   "(agree) offset and every column of the two implementations coincide for ALL hyperparameter latents (relative 1e-9); "
                   "(variance) sum_j var_x(M e_j) = E[spatial variance about the spatial mean] equals total_fluctuation^2, and for product "
                   "spectra the slice / average variances equal slice_fluctuation^2 / average_fluctuation^2, for ALL hyperparameter "
                   "latents on every grid of the bound; (variance_re) the same identity for the JAX model alone in the power and the amplitude parametrisation.",
    "functions_encoded": ["nifty.cl.library.correlated_fields.{CorrelatedFieldMaker.add_fluctuations,set_amplitude_total_offset,finalize,"
                          "get_normalized_amplitudes,total_fluctuation,slice_fluctuation,average_fluctuation,*_fluctuation_realized,"
                          "_Amplitude,_Normalization,_SlopeRemover,_TwoLogIntegrations,_Distributor}", "nifty.cl LognormalTransform / NormalTransform, "
                          "PowerDistributor, HarmonicTransformOperator, ContractionOperator", "nifty.re.correlated_field.{CorrelatedFieldMaker."
                          "add_fluctuations,set_amplitude_total_offset,finalize,NonParametricAmplitude.__call__,hartley,get_fourier_mode_distributor,"
                          "_remove_slope}"],
    "bounds": {"grids": "1-D 4, 6, 8 pixels (2 for Matern); 2-D 2x4, 3x3 (variance, Matern agreement), 4x4 (4x6 thorough); products of two spaces (4 x 4 quick; 4 x 2x4, 6 x 4 thorough) and of three spaces (4 x 4 x 4, variance clause); concrete distances 0.1 .. 3",
               "amplitude": "non-parametric with / without flexibility and asperity: power parametrisation (agreement, classic and JAX variance) and amplitude parametrisation (JAX variance); Matern amplitude: agreement (classic vs JAX with renormalize_amplitude=False), JAX variance with renormalize_amplitude=True in both parametrisations, classic variance (known finding)", "prior means / widths of the hyperparameters": "one concrete set (the latents are symbolic, so every hyperparameter VALUE is covered)"},
    "stubs": ["ducc0 Hartley / FFT kernels = explicit DFT sums with exact twiddle factors (validated against the real kernels in every run, C09)",
              "exp: uninterpreted, > 0, monotone, exp(0) = 1, exp(x) >= 1 + x; applications (and square roots) whose arguments agree as rational functions up to 1e-9 of their largest coefficient are identified "
              "(differently rounded float constants of the two code bases); exp(a + r) is rewritten to exp(a) exp(r) when exp(a) already exists (the two code bases group the exponent differently); log(exp(t)) = t"],
    "outside": ["agreement for the amplitude parametrisation of the non-parametric model (the classic model has none); the variance clause IS checked for the classic Matern amplitude (known finding)", "spherical (HEALPix) spaces", "total_N > 0 (dofdex)",
                "correlated_fields_simple", "symbolic distances / prior parameters", "grids whose twiddle factors are not in Q(sqrt2, sqrt3) (5, 7 pixels)"],
    "assumptions": [],
}
