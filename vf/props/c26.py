"""C26 -- sample lists persist faithfully and report exact statistics.

stats:   sample_stat / average of the real SampleList and ResidualSampleList on fields of symbolic reals, on 1..T tasks of
         the simulated MPI world (T, n symbolic integers concretised by solver-decided forking): z3 proves mean ==
         arithmetic mean and variance == unbiased variance of the operator outputs for ALL values.
persist: histories save(list1, T_save tasks) -> [save(list2 not longer than list1, overwrite)] -> load(T_load tasks) on the
         real file system (scratch directory per path); T_save, T_load, the lengths and the list type are symbolic integers
         concretised by forking; the loaded samples (in task order) must be exactly the last saved ones.
hdf5:    save_to_hdf5 exports are read back with h5py and compared with the arithmetic mean / unbiased standard deviation
         and the samples themselves."""
import os
import shutil
import tempfile

import numpy as np

from .. import symcore as sc
from ..clcommon import ift, setup_cl, field_of, flat_of
from .c23 import World, Deadlock


def setup():
    from .c22 import setup as setup22
    setup22()
    import nifty.cl.probing as pr
    from .. import shims_cl
    shims_cl.proxy_np(pr)


def _dom(kind):
    if kind == "single":
        return ift.DomainTuple.make(ift.UnstructuredDomain(2))
    return ift.MultiDomain.make({"a": ift.UnstructuredDomain(2), "b": ift.UnstructuredDomain(1)})


def _mk(dom, arr):
    if isinstance(dom, ift.MultiDomain):
        out, pos = {}, 0
        for k in dom.keys():
            sz = dom[k].size
            out[k] = field_of(dom[k], np.asarray(arr[pos:pos + sz]).reshape(dom[k].shape))
            pos += sz
        return ift.MultiField.from_dict(out, dom)
    return field_of(dom, np.asarray(arr).reshape(dom.shape))


def _flat(x):
    return list(flat_of(x))


def h_stats(B, kind, Tmax, Nmax, residual, op_kind):
    from nifty.cl import utilities as ut
    from nifty.cl.minimization.sample_list import ResidualSampleList, SampleList
    T = B.pick("T", 1, Tmax)
    n = B.pick("n", 1, Nmax)
    B.note(f"T={T} n={n}")
    dom = _dom(kind)
    mean = _mk(dom, B.reals("m", (dom.size,)))
    res = [_mk(dom, B.reals(f"r{i}", (dom.size,))) for i in range(n)]
    neg = [bool(i % 2) for i in range(n)]
    g = _mk(dom, B.reals("g", (dom.size,)))
    op = {"none": None, "square": (lambda s: s * s), "diag": ift.makeOp(g)}[op_kind]
    samples = [mean.flexible_addsub(r, ng) for r, ng in zip(res, neg)] if residual else res
    outs_ref = [_flat(s if op is None else op(s)) for s in samples]
    m = len(outs_ref[0])
    ref_mean = [sum((o[j] for o in outs_ref), 0) / n for j in range(m)]
    ref_var = [sum(((o[j] - ref_mean[j]) * (o[j] - ref_mean[j]) for o in outs_ref), 0) / (n - 1) for j in range(m)] if n > 1 else [0] * m

    def compute(comm, lo, hi):
        if residual:
            sl = ResidualSampleList(mean, res[lo:hi], neg[lo:hi], comm)
        else:
            sl = SampleList(res[lo:hi], comm, domain=dom)
        mm, vv = sl.sample_stat(op)
        return {"mean": _flat(mm), "var": _flat(vv), "avg": _flat(sl.average(op)), "n": sl.n_samples}
    world = World(B, T)
    try:
        outs = world.run([(lambda comm, r=r: compute(comm, *ut.shareRange(n, T, r))) for r in range(T)])
    except Deadlock as e:
        B.note(str(e))
        B.is_true("no deadlock", False)
        return
    single = compute(None, 0, n)
    for lab, o in [("single process", single)] + [(f"task {r} of {T}", outs[r]) for r in range(T)]:
        B.is_true(f"{lab}: n_samples", o["n"] == n)
        # the running-mean update multiplies by the rounded float constants 1./k: polynomial identity up to 1e-9 per coefficient
        B.close(f"{lab}: sample_stat mean == arithmetic mean of the operator outputs", o["mean"], ref_mean)
        B.close(f"{lab}: sample_stat variance == unbiased variance of the operator outputs", o["var"], ref_var)
        B.close(f"{lab}: average(op) == arithmetic mean of the operator outputs", o["avg"], ref_mean)


def _rand_list(rng, dom, n):
    return [_mk(dom, rng.standard_normal(dom.size)) for _ in range(n)]


def _bits(a, b):
    a, b = np.asarray(a, dtype=np.float64), np.asarray(b, dtype=np.float64)
    return a.shape == b.shape and bool(np.all(a.view(np.int64) == b.view(np.int64)))


def h_persist(B, kind, Tmax, Nmax, offset=0):
    from nifty.cl import utilities as ut
    from nifty.cl.minimization.sample_list import ResidualSampleList, SampleList
    residual = bool(B.pick("residual", 0, 1))
    Ts = B.pick("T_save", 1, Tmax)
    Tl = B.pick("T_load", 1, Tmax)
    n1 = offset + B.pick("n1", 1, Nmax)          # offset 9: list lengths 10..12 (file indices with one AND two digits)
    resave = bool(B.pick("resave", 0, 1))
    n2 = B.pick("n2", 1 if offset == 0 else n1 - 2, n1) if resave else n1
    Ts2 = B.pick("T_resave", 1, Tmax) if resave else Ts
    B.note(f"residual={residual} T_save={Ts} n1={n1} resave={resave} n2={n2} T_resave={Ts2} T_load={Tl}")
    saved, sc.Ctx.cur = sc.Ctx.cur, None          # concrete float64 fields from here on
    tmp = tempfile.mkdtemp(prefix="vf_c26_")
    try:
        rng = np.random.default_rng(5)
        dom = _dom(kind)
        base = os.path.join(tmp, "samples")
        lists = [(_rand_list(rng, dom, n1), _mk(dom, rng.standard_normal(dom.size)), Ts, False)]
        if resave:
            lists.append((_rand_list(rng, dom, n2), _mk(dom, rng.standard_normal(dom.size)), Ts2, True))
        dead = None
        for (lst, mean, T, ow) in lists:
            n = len(lst)
            neg = [bool(i % 2) for i in range(n)]

            def save(comm, lo, hi, lst=lst, mean=mean, neg=neg, ow=ow):
                sl = ResidualSampleList(mean, lst[lo:hi], neg[lo:hi], comm) if residual else SampleList(lst[lo:hi], comm, domain=dom)
                sl.save(base, overwrite=ow)
                return True
            try:
                World(B, T).run([(lambda comm, r=r, n=n, T=T: save(comm, *ut.shareRange(n, T, r))) for r in range(T)])
            except Deadlock as e:
                dead = str(e)
                break
        out = None
        if dead is None:
            cls = ResidualSampleList if residual else SampleList

            def load(comm):
                sl = cls.load(base, comm)
                items = [np.array(flat_of(sl.local_item(i)), dtype=np.float64) for i in range(sl.n_local_samples)]
                mean_l = np.array(flat_of(sl.mean), dtype=np.float64) if residual else None
                return items, sl.n_samples, mean_l
            try:
                out = World(B, Tl).run([load for _ in range(Tl)])
            except Deadlock as e:
                dead = str(e)
        single = None
        if dead is None:
            sl = (ResidualSampleList if residual else SampleList).load(base, None)
            single = [np.array(flat_of(s), dtype=np.float64) for s in sl.iterator()]
    finally:
        sc.Ctx.cur = saved
        shutil.rmtree(tmp, ignore_errors=True)
    if dead is not None:
        B.note(dead)
    B.is_true("no deadlock while saving / loading", dead is None)
    if dead is not None:
        return
    lst, mean, _, _ = lists[-1]
    n = len(lst)
    neg = [bool(i % 2) for i in range(n)]
    expect = [np.array(flat_of(mean.flexible_addsub(s, ng) if residual else s), dtype=np.float64) for s, ng in zip(lst, neg)]
    got = [it for r in range(Tl) for it in out[r][0]]
    B.is_true("every task reports the number of samples last saved", all(out[r][1] == n for r in range(Tl)))
    B.is_true("the loaded list (in task order) has the length last saved (no stale samples)", len(got) == n)
    B.is_true("loaded samples are exactly the samples last saved", len(got) == n and all(_bits(a, b) for a, b in zip(got, expect)))
    B.is_true("a single-process load yields the same samples", len(single) == n and all(_bits(a, b) for a, b in zip(single, expect)))
    if residual:
        B.is_true("the loaded mean is the mean last saved", all(_bits(out[r][2], np.array(flat_of(mean), dtype=np.float64)) for r in range(Tl)))


def h_hdf5(B, kind, Tmax, Nmax, op_kind):
    import h5py
    from nifty.cl import utilities as ut
    from nifty.cl.minimization.sample_list import SampleList
    T = B.pick("T", 1, Tmax)
    n = B.pick("n", 2, Nmax)
    B.note(f"T={T} n={n}")
    saved, sc.Ctx.cur = sc.Ctx.cur, None
    tmp = tempfile.mkdtemp(prefix="vf_c26_")
    try:
        rng = np.random.default_rng(11)
        dom = _dom(kind)
        lst = _rand_list(rng, dom, n)
        g = _mk(dom, rng.standard_normal(dom.size))
        op = {"none": None, "square": (lambda s: s * s), "diag": ift.makeOp(g)}[op_kind]
        fn = os.path.join(tmp, "out.h5")

        def export(comm, lo, hi):
            SampleList(lst[lo:hi], comm, domain=dom).save_to_hdf5(fn, op=op, samples=True, mean=True, std=True)
        dead = None
        try:
            World(B, T).run([(lambda comm, r=r: export(comm, *ut.shareRange(n, T, r))) for r in range(T)])
        except Deadlock as e:
            dead = str(e)
        data = {}
        if dead is None:
            with h5py.File(fn, "r") as f:
                def rd(node):
                    if isinstance(node, h5py.Dataset):
                        return np.array(node)
                    return np.concatenate([rd(node[k]).reshape(-1) for k in sorted(node.keys())])
                data["mean"] = rd(f["stats"]["mean"]).reshape(-1)
                data["std"] = rd(f["stats"]["standard deviation"]).reshape(-1)
                data["samples"] = [rd(f["samples"][str(i)]).reshape(-1) for i in range(len(f["samples"].keys()))]
        outs = np.array([np.array(flat_of(s if op is None else op(s)), dtype=np.float64) for s in lst])
    finally:
        sc.Ctx.cur = saved
        shutil.rmtree(tmp, ignore_errors=True)
    B.is_true("no deadlock while exporting", dead is None)
    if dead is not None:
        return
    B.is_true("exported samples are the operator outputs", len(data["samples"]) == n and all(_bits(a, b) for a, b in zip(data["samples"], outs)))
    B.is_true("exported mean == arithmetic mean (to 1e-12)", bool(np.allclose(data["mean"], outs.mean(axis=0), rtol=1e-12, atol=1e-14)))
    B.is_true("exported standard deviation == sqrt(unbiased variance) (to 1e-12)",
              bool(np.allclose(data["std"], outs.std(axis=0, ddof=1), rtol=1e-10, atol=1e-14)))


def scenarios(tier, seed):
    quick = [("stats", {"kind": "single", "Tmax": 2, "Nmax": 3, "residual": False, "op_kind": "square"}),
             ("stats", {"kind": "multi", "Tmax": 2, "Nmax": 3, "residual": True, "op_kind": "diag"}),
             ("persist", {"kind": "single", "Tmax": 3, "Nmax": 3}),
             ("persist", {"kind": "single", "Tmax": 2, "Nmax": 3, "offset": 9}),
             ("hdf5", {"kind": "multi", "Tmax": 2, "Nmax": 3, "op_kind": "diag"})]
    thorough = [("stats", {"kind": "single", "Tmax": 4, "Nmax": 4, "residual": True, "op_kind": "none"}),
                ("stats", {"kind": "multi", "Tmax": 3, "Nmax": 4, "residual": False, "op_kind": "square"}),
                ("persist", {"kind": "multi", "Tmax": 4, "Nmax": 4}),
                ("persist", {"kind": "single", "Tmax": 5, "Nmax": 4}),
                ("hdf5", {"kind": "single", "Tmax": 3, "Nmax": 4, "op_kind": "square"}),
                ("hdf5", {"kind": "multi", "Tmax": 3, "Nmax": 4, "op_kind": "none"})]
    return quick if tier == "quick" else quick + thorough


HARNESSES = {"stats": h_stats, "persist": h_persist, "hdf5": h_hdf5}
OPTS = {"quick": {"max_paths": 4000, "budget_s": 600, "jobs": 8, "branch_timeout_ms": 10000, "obl_timeout_ms": 60000},
        "thorough": {"max_paths": 40000, "budget_s": 3000, "jobs": 8, "branch_timeout_ms": 10000, "obl_timeout_ms": 120000}}

META = {
    "level": "other",
    "explanation": "stats: real SampleList / ResidualSampleList sample_stat and average on fields of z3 reals on 1..T simulated MPI "
                   "tasks: mean == arithmetic mean, variance == unbiased variance of the operator outputs for ALL values (z3).  "
                   "persist: every history save(T_save tasks) -> optional overwrite-save of a list that is not longer (T_resave tasks) -> "
                   "load(T_load tasks) within the bound, chosen by symbolic integers and solver-decided forking, executed on the real "
                   "file system with float64 fields: the loaded samples are exactly the last saved ones, no stale file leaks.  hdf5: "
                   "save_to_hdf5 output read back with h5py (concrete differential, tolerance 1e-12 / 1e-10).",
    "functions_encoded": ["nifty.cl.minimization.sample_list.{SampleListBase.sample_stat,average,iterator,save_to_hdf5,_list_local_sample_files,"
                          "_ensure_proper_sample_list_ending,_save_to_disk,_load_from_disk,_consecutive_length,SampleList.save,load,"
                          "ResidualSampleList.save,load}", "nifty.cl.probing.StatCalculator"],
    "bounds": {"tasks": "<= 3 quick, <= 5 thorough", "samples": "<= 3 quick, <= 4 thorough; persistence also for lists of 10-12 samples (one- and two-digit file indices)", "field entries": "2-3"},
    "stubs": ["mpi4py communicator replaced by the C23 world model (tasks as cooperatively scheduled threads sharing one file system)"],
    "outside": ["crashes during save (C25)", "the persist and hdf5 parts run on concrete float64 fields (only the history is symbolic)",
                "re-saving a LONGER list, lists saved under different base names in one directory"],
    "assumptions": [],
}
