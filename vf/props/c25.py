"""C25 -- the classic VI driver resumes after a crash with identical results.

The real nifty.cl optimize_kl runs a tiny inference problem (3 global iterations, float64) with an output directory.  A
run is killed at its k-th file-system mutation (vf.crash: just before the operation, or right after a file has been
created/truncated for writing); k and the variant are symbolic integers concretised by solver-decided forking, so every
crash point of the run within the bound is a path.  Then the run is restarted with resume=True in a fresh process state
(random module reset) and must (a) finish, (b) return bit-identical final samples and mean as the uninterrupted run."""
import os
import shutil
import tempfile

import numpy as np

from .. import symcore as sc
from ..clcommon import ift, setup_cl
from ..crash import Injector, Kill


def setup():
    setup_cl()


def _problem(kind):
    dom = ift.RGSpace(3)
    R = ift.makeOp(ift.makeField(dom, np.array([1., 2., 0.5]))) @ ift.ScalingOperator(dom, 1.).ptw("exp") @ ift.FieldAdapter(dom, "x")
    data = ift.makeField(dom, np.array([0.3, 1.2, 2.0]))
    lh = ift.GaussianEnergy(data=data, inverse_covariance=ift.ScalingOperator(dom, 4., float)) @ R
    n_samples = {"map": 0, "mgvi": 2, "mixed": (lambda i: 0 if i == 0 else 2)}[kind]
    return dict(likelihood_energy=lh, total_iterations=3, n_samples=n_samples,
                kl_minimizer=ift.NewtonCG(ift.GradientNormController(iteration_limit=2)),
                sampling_iteration_controller=ift.AbsDeltaEnergyController(1e-4, iteration_limit=10),
                nonlinear_sampling_minimizer=None, plot_energy_history=False, plot_minisanity_history=False,
                return_final_position=True, resume=True)


def _result(sl, mean):
    return [np.array(s["x"].val.val, copy=True) for s in sl.iterator()], np.array(mean["x"].val.val, copy=True)


def _same(a, b):
    return (len(a[0]) == len(b[0]) and all(x.shape == y.shape and bool(np.all(x.view(np.int64) == y.view(np.int64))) for x, y in zip(a[0], b[0]))
            and bool(np.all(a[1].view(np.int64) == b[1].view(np.int64))))


def h_resume(B, kind, strategy):
    import logging
    import nifty.cl.minimization.optimize_kl as okl
    import nifty.cl.minimization.sample_list as slm
    from nifty.cl import random as rnd
    ift.logger.setLevel(logging.CRITICAL)
    saved_ctx, sc.Ctx.cur = sc.Ctx.cur, None
    tmp = tempfile.mkdtemp(prefix="vf_c25_")
    fresh = None
    try:
        fresh = rnd.getState()
        # uninterrupted reference run, counting the file-system mutations
        rnd.setState(fresh)
        ref_dir = os.path.join(tmp, "ref")
        with Injector([okl, slm], None, root=tmp) as inj0:
            ref = _result(*ift.optimize_kl(output_directory=ref_dir, save_strategy=strategy, **_problem(kind)))
        nops, oplog = inj0.count, list(inj0.log)
    finally:
        sc.Ctx.cur = saved_ctx
    k = B.pick("crash_at", 0, nops - 1)
    variant = ("before", "truncated", "after")[B.pick("variant", 0, 2)]
    is_open = oplog[k].split(":", 2)[1].startswith("open")
    if (variant == "truncated" and not is_open) or (variant == "after" and is_open):
        B.assume(False)                      # variant not applicable to this kind of operation
    B.note(f"{nops} file-system mutations; killed at {oplog[k]} ({variant})")
    site = oplog[k].split(":", 1)[1].replace(":ref/", " ")
    import re as _re
    site = _re.sub(r"[0-9]+", "#", site)           # iteration / sample numbers do not identify the call site
    tag = f"killed {variant} {site}"
    sc.Ctx.cur = None
    err = None
    res = None
    try:
        out = os.path.join(tmp, "run")
        rnd.setState(fresh)
        killed = False
        try:
            with Injector([okl, slm], k, variant, root=tmp):
                ift.optimize_kl(output_directory=out, save_strategy=strategy, **_problem(kind))
        except Kill:
            killed = True
        # restart in a fresh process state
        rnd.setState(fresh)
        try:
            res = _result(*ift.optimize_kl(output_directory=out, save_strategy=strategy, **_problem(kind)))
        except Exception as e:  # noqa: BLE001  resuming failed
            err = f"{type(e).__name__}: {e}"
        last = None
        lf = os.path.join(out, "last_finished_iteration")
        if os.path.isfile(lf):
            last = open(lf).read()
    finally:
        sc.Ctx.cur = saved_ctx
        if fresh is not None:
            rnd.setState(fresh)
        shutil.rmtree(tmp, ignore_errors=True)
    if err:
        B.note("resume raised " + err[:300])
    B.is_true("the run was killed at the chosen crash point", killed)
    B.is_true(f"{tag}: resuming finishes (the output directory is never left in a state from which resuming is impossible)", err is None)
    if err is None:
        B.is_true(f"{tag}: the resumed run returns bit-identical final samples and mean", _same(res, ref))
        B.is_true(f"{tag}: last_finished_iteration names the last iteration", last is not None and last.strip() == "2")


def scenarios(tier, seed):
    quick = [("resume", {"kind": "mgvi", "strategy": "all"}),
             ("resume", {"kind": "mgvi", "strategy": "latest"}),
             ("resume", {"kind": "map", "strategy": "latest"})]
    thorough = [("resume", {"kind": "mixed", "strategy": "all"}),
                ("resume", {"kind": "mixed", "strategy": "latest"}),
                ("resume", {"kind": "map", "strategy": "all"})]
    return quick if tier == "quick" else quick + thorough


HARNESSES = {"resume": h_resume}
OPTS = {"quick": {"max_paths": 2000, "budget_s": 900, "jobs": 6, "branch_timeout_ms": 10000, "obl_timeout_ms": 20000},
        "thorough": {"max_paths": 4000, "budget_s": 2400, "jobs": 6, "branch_timeout_ms": 10000, "obl_timeout_ms": 20000}}

META = {
    "level": "other",
    "explanation": "The real classic optimize_kl (MAP, MGVI and mixed schedules, 3 global iterations, save strategies 'all' and 'latest') "
                   "is killed at every file-system mutation it performs (before the operation, after a create/truncate, right after a remove / replace; buffered data of open files is lost), the crash "
                   "point being a symbolic integer concretised by solver-decided forking; the run is restarted with resume=True in a "
                   "fresh process state and compared bit for bit with the uninterrupted run.  Concrete float64 runs: the solver's role is "
                   "the exploration of the crash-point space.",
    "functions_encoded": ["nifty.cl.minimization.optimize_kl.{optimize_kl,_save_random_state,_load_random_state,_pickle_save_values,"
                          "_pickle_load_values,_file_name_by_strategy}", "nifty.cl.minimization.sample_list.{ResidualSampleList.save,load,load_mean,"
                          "SampleList.save,load,_save_to_disk,_ensure_proper_sample_list_ending,_list_local_sample_files}"],
    "bounds": {"global iterations": 3, "samples": "0 / 2 (mirrored: 4)", "crash points": "before every open-for-write / remove / replace below the output directory, after every create/truncate, after every remove / replace; one crash per history"},
    "stubs": ["kill = BaseException raised at the crash point; files opened for writing below the output directory are wrapped so that data reaches "
              "the disk only at flush()/close() and is discarded once the run is killed (the unwinding exception runs `with` blocks, a real kill would not flush)",
              "fresh process = nifty.cl.random state reset"],
    "outside": ["partial writes inside one write() call / torn pages", "two crashes in one history", "MPI runs", "plots and operator exports"],
    "assumptions": [],
}
