"""C32 -- HMC: reversible volume-preserving leapfrog, Metropolis rule, multinomial tree merging (front end B).

leapfrog_step is traced with an UNINTERPRETED potential gradient (custom JAX
primitive); reversibility and volume preservation are decided for every
gradient field.  generate_hmc_acc_rej, add_single_qp_to_tree and merge_trees are
traced with symbolic energies / log-weights; the uniform random number behind
random.bernoulli is recomputed from the same key, so the selection rule is
compared with the documented probability."""
import numpy as np

from .. import symcore as sc
from ..jaxpr_interp import jcall, jax, jnp, make_uf
from .c12 import setup, _flat  # noqa: F401


def hmc():
    import nifty.re.hmc as h
    return h


def _exp(v):
    return v.exp() if isinstance(v, (sc.SR, sc.SC)) else np.exp(v)


def kin_grad(inv_m, mom):
    return inv_m * mom          # the module's diagonal kinetic-energy gradient (hmc_oo.py)


def h_reversible(B, dim, steps):
    H = hmc()
    gV = make_uf(B, "gradV", (dim,))
    q, p = B.reals("q", (dim,)), B.reals("p", (dim,))
    eps = B.reals("eps")
    im = B.reals("im", (dim,))
    B.assume_all([t > 0 for t in im])

    def fwd(q, p, eps, im, k):
        qp = H.QP(position=q, momentum=p)
        for _ in range(k):
            qp = H.leapfrog_step(gV, kin_grad, eps, im, qp)
        return qp
    qp1 = jcall(B, lambda q, p, eps, im: fwd(q, p, eps, im, steps), q, p, eps, im)
    # flip, integrate again, flip: must return to the start (time reversibility of the leapfrog map)
    back = jcall(B, lambda q, p, eps, im: H.flip_momentum(fwd(*H.flip_momentum(fwd(q, p, eps, im, steps)), eps, im, steps)), q, p, eps, im)
    B.eq(f"flip o leapfrog^{steps} o flip o leapfrog^{steps} == identity (position)", _flat(back.position), list(q))
    B.eq(f"flip o leapfrog^{steps} o flip o leapfrog^{steps} == identity (momentum)", _flat(back.momentum), list(p))
    # the update itself: half kick, drift, half kick
    if steps == 1:
        g0 = jcall(B, gV, q)
        ph = p - eps / 2 * g0
        qn = q + eps * im * ph
        g1 = jcall(B, gV, qn)
        B.eq("leapfrog position update", _flat(qp1.position), list(qn))
        B.eq("leapfrog momentum update", _flat(qp1.momentum), list(ph - eps / 2 * g1))


def h_volume(B, dim):
    """det d(q',p')/d(q,p) == 1 for potentials with a symmetric Hessian: V quadratic-plus-cubic with symbolic coefficients"""
    H = hmc()
    q, p = B.reals("q", (dim,)), B.reals("p", (dim,))
    eps = B.reals("eps")
    im = B.reals("im", (dim,))
    B.assume_all([t > 0 for t in im])
    A = B.reals("A", (dim, dim))
    c = B.reals("c", (dim,))

    def step(z, eps, im, A, c):
        # gradient of V(q) = 1/2 q^T (A + A^T) q / 2 ... written as an explicit gradient field with symmetric Jacobian:
        # grad V = S q + c * q^2 (elementwise), S = A + A^T
        S = A + A.T
        gV = lambda x: S @ x + c * x * x
        qp = H.leapfrog_step(gV, kin_grad, eps, im, H.QP(position=z[:dim], momentum=z[dim:]))
        return jnp.concatenate([qp.position, qp.momentum])
    z = np.concatenate([q, p])
    Jm = jcall(B, lambda z, eps, im, A, c: jax.jacfwd(lambda zz: step(zz, eps, im, A, c))(z), z, eps, im, A, c)
    Jm = np.asarray(Jm, dtype=object)
    n = 2 * dim
    if n == 2:
        det = Jm[0, 0] * Jm[1, 1] - Jm[0, 1] * Jm[1, 0]
    else:
        det = _det(Jm)
    B.eq("leapfrog step preserves phase-space volume: det Jacobian == 1", [det], [1])
    # symplecticity: J^T Omega J == Omega
    Om = np.zeros((n, n), dtype=object)
    for i in range(dim):
        Om[i, dim + i], Om[dim + i, i] = 1, -1
    B.eq("leapfrog step is symplectic: J^T Omega J == Omega", (Jm.T @ Om @ Jm), Om)


def _det(M):
    n = M.shape[0]
    if n == 1:
        return M[0, 0]
    tot = 0
    for j in range(n):
        minor = np.delete(np.delete(M, 0, axis=0), j, axis=1)
        tot = tot + ((-1) ** j) * M[0, j] * _det(minor)
    return tot


def _uniform_of(key):
    return float(jax.random.uniform(key, (), jnp.float64))


def h_accept(B, seed, steps):
    """Metropolis rule of generate_hmc_acc_rej for a quadratic potential with symbolic curvature"""
    H = hmc()
    key = jax.random.PRNGKey(seed)
    u = _uniform_of(key)
    q, p = B.reals("q", (1,)), B.reals("p", (1,))
    eps = B.reals("eps")
    a = B.reals("a")
    im = B.reals("im", (1,))
    B.assume_all([t > 0 for t in im])

    def run(q, p, eps, a, im):
        V = lambda x: 0.5 * a * jnp.sum(x * x)
        gV = lambda x: a * x
        K = lambda inv_m, mom: 0.5 * jnp.sum(inv_m * mom * mom)
        stepper = lambda ss, imm, qp: H.leapfrog_step(gV, kin_grad, ss, imm, qp)
        return H.generate_hmc_acc_rej(key=key, initial_qp=H.QP(position=q, momentum=p), potential_energy=V, kinetic_energy=K,
                                      inverse_mass_matrix=im, stepper=stepper, num_steps=steps, step_size=eps, max_energy_difference=1000.)
    res = jcall(B, run, q, p, eps, a, im)
    # reference trajectory
    qq, pp = q, p
    for _ in range(steps):
        ph = pp - eps / 2 * a * qq
        qq = qq + eps * im * ph
        pp = ph - eps / 2 * a * qq
    H0 = 0.5 * a * (q * q).sum() + 0.5 * (im * p * p).sum()
    H1 = 0.5 * a * (qq * qq).sum() + 0.5 * (im * pp * pp).sum()
    d = H0 - H1
    acc = res.accepted.reshape(-1)[0] if hasattr(res.accepted, "reshape") else res.accepted
    if B.mode == "sym":
        prob_gt_u = (d >= 0) | (_exp(d) > u)           # u < min(1, exp(H0 - H1))
        B.holds("accepted  <=>  u < min(1, exp(H(q,p) - H(q',p')))", sc.SB(sc.SB._l(acc) == prob_gt_u.e))
        accq = [sc.ite(prob_gt_u, x, y) for x, y in zip(qq, q)]
        accp = [sc.ite(prob_gt_u, -x, y) for x, y in zip(pp, p)]
        rejq = [sc.ite(prob_gt_u, y, x) for x, y in zip(qq, q)]
    else:
        ok = bool(d >= 0 or np.exp(d) > u)
        B.is_true("accepted  <=>  u < min(1, exp(H(q,p) - H(q',p')))", bool(acc) == ok)
        accq, accp, rejq = (list(qq), list(-pp), list(q)) if ok else (list(q), list(p), list(qq))
    B.eq("accepted state is the momentum-flipped proposal, otherwise the initial state (position)", _flat(res.accepted_qp.position), accq)
    B.eq("accepted state is the momentum-flipped proposal, otherwise the initial state (momentum)", _flat(res.accepted_qp.momentum), accp)
    B.eq("rejected state is the other one", _flat(res.rejected_qp.position), rejq)


def _tree(H, B, tag, dim):
    left = H.QP(position=B.reals(tag + "lq", (dim,)), momentum=B.reals(tag + "lp", (dim,)))
    right = H.QP(position=B.reals(tag + "rq", (dim,)), momentum=B.reals(tag + "rp", (dim,)))
    prop = H.QP(position=B.reals(tag + "cq", (dim,)), momentum=B.reals(tag + "cp", (dim,)))
    return dict(left=left, right=right, logweight=B.reals(tag + "lw"), proposal_candidate=prop, cumulative_acceptance=B.reals(tag + "ca"))


def h_merge(B, seed, bias, go_right):
    """merge_trees: the new sub-tree's candidate is taken with probability w_new/(w_new+w_cur) (multinomial sampling over the
    trajectory) or min(1, w_new/w_cur) (biased progressive sampling); the merged weight is the sum of the weights"""
    H = hmc()
    key = jax.random.PRNGKey(seed)
    u = _uniform_of(key)
    cur, new = _tree(H, B, "c", 1), _tree(H, B, "n", 1)

    def run(cur, new):
        mk = lambda t, depth: H.Tree(left=t["left"], right=t["right"], logweight=t["logweight"], proposal_candidate=t["proposal_candidate"],
                                     turning=False, diverging=False, depth=depth, cumulative_acceptance=t["cumulative_acceptance"])
        m = H.merge_trees(key, mk(cur, 1), mk(new, 1), go_right, bias)
        return dict(left=m.left, right=m.right, logweight=m.logweight, prop=m.proposal_candidate, ca=m.cumulative_acceptance)
    m = jcall(B, run, cur, new)
    # w_new / w_cur = exp(delta), delta = logweight_new - logweight_cur  (the same atom exp(+-delta) as in the code)
    delta = new["logweight"] - cur["logweight"]
    if B.mode == "sym":
        if bias:
            take_new = (delta >= 0) | (_exp(delta) > u)              # u < min(1, w_new/w_cur)
        else:
            take_new = (u * (1 + _exp(-delta)) < 1)                  # u < w_new/(w_new + w_cur) = 1/(1 + exp(-delta))
        want_q = [sc.ite(take_new, a, b) for a, b in zip(new["proposal_candidate"].position, cur["proposal_candidate"].position)]
    else:
        take_new = bool(delta >= 0 or np.exp(delta) > u) if bias else bool(u * (1 + np.exp(-delta)) < 1)
        want_q = list(new["proposal_candidate"].position if take_new else cur["proposal_candidate"].position)
    B.eq("merged candidate: new sub-tree's candidate iff u < P(new)  [P = w_new/(w_new+w_cur), or min(1, w_new/w_cur) if biased]",
         _flat(m["prop"].position), want_q)
    if go_right:
        B.eq("merged tree spans from the current left end to the new right end", _flat(m["left"].position) + _flat(m["right"].position),
             list(cur["left"].position) + list(new["right"].position))
    else:
        B.eq("merged tree spans from the new left end to the current right end", _flat(m["left"].position) + _flat(m["right"].position),
             list(new["left"].position) + list(cur["right"].position))
    B.eq("cumulative acceptance adds up", _flat(m["ca"]), [cur["cumulative_acceptance"] + new["cumulative_acceptance"]])
    # weights add: logweight_merged == logaddexp(logweight_new, logweight_cur)
    ref = jcall(B, lambda a, b: jnp.logaddexp(a, b), new["logweight"], cur["logweight"])
    B.eq("merged log-weight == logaddexp of the sub-tree log-weights (weights add)", _flat(m["logweight"]), _flat(ref))


def h_momentum(B, n, sampler):
    """the momentum refresh of the sampler classes is consistent with their kinetic energy: white noise xi gives a momentum
    p with p_i^2 * inverse_mass_i == xi_i^2 (p ~ N(0, M)), so kinetic_energy(p) == |xi|^2 / 2 and exp(-H) stays invariant"""
    import importlib
    import warnings
    oo = importlib.import_module("nifty.re.hmc_oo")
    H = hmc()
    im = B.reals("im", (n,))
    B.assume_all([t > 0 for t in im])
    xi = B.reals("xi", (n,))

    def run(im, xi):
        with warnings.catch_warnings():
            warnings.simplefilter("ignore")
            kw = dict(potential_energy=lambda q: 0.5 * jnp.sum(q * q), inverse_mass_matrix=im, position_proto=jnp.zeros(n), step_size=0.1)
            smp = oo.HMCChain(num_steps=1, **kw) if sampler == "hmc" else oo.NUTSChain(max_tree_depth=1, **kw)
        orig = H.random_like
        H.random_like = lambda key, primals, rng=None: xi
        try:
            p = H.sample_momentum_from_diagonal(key=jax.random.PRNGKey(0), mass_matrix_sqrt=smp.mass_matrix_sqrt)
        finally:
            H.random_like = orig
        return p, smp.kinetic_energy(smp.inverse_mass_matrix, p)
    p, kin = jcall(B, run, im, xi)
    p = np.asarray(p, dtype=object).reshape(-1)
    B.eq("refreshed momentum: p_i^2 * inverse_mass_i == xi_i^2  (p ~ N(0, M))", [p[i] * p[i] * im[i] for i in range(n)], [xi[i] * xi[i] for i in range(n)])
    B.eq("kinetic energy of the refreshed momentum == |xi|^2 / 2", [np.asarray(kin, dtype=object).reshape(-1)[0]], [sum((x * x for x in xi), 0) / 2])


def scenarios(tier, seed):
    out = []
    out.append(("momentum", {"n": 2, "sampler": "hmc"}))
    out.append(("momentum", {"n": 1, "sampler": "nuts"}))
    for dim in (1, 2):
        for steps in (1, 2, 3):
            if dim == 2 and steps == 3 and tier == "quick":
                continue
            out.append(("reversible", {"dim": dim, "steps": steps}))
    out.append(("volume", {"dim": 1}))
    out.append(("volume", {"dim": 2}))
    for sd in (0, 1, 2):
        out.append(("accept", {"seed": sd, "steps": 1}))
    out.append(("accept", {"seed": 3, "steps": 2}))
    for sd in (0, 5):
        for bias in (False, True):
            for gr in (False, True):
                out.append(("merge", {"seed": sd, "bias": bias, "go_right": gr}))
    return out


HARNESSES = {"momentum": h_momentum, "reversible": h_reversible, "volume": h_volume, "accept": h_accept, "merge": h_merge}
OPTS = {"quick": {"max_paths": 16, "budget_s": 300, "jobs": 10}, "thorough": {"max_paths": 16, "budget_s": 1200, "jobs": 10}}

META = {
    "level": "other",
    "explanation": "leapfrog_step traced with an UNINTERPRETED potential gradient (custom JAX primitive) and the module's diagonal kinetic "
                   "gradient: flip o Phi^k o flip o Phi^k == identity for k <= 3 steps, dims <= 2, symbolic step size, masses, q, p "
                   "(equalities with uninterpreted functions, Ackermannised); volume preservation and symplecticity via jax.jacfwd "
                   "through the real step for gradient fields with symmetric Jacobian (symbolic symmetric-linear plus cubic terms); "
                   "generate_hmc_acc_rej: accept  <=>  u < min(1, exp(H - H')) with the uniform u recomputed from the same key, "
                   "accepted state = momentum-flipped proposal else initial state; merge_trees (NUTS): the new sub-tree's candidate "
                   "is selected with the multinomial probability w_new/(w_new+w_cur) (or min(1, w_new/w_cur) when biased), "
                   "end points, summed weights and cumulative acceptance.",
    "functions_encoded": ["nifty.re.hmc.{leapfrog_step,flip_momentum,generate_hmc_acc_rej,total_energy_of_qp,merge_trees,select}"],
    "bounds": {"dims": "1-2", "leapfrog steps": "1-3", "PRNG keys": "a few concrete keys (the uniform draw is recomputed from the key)"},
    "stubs": ["jaxpr interpreter; uninterpreted primitive for grad V; jax.random with concrete keys is executed by JAX itself"],
    "outside": ["NUTS tree building as a whole (iterative_build_tree, u-turn criterion) and invariance of long chains", "NaN energy differences",
                "io_callback debugging hooks"],
    "assumptions": ["inverse masses > 0"],
}
