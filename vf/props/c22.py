"""C22 -- classic VI quantities do not depend on the number of MPI tasks.

The real ResidualSampleList / SampleList / SampledKLEnergyClass code runs on every task of the simulated synchronous MPI
world of C23, on fields whose entries are symbolic reals that also carry their operation tree (vf.terms.TR): two results
are bit-identical for ALL inputs iff their operation trees coincide.  The number of tasks T and of samples n are symbolic
integers concretised by solver-decided forking; samples are distributed with the library's own shareRange as
draw_samples does.  Per path and task: n_samples, average(), average(op), sample_stat(op), the iterator's sequence and
the sampled KL energy's value, gradient and metric action equal the single-process results -- as real numbers (z3) and
as operation trees (bit-identity)."""
import numpy as np

from .. import symcore as sc
from ..clcommon import ift, setup_cl, field_of, flat_of
from ..terms import TR, leaves, terms
from .c23 import World, Deadlock


def setup():
    from .c19 import setup as setup19
    setup19()


def _dom(kind):
    if kind == "single":
        return ift.DomainTuple.make(ift.UnstructuredDomain(2))
    return ift.MultiDomain.make({"a": ift.UnstructuredDomain(2), "b": ift.UnstructuredDomain(1)})


def _mk(dom, arr):
    """flat array -> Field / MultiField on dom"""
    if isinstance(dom, ift.MultiDomain):
        out, pos = {}, 0
        for k in dom.keys():
            sz = dom[k].size
            out[k] = field_of(dom[k], np.asarray(arr[pos:pos + sz]).reshape(dom[k].shape))
            pos += sz
        return ift.MultiField.from_dict(out, dom)
    return field_of(dom, np.asarray(arr).reshape(dom.shape))


def _values(B, name, size, trial):
    if B.mode == "sym":
        return leaves(B.reals(name, (size,)), name)
    rng = np.random.default_rng(abs(hash((name, trial))) % (2 ** 32))
    return rng.standard_normal(size) * (1 + 7 * rng.random(size))


def _flat(x):
    if isinstance(x, (ift.Field, ift.MultiField)):
        return list(flat_of(x))
    if isinstance(x, (list, tuple)):
        out = []
        for y in x:
            out += _flat(y)
        return out
    return [x]


def _compute(ift_objs, comm, lo, hi):
    dom, mean, res, neg, x, ham, op = ift_objs
    from nifty.cl.minimization.sample_list import ResidualSampleList, SampleList
    from nifty.cl.minimization.kl_energies import SampledKLEnergyClass
    sl = ResidualSampleList(mean, res[lo:hi], neg[lo:hi], comm)
    out = {}
    out["n_samples"] = [sl.n_samples]
    out["average()"] = _flat(sl.average())
    out["average(op)"] = _flat(sl.average(op))
    m, v = sl.sample_stat(op)
    out["sample_stat(op) mean"] = _flat(m)
    out["sample_stat(op) variance"] = _flat(v)
    out["iterator(op)"] = _flat(list(sl.iterator(op)))
    kl = SampledKLEnergyClass(sl, ham, [], None, True)
    out["KL value"] = [kl.value]
    out["KL gradient"] = _flat(kl.gradient)
    out["KL metric(x)"] = _flat(kl.apply_metric(x))
    plain = SampleList([sl.local_item(i) for i in range(hi - lo)], comm, domain=dom)
    out["SampleList.average(op)"] = _flat(plain.average(op))
    out["SampleList n_samples"] = [plain.n_samples]
    return out


def _same_bits(a, b):
    a, b = np.asarray(a, dtype=np.float64), np.asarray(b, dtype=np.float64)
    return a.shape == b.shape and bool(np.all(a.view(np.int64) == b.view(np.int64)))


def h_kl(B, kind, Tmax, Nmax, mirror, nonlinear):
    from nifty.cl import utilities as ut
    T = B.pick("T", 1, Tmax)
    n = 2 * B.pick("pairs", 1, max(1, Nmax // 2)) if mirror else B.pick("n", 1, Nmax)
    B.note(f"T={T} n={n}")
    dom = _dom(kind)
    trials = 1 if B.mode == "sym" else 12
    verdict = {}
    for trial in range(trials):
        mean = _mk(dom, _values(B, "m", dom.size, trial))
        res = []
        for i in range(n):
            if mirror and i % 2 == 1:
                res.append(res[-1])
            else:
                res.append(_mk(dom, _values(B, f"r{i}", dom.size, trial)))
        neg = [bool(mirror and i % 2 == 1) for i in range(n)]
        x = _mk(dom, _values(B, "x", dom.size, trial))
        d = _mk(dom, _values(B, "d", dom.size, trial))
        diag = _mk(dom, _values(B, "g", dom.size, trial))
        model = ift.makeOp(diag) @ ift.ScalingOperator(dom, 1.).ptw("exp") if nonlinear else ift.makeOp(diag)
        ham = ift.StandardHamiltonian(ift.GaussianEnergy(data=d) @ model)
        op = (lambda s: s * s) if not nonlinear else model
        objs = (dom, mean, res, neg, x, ham, op)
        ref = _compute(objs, None, 0, n)
        world = World(B, T)
        fns = [(lambda comm, r=r: _compute(objs, comm, *ut.shareRange(n, T, r))) for r in range(T)]
        try:
            outs = world.run(fns)
        except Deadlock as e:
            B.note(str(e))
            B.is_true("no deadlock", False)
            return
        for r in range(T):
            for key, val in ref.items():
                lab = f"task {r}: {key}"
                if B.mode == "sym":
                    B.eq(lab + " equals the single-process result", outs[r][key], val)
                    B.is_true(lab + " is bit-identical to the single-process result (same operation tree)",
                              terms(outs[r][key]) == terms(val))
                else:
                    ok = _same_bits(outs[r][key], val)
                    verdict[lab] = verdict.get(lab, True) and ok
    if B.mode != "sym":
        B.is_true("no deadlock", True)
        for lab, ok in verdict.items():
            B.is_true(lab + " equals the single-process result", ok)
            B.is_true(lab + " is bit-identical to the single-process result (same operation tree)", ok)
    else:
        B.is_true("no deadlock", True)


def h_draw(B, Tmax, Nmax, mirror, geometric, napprox=0, mini_napprox=0):
    """the real draw_samples (real CG sampling on float64 fields) on every task: the distributed sample list is the
    single-process one.  Concrete differential run inside the solver-explored (T, n) configuration: every task has its own
    copy of the process-global random state, as separate MPI processes have."""
    from nifty.cl import utilities as ut
    from nifty.cl import random as rnd
    from nifty.cl.minimization.kl_energies import draw_samples
    T = B.pick("T", 1, Tmax)
    n = B.pick("n", 1, Nmax)
    B.note(f"T={T} n={n}")
    saved, sc.Ctx.cur = sc.Ctx.cur, None      # concrete float run: the symbolic shims must stay inert
    try:
        outs, ref, nref, ref_state = _draw_all(B, T, n, mirror, geometric, napprox, mini_napprox)
    finally:
        sc.Ctx.cur = saved
    if outs is None:
        B.is_true("no deadlock", False)
        return
    B.is_true("no deadlock", True)
    allsamp = [s for r in range(T) for s in outs[r][0]]
    B.is_true("all tasks report the single-process number of samples", all(outs[r][1] == nref for r in range(T)))
    B.is_true("the distributed sample list has the single-process length", len(allsamp) == len(ref))
    B.is_true("samples (in task order) are bit-identical to the single-process samples",
              len(allsamp) == len(ref) and all(_same_bits(a, b) for a, b in zip(allsamp, ref)))
    B.is_true("every task's random state after drawing is the single-process one",
              all(outs[r][2] == ref_state for r in range(T)))


def _draw_all(B, T, n, mirror, geometric, napprox, mini_napprox):
    from nifty.cl import random as rnd
    from nifty.cl.minimization.kl_energies import draw_samples
    with rnd.Context(1234):
        dom = ift.RGSpace(4)
        multi = bool(napprox or mini_napprox)     # the probing preconditioners need a MultiDomain
        R = ift.makeOp(ift.makeField(dom, np.array([1., 2., 0.5, 1.5]))) @ ift.ScalingOperator(dom, 1.).ptw("exp")
        if multi:
            R = R @ ift.FieldAdapter(dom, "a")
        data = ift.makeField(dom, np.array([0.3, -1.2, 2.0, 0.7]))
        lh = ift.GaussianEnergy(data=data, inverse_covariance=ift.ScalingOperator(dom, 4., float)) @ R
        H = ift.StandardHamiltonian(lh, ift.AbsDeltaEnergyController(1e-6, iteration_limit=30), prior_sampling_dtype=float)
        pos = ift.makeField(dom, np.array([0.1, -0.2, 0.3, 0.05]))
        if multi:
            pos = ift.MultiField.from_dict({"a": pos})
        mini = ift.NewtonCG(ift.GradientNormController(iteration_limit=3), napprox=mini_napprox) if geometric else None
        base = rnd.getState()

        def run(comm):
            sl = draw_samples(pos, H, mini, n, mirror, napprox=napprox, comm=comm)
            return [np.array((s["a"] if multi else s).val.val, copy=True) for s in sl.local_iterator()], sl.n_samples, rnd.getState()
        ref, nref, ref_state = run(None)
        rnd.setState(base)
        states = [base] * T
        world = World(B, T)

        def on_in(r):
            rnd.setState(states[r])

        def on_out(r):
            states[r] = rnd.getState()
        world.on_in, world.on_out = on_in, on_out
        try:
            outs = world.run([(lambda comm: run(comm)) for _ in range(T)])
        except Deadlock as e:
            B.note(str(e))
            return None, ref, nref, ref_state
    return outs, ref, nref, ref_state


def scenarios(tier, seed):
    quick = [("kl", {"kind": "single", "Tmax": 3, "Nmax": 4, "mirror": False, "nonlinear": False}),
             ("kl", {"kind": "single", "Tmax": 3, "Nmax": 4, "mirror": True, "nonlinear": False}),
             ("kl", {"kind": "multi", "Tmax": 3, "Nmax": 3, "mirror": False, "nonlinear": True})]
    for mirror in (False, True):
        for geo in (False, True):
            quick.append(("draw", {"Tmax": 3, "Nmax": 3, "mirror": mirror, "geometric": geo}))
    quick.append(("draw", {"Tmax": 3, "Nmax": 3, "mirror": False, "geometric": False, "napprox": 2}))
    quick.append(("draw", {"Tmax": 3, "Nmax": 3, "mirror": True, "geometric": True, "napprox": 0, "mini_napprox": 3}))
    thorough = [("draw", {"Tmax": 6, "Nmax": 5, "mirror": m_, "geometric": g_}) for m_ in (False, True) for g_ in (False, True)]
    thorough += [("kl", {"kind": "single", "Tmax": 7, "Nmax": 6, "mirror": False, "nonlinear": False}),
                ("kl", {"kind": "single", "Tmax": 5, "Nmax": 8, "mirror": True, "nonlinear": True}),
                ("kl", {"kind": "multi", "Tmax": 5, "Nmax": 5, "mirror": False, "nonlinear": True}),
                ("kl", {"kind": "multi", "Tmax": 4, "Nmax": 6, "mirror": True, "nonlinear": False})]
    return quick if tier == "quick" else quick + thorough


HARNESSES = {"kl": h_kl, "draw": h_draw}
OPTS = {"quick": {"max_paths": 400, "budget_s": 600, "jobs": 8, "branch_timeout_ms": 10000, "obl_timeout_ms": 30000},
        "thorough": {"max_paths": 4000, "budget_s": 3000, "jobs": 8, "branch_timeout_ms": 10000, "obl_timeout_ms": 60000}}

META = {
    "level": "other",
    "explanation": "The real ResidualSampleList/SampleList (n_samples, average, sample_stat, iterator) and SampledKLEnergyClass "
                   "(value, gradient, metric action; StandardHamiltonian of a Gaussian likelihood with linear / exp model) run on "
                   "every task of a simulated synchronous MPI world; T and n are symbolic integers concretised by solver-decided "
                   "forking, samples are distributed with shareRange as draw_samples does (mirrored pairs may be split across tasks). "
                   "Field entries are symbolic reals carrying their operation tree: z3 proves equality with the single-process "
                   "result for ALL values, and identity of the operation trees gives bit-identity in IEEE arithmetic.",
    "functions_encoded": ["nifty.cl.minimization.sample_list.{SampleListBase.__init__,average,_average_2tuple,sample_stat,iterator,"
                          "ResidualSampleList,SampleList,_compute_local_indices,_bcast}",
                          "nifty.cl.minimization.kl_energies.SampledKLEnergyClass.{__init__,apply_metric}",
                          "nifty.cl.utilities.{allreduce_sum,shareRange,check_MPI_equality}", "nifty.cl.probing.StatCalculator"],
    "bounds": {"tasks": "<= 3 quick, <= 7 thorough (more tasks than samples included)", "samples": "<= 4 quick, <= 8 thorough",
               "field size": "2-3 entries"},
    "stubs": ["mpi4py communicator replaced by the C23 world model", "exp uninterpreted"],
    "outside": ["drawing the samples (CG sampling with real random numbers) and whole optimize_kl runs", "save/load across task counts (C26)"],
    "assumptions": [],
}
