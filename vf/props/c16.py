"""C16 -- classic descent minimisers are monotone and their line search is sound (front end A).

The energy is *uninterpreted*: value and gradient at every distinct position are
fresh symbols (with congruence), so each result holds for EVERY energy -- smooth
or not, convex or not.  The real LineSearch / DescentMinimizer code runs against
it; all feasible paths are explored for the stated iteration limits."""
import numpy as np

from .. import shims_cl
from .. import symcore as sc
from ..clcommon import ift, field_of, flat_of, setup_cl, unflat, vdot_flat

U = ift.UnstructuredDomain


def setup():
    setup_cl()
    sc.set_divmode("let")
    import nifty.cl.minimization.line_search as ls
    import nifty.cl.minimization.descent_minimizers as dm
    import nifty.cl.minimization.iteration_controllers as icm
    import nifty.cl.minimization.energy as en
    for m in (ls, dm, icm, en):
        shims_cl.proxy_np(m)
    shims_cl.proxy_float(ls)


def make_uenergy(B, dom, with_metric=False):
    """Energy subclass whose value/gradient(/metric diagonal) are uninterpreted functions of the position"""

    class UEnergy(ift.Energy):
        evaluated = []

        def __init__(self, position):
            super(UEnergy, self).__init__(position)
            x = list(flat_of(position))
            self._value = B.ufun("phi", x)
            self._grad = field_of(dom, np.array([B.ufun(f"dphi{i}", x) for i in range(len(x))],
                                                dtype=object if B.mode == "sym" else np.float64))
            if with_metric:
                h = [B.ufun(f"hess{i}", x) for i in range(len(x))]
                B.assume_all([t > 0 for t in h])
                self._met = ift.DiagonalOperator(field_of(dom, np.array(h, dtype=object if B.mode == "sym" else np.float64)))
            UEnergy.evaluated.append(self)

        def at(self, position):
            return UEnergy(position)

        @property
        def value(self):
            return self._value

        @property
        def gradient(self):
            return self._grad

        @property
        def metric(self):
            return self._met

        def apply_metric(self, x):
            return self._met(x)
    return UEnergy


def h_linesearch(B, max_it, max_zoom, pis, fk, c1=None, c2=None, n=1):
    dom = ift.DomainTuple.make(U(n))
    x0 = B.reals("x0", (n,))
    pk = B.reals("pk", (n,))
    kw = {}
    if c1 is not None:
        kw["c1"], kw["c2"] = c1, c2
    E = make_uenergy(B, dom)
    if pis is not None:
        # a symbolic preferred step: every trial step length is then an exact symbolic expression (a concrete float
        # step would make the code form rounded float products such as c1*alpha, which is round-off, not logic)
        pis = B.reals("pis")
        B.assume(pis > 0)
    ls = ift.LineSearch(preferred_initial_step_size=pis, max_iterations=max_it, max_zoom_iterations=max_zoom, **kw)
    e0 = E(field_of(dom, x0))
    fkm1 = None
    if fk:
        fkm1 = B.reals("fkm1")
        B.assume(fkm1 >= e0.value)          # documented: energy value of the previous (higher) iterate
    pkf = field_of(dom, pk)
    e1, success = ls.perform_line_search(e0, pkf, fkm1)
    B.note(f"success={success}")
    phi0 = e0.value
    dphi0 = vdot_flat(flat_of(e0.gradient), pk)
    if not success:
        # an unsuccessful search must still hand back a point of the search line at which the energy was evaluated
        B.is_true("unsuccessful search returns an evaluated energy", any(e1 is e for e in E.evaluated))
        return
    # step length of the returned point:  x1 = x0 + alpha * pk
    x1 = flat_of(e1.position)
    alpha = B.reals("alpha_ret")
    for i in range(n):
        B.assume(x1[i] == x0[i] + alpha * pk[i])      # defines alpha (pk != 0 on success paths since phi'(0) < 0)
    B.holds("success implies a descent direction (phi'(0) < 0)", dphi0 < 0)
    B.holds("success implies a positive step", alpha > 0)
    phi1 = e1.value
    dphi1 = vdot_flat(flat_of(e1.gradient), pk)
    # when a trial step is a concrete float (clipped at 0.99*max_step_size, or 1.0 and its doublings/bisections) the code
    # forms the float product c1*alpha, rounded in the last bit; the slope term is therefore compared up to 1e-12
    slack = 1 - 1e-12
    B.holds("strong Wolfe 1 (sufficient decrease): phi(a) <= phi(0) + c1 a phi'(0) [slope term up to rel. 1e-12]",
            phi1 <= phi0 + ls.c1 * slack * alpha * dphi0)
    B.holds("strong Wolfe 2 (curvature): |phi'(a)| <= c2 |phi'(0)|", abs(dphi1) <= -ls.c2 * dphi0)
    B.holds("successful search does not increase the energy", phi1 <= phi0)


def h_descent(B, minimizer, limit, max_it, max_zoom, n=1):
    """DescentMinimizer.__call__: energies handed to the controller never increase; status is CONVERGED or ERROR"""
    dom = ift.DomainTuple.make(U(n))
    x0 = B.reals("x0", (n,))
    E = make_uenergy(B, dom, with_metric=(minimizer == "RelaxedNewton"))
    seen = []

    class Rec(ift.GradientNormController):
        def check(self, energy):
            seen.append(energy.value)
            return ift.GradientNormController.check.__wrapped__(self, energy) if hasattr(ift.GradientNormController.check, "__wrapped__") \
                else super(Rec, self).check(energy)
    ctl = Rec(iteration_limit=limit)
    pis = None
    if minimizer == "RelaxedNewton":
        pis = B.reals("pis")
        B.assume(pis > 0)
    ls = ift.LineSearch(preferred_initial_step_size=pis, max_iterations=max_it, max_zoom_iterations=max_zoom)
    if minimizer == "SteepestDescent":
        m = ift.SteepestDescent(ctl, ls)
    elif minimizer == "RelaxedNewton":
        m = ift.RelaxedNewton(ctl, ls)
    else:
        raise ValueError(minimizer)
    e0 = E(field_of(dom, x0))
    e1, status = m(e0)
    B.is_true("status is CONVERGED or ERROR", status in (ctl.CONVERGED, ctl.ERROR))
    for a, b in zip(seen[:-1], seen[1:]):
        B.holds("energies handed to the controller never increase", b <= a)
    B.holds("returned energy is not above the start", e1.value <= e0.value)
    B.is_true("returned energy is one that was evaluated", any(e1 is e for e in E.evaluated))


def h_bfgs(B, n, hist, steps, descent=False):
    """L_BFGS and VL_BFGS compute the same descent direction from the same history"""
    dom = ift.DomainTuple.make(U(n))

    class Fake:
        def __init__(self, x, g):
            self.position, self.gradient = field_of(dom, x), field_of(dom, g)
    ctl = ift.GradientNormController(iteration_limit=1)
    lb = ift.L_BFGS(ctl, max_history_length=hist)
    vb = ift.VL_BFGS(ctl, max_history_length=hist)
    lb.reset()
    vb.reset()
    xs = [B.reals(f"x{k}", (n,)) for k in range(steps)]
    gs = [B.reals(f"g{k}", (n,)) for k in range(steps)]
    for k in range(1, steps):
        s = xs[k] - xs[k - 1]
        y = gs[k] - gs[k - 1]
        B.assume(vdot_flat(s, y) > 0)       # curvature condition (guaranteed by a Wolfe line search)
    for k in range(steps):
        e = Fake(xs[k], gs[k])
        d1 = lb.get_descent_direction(e)
        d2 = vb.get_descent_direction(e)
        B.eq(f"step {k}: L_BFGS direction == VL_BFGS direction", flat_of(d1), flat_of(d2))
        if k == 0:
            B.eq("first direction is steepest descent", flat_of(d1), -gs[0])
        if descent:
            B.holds(f"step {k}: direction is a descent direction (g.p < 0 unless g == 0)",
                    (vdot_flat(gs[k], flat_of(d1)) < 0) | (vdot_flat(gs[k], gs[k]) == 0))


def scenarios(tier, seed):
    quick, thorough = [], []
    for (mi, mz) in ((1, 1), (2, 1), (3, 1)):
        for pis in (None, 1.0):
            for fk in (False, True):
                if pis is not None and fk:
                    continue
                tgt = quick if (mi <= 2 or (pis is None and not fk)) else thorough
                tgt.append(("linesearch", {"max_it": mi, "max_zoom": mz, "pis": pis, "fk": fk}))
    # non-default Wolfe parameters
    quick.append(("linesearch", {"max_it": 2, "max_zoom": 1, "pis": 1.0, "fk": False, "c1": 0.3, "c2": 0.6}))
    quick.append(("linesearch", {"max_it": 1, "max_zoom": 1, "pis": None, "fk": True, "c1": 0.25, "c2": 0.5}))
    # two pixels
    quick.append(("linesearch", {"max_it": 1, "max_zoom": 1, "pis": 1.0, "fk": False, "n": 2}))
    thorough.append(("linesearch", {"max_it": 2, "max_zoom": 1, "pis": None, "fk": False, "n": 2}))
    for (mi, mz) in ((1, 2),):
        # (max_it, max_zoom) = (2, 2) and (1, 3) do not finish within 40 minutes: not claimed
        thorough.append(("linesearch", {"max_it": mi, "max_zoom": mz, "pis": 1.0, "fk": False}))
        thorough.append(("linesearch", {"max_it": mi, "max_zoom": mz, "pis": 1.0, "fk": False, "c1": 0.3, "c2": 0.6}))
    for mname in ("SteepestDescent", "RelaxedNewton"):
        quick.append(("descent", {"minimizer": mname, "limit": 1, "max_it": 2, "max_zoom": 1}))
        thorough.append(("descent", {"minimizer": mname, "limit": 2, "max_it": 1, "max_zoom": 1}))
        # three minimiser iterations, or two with two line-search iterations each, do not finish / exceed the path limit: not claimed
    quick.append(("bfgs", {"n": 2, "hist": 2, "steps": 2}))
    quick.append(("bfgs", {"n": 2, "hist": 1, "steps": 2}))
    quick.append(("bfgs", {"n": 2, "hist": 2, "steps": 4}))       # the circular history buffer has wrapped at the last point
    thorough.append(("bfgs", {"n": 2, "hist": 2, "steps": 3}))
    thorough.append(("bfgs", {"n": 2, "hist": 1, "steps": 3}))
    thorough.append(("bfgs", {"n": 2, "hist": 1, "steps": 2, "descent": True}))     # best effort (degree-6 NRA)
    return quick if tier == "quick" else quick + thorough


HARNESSES = {"linesearch": h_linesearch, "descent": h_descent, "bfgs": h_bfgs}
OPTS = {"quick": {"max_paths": 400, "branch_timeout_ms": 15000, "obl_timeout_ms": 30000, "budget_s": 300, "jobs": 10},
        "thorough": {"max_paths": 3000, "branch_timeout_ms": 60000, "obl_timeout_ms": 300000, "budget_s": 2400, "jobs": 10}}

META = {
    "level": "other",
    "explanation": "LineSearch.perform_line_search/_zoom/_quadmin/_cubicmin and DescentMinimizer.__call__ (SteepestDescent, "
                   "RelaxedNewton) run unmodified against an UNINTERPRETED energy: value and gradient (and a positive metric "
                   "diagonal) at every distinct position are fresh symbols with congruence constraints, start point, direction and "
                   "f_{k-1} are symbolic, c1/c2 are the code's own float constants taken as exact rationals.  For the iteration "
                   "limits set through the constructor all feasible paths are explored; on every path that reports success z3 "
                   "proves both strong Wolfe conditions for the returned energy's own step length, value and slope relative to the "
                   "start; for the minimisers: the energies handed to the controller never increase and the status is CONVERGED "
                   "or ERROR.  L_BFGS and VL_BFGS (incl. _InformationStore) give identical directions from the same symbolic "
                   "history (dimension 2, history <= 2, curvature condition assumed).",
    "functions_encoded": ["nifty.cl.minimization.line_search.{LineEnergy,LineSearch.perform_line_search,_zoom,_quadmin,_cubicmin}",
                          "nifty.cl.minimization.descent_minimizers.{DescentMinimizer.__call__,SteepestDescent,RelaxedNewton,L_BFGS.get_descent_direction,VL_BFGS.get_descent_direction,_InformationStore}",
                          "nifty.cl.minimization.iteration_controllers.GradientNormController"],
    "bounds": {"line search": "(max_iterations, max_zoom_iterations) in {(1,1),(2,1),(3,1)} quick; (1,2) thorough ((2,2) and (1,3) do not finish and are not claimed)",
               "pixels": "1 (2 for a few)", "descent iterations": "1 quick, 2 thorough (3 do not finish and are not claimed)", "BFGS": "dimension 2, history <= 2, <= 4 points (the circular buffer wraps)"},
    "stubs": shims_cl.STUBS[:8] + ["the energy is an uninterpreted function (harness Energy subclass): every oracle answer is a fresh symbol"],
    "outside": ["interpolation denominators that are exactly zero (the code's ArithmeticError fall-backs; excluded by definedness side conditions)",
                "NewtonCG's inner CG (C14)", "ScipyMinimizer", "more line-search iterations than the bound"],
    "assumptions": ["f_{k-1} >= E(x_k) when passed", "metric diagonal positive (RelaxedNewton)", "s.y > 0 for the BFGS history"],
}
