"""C14 -- classic conjugate gradient solves positive definite systems (front end A).

The real ConjugateGradient / QuadraticEnergy / iteration controllers /
InversionEnabler run on a symbolic HPD operator, right-hand side, start,
tolerances and preconditioner; every feasible path (which branch the controller
and the gamma/curvature tests take) is explored and on each path the solver
decides the obligations for ALL data."""
import os

import numpy as np

from .. import shims_cl
from .. import symcore as sc
from ..clcommon import ift, field_of, flat_of, setup_cl, unflat, vdot_flat

U = ift.UnstructuredDomain


def setup():
    setup_cl()
    sc.set_divmode(os.environ.get("C14_DIVMODE", "let"))
    import nifty.cl.minimization.conjugate_gradient as cg
    import nifty.cl.minimization.iteration_controllers as icm
    import nifty.cl.minimization.quadratic_energy as qe
    import nifty.cl.minimization.energy as en
    import nifty.cl.field as fld
    for m in (cg, icm, qe, en, fld):
        shims_cl.proxy_np(m)


def make_A(B, n, kind, cplx):
    """-> (operator, dense matrix as object array)"""
    dom = ift.DomainTuple.make(U(n))
    if kind == "diag":
        a = B.reals("a", (n,))
        B.assume_all([t > 0 for t in a])
        return ift.DiagonalOperator(field_of(dom, a)), np.diag(a), dom
    if kind == "diag_fixed":
        # a concrete positive diagonal: cheaper terms for runs with several iterations (rhs and start stay symbolic)
        a = np.array([1.0, 3.0, 7.0][:n])
        aa = a.astype(object) if B.mode == "sym" else a
        return ift.DiagonalOperator(field_of(dom, aa)), np.diag(aa), dom
    if kind == "dense":
        # L L^H + diag(e), e > 0  (Hermitian positive definite by construction)
        l = B.values("l", (n, n), cplx)
        e = B.reals("e", (n,))
        B.assume_all([t > 0 for t in e])
        L = ift.MatrixProductOperator(dom, l)
        op = ift.SandwichOperator.make(L.adjoint) + ift.DiagonalOperator(field_of(dom, e))
        M = l @ np.conjugate(l).T + np.diag(e)
        return op, M, dom
    raise ValueError(kind)


def make_ctrl(B, ctrl, limit, level):
    c, crit = _make_ctrl(B, ctrl, limit, level)
    # record the energies the controller sees (EnergyHistory itself calls float())
    c._seen = []
    orig = c.check

    def check(energy):
        c._seen.append(energy.value)
        return orig(energy)
    c.check = check
    return c, crit


def _make_ctrl(B, ctrl, limit, level):
    if ctrl == "gradnorm_abs":
        tau = B.reals("tau")
        B.assume(tau > 0)
        return ift.GradientNormController(tol_abs_gradnorm=tau, iteration_limit=limit, convergence_level=level), ("abs", tau)
    if ctrl == "gradnorm_rel":
        rho = B.reals("rho")
        B.assume(rho > 0)
        B.assume(rho < 1)
        return ift.GradientNormController(tol_rel_gradnorm=rho, iteration_limit=limit, convergence_level=level), ("rel", rho)
    if ctrl == "gradinf":
        tau = B.reals("tau")
        B.assume(tau > 0)
        return ift.GradInfNormController(tau, iteration_limit=limit, convergence_level=level), ("inf", tau)
    if ctrl == "absdelta":
        de = B.reals("de")
        B.assume(de > 0)
        return ift.AbsDeltaEnergyController(de, iteration_limit=limit, convergence_level=level), ("absdelta", de)
    if ctrl == "reldelta":
        de = B.reals("de")
        B.assume(de > 0)
        return ift.DeltaEnergyController(de, iteration_limit=limit, convergence_level=level), ("reldelta", de)
    if ctrl == "limit_only":
        return ift.GradientNormController(iteration_limit=limit), ("none", None)
    raise ValueError(ctrl)


def _matvec(M, x):
    return [sum_(M[i, j] * x[j] for j in range(len(x))) for i in range(len(x))]


def sum_(it):
    r = 0
    for t in it:
        r = r + t
    return r


def _norm2(v):
    return sum_(t * (t.conjugate() if hasattr(t, "conjugate") else t) for t in v)


def check_result(B, tag, energy, status, ctl, crit, M, b, e_start, limit, P=None):
    """The residual guarantee is split into two obligations that together imply it:
    (i) the energy's gradient equals the residual A x - b recomputed independently from the returned
    position (a polynomial identity, decided by the rewriter), and (ii) the controller's criterion holds
    for that very gradient object (or it vanishes)."""
    x = list(flat_of(energy.position))
    res = [u - v for u, v in zip(_matvec(M, x), b)]           # independently recomputed residual A x - b
    B.eq(f"{tag}energy.gradient == A x - b at the returned position", flat_of(energy.gradient), res)
    val = 0.5 * vdot_flat(x, _matvec(M, x)) - vdot_flat(b, x)
    val = val.real if hasattr(val, "real") else val
    B.eq(f"{tag}energy.value == 1/2 x^H A x - Re b^H x", [energy.value], [val])
    B.is_true(f"{tag}status is not ERROR for a positive definite system", status != ctl.ERROR)
    B.is_true(f"{tag}status is CONVERGED", status == ctl.CONVERGED)
    at_limit = limit is not None and ctl._itcount >= limit
    if at_limit:
        B.note("returned at the iteration limit")
        return
    kind, tol = crit
    g = energy.gradient
    pg = g if P is None else P(g)
    gam = g.s_vdot(pg).real                    # the quantity CG tests against 0 (same construction => same term)
    zero_res = (gam == 0)
    if kind == "abs":
        ok = (energy.gradient_norm <= tol) | zero_res
    elif kind == "rel":
        ok = (energy.gradient_norm <= tol * e_start.gradient_norm) | zero_res
    elif kind == "inf":
        ok = (g.norm(np.inf) / abs(energy.value) <= tol) | zero_res
    elif kind in ("absdelta", "reldelta"):
        h = ctl._seen
        last = h[-1]
        seen_last = (last == energy.value)
        B.holds(f"{tag}last energy seen by the controller is the energy of the returned position (unless the residual is 0)",
                seen_last | zero_res)
        if len(h) >= 2:
            d = abs(h[-2] - h[-1])
            if kind == "absdelta":
                ok = (d < tol) | zero_res
            else:
                ok = (d / max(abs(h[-2]), abs(h[-1])) < tol) | zero_res
        else:
            ok = zero_res
    else:
        ok = zero_res
    B.holds(f"{tag}CONVERGED before the limit only if the criterion holds for the returned gradient (or it vanishes)", ok)


def h_cg(B, n, kind, ctrl, limit, level, nreset, precond, cplx, reuse=False):
    with shims_cl.complex_mode(cplx):
        with B.setup():
            A, M, dom = make_A(B, n, kind, cplx)
            ctl, crit = make_ctrl(B, ctrl, limit, level)
            P = None
            if precond:
                p = B.reals("p", (n,))
                B.assume_all([t > 0 for t in p])
                P = ift.DiagonalOperator(field_of(dom, p))
        nsolve = 2 if reuse else 1
        for k in range(nsolve):
            b = B.values(f"b{k}", (n,), cplx)
            x0 = B.values(f"x{k}", (n,), cplx)
            energy = ift.QuadraticEnergy(field_of(dom, x0), A, field_of(dom, b))
            g0 = [u - v for u, v in zip(_matvec(M, list(x0)), b)]
            B.eq((f"solve {k}: " if reuse else "") + "starting energy.gradient == A x0 - b", flat_of(energy.gradient), g0)
            cg = ift.ConjugateGradient(ctl, nreset=nreset)
            e2, status = cg(energy, preconditioner=P)
            check_result(B, f"solve {k}: " if reuse else "", e2, status, ctl, crit, M, list(b), energy, limit, P)


def h_inversion(B, n, mode, limit, cplx):
    """InversionEnabler: the numerically inverted mode returns x with the residual guarantee for the mode-flipped operator"""
    with shims_cl.complex_mode(cplx):
        with B.setup():
            dom = ift.DomainTuple.make(U(n))
            a = B.values("a", (n,), cplx)
            if cplx:
                B.assume_all([t.real > 0 for t in a])
                B.assume_all([t.imag == 0 for t in a])     # Hermitian positive definite diagonal carried in complex scalars
            else:
                B.assume_all([t > 0 for t in a])

            class _NoInverse(ift.EndomorphicOperator):
                """diagonal operator that only advertises TIMES|ADJOINT_TIMES (so the enabler must iterate)"""

                def __init__(self):
                    self._domain = dom
                    self._capability = self.TIMES | self.ADJOINT_TIMES

                def apply(self, x, mode):
                    self._check_input(x, mode)
                    d = field_of(dom, a)
                    return d * x if mode == self.TIMES else d.conjugate() * x
            tau = B.reals("tau")
            B.assume(tau > 0)
            ctl = ift.GradientNormController(tol_abs_gradnorm=tau, iteration_limit=limit)
            op = ift.InversionEnabler(_NoInverse(), ctl)
        y = B.values("y", (n,), cplx)
        B.is_true("InversionEnabler advertises all four modes", op.capability == op._all_ops)
        m = {"inverse": op.INVERSE_TIMES, "adjoint_inverse": op.ADJOINT_INVERSE_TIMES}[mode]
        x = flat_of(op.apply(field_of(dom, y), m))
        diag = [t.conjugate() if (mode == "adjoint_inverse" and hasattr(t, "conjugate")) else t for t in a]
        res = [d * u - v for d, u, v in zip(diag, x, y)]
        r2 = _norm2(res)
        r2 = r2.real if hasattr(r2, "real") else r2
        if ctl._itcount >= limit:
            B.note("inversion stopped at the iteration limit")
            return
        B.holds("InversionEnabler: residual of the mode-flipped system meets the controller's tolerance", r2 <= tau * tau)


def scenarios(tier, seed):
    base = dict(n=2, kind="diag", nreset=20, precond=False, cplx=False, level=1)
    quick, thorough = [], []
    for ctrl in ("gradnorm_abs", "gradnorm_rel", "gradinf", "absdelta", "reldelta", "limit_only"):
        for limit in (1, 2, 3):
            heavy = limit == 3 or (limit == 2 and ctrl in ("reldelta", "gradinf"))
            (thorough if heavy else quick).append(("cg", dict(base, ctrl=ctrl, limit=limit)))
    # recomputed residual every step / every second step
    quick.append(("cg", dict(base, ctrl="gradnorm_abs", limit=2, nreset=1)))
    # a reset step FOLLOWED by an ordinary step (the recomputed residual must be the one of the new position); ~7 min
    thorough.append(("cg", dict(base, n=3, kind="diag_fixed", ctrl="gradnorm_abs", limit=3, nreset=2)))
    thorough.append(("cg", dict(base, ctrl="gradnorm_abs", limit=3, nreset=1)))
    thorough.append(("cg", dict(base, ctrl="gradnorm_abs", limit=3, nreset=2)))
    quick.append(("cg", dict(base, ctrl="gradnorm_abs", limit=2, level=2)))
    thorough.append(("cg", dict(base, ctrl="gradnorm_abs", limit=3, level=2)))
    thorough.append(("cg", dict(base, ctrl="absdelta", limit=3, level=2)))
    quick.append(("cg", dict(base, ctrl="gradnorm_abs", limit=2, precond=True)))
    thorough.append(("cg", dict(base, ctrl="gradnorm_rel", limit=2, precond=True)))
    for ctrl in ("gradnorm_abs", "gradnorm_rel"):
        quick.append(("cg", dict(base, n=1, ctrl=ctrl, limit=2, cplx=True)))
        quick.append(("cg", dict(base, ctrl=ctrl, limit=1, cplx=True)))
        thorough.append(("cg", dict(base, ctrl=ctrl, limit=2, cplx=True)))
    quick.append(("cg", dict(base, n=1, ctrl="gradnorm_abs", limit=None)))     # no limit: exact termination after n steps
    thorough.append(("cg", dict(base, ctrl="gradnorm_abs", limit=None)))
    # the same controller object used for two consecutive solves
    for ctrl in ("gradnorm_rel", "gradnorm_abs", "absdelta"):
        quick.append(("cg", dict(base, n=1, ctrl=ctrl, limit=2, reuse=True)))
    quick.append(("cg", dict(base, ctrl="gradnorm_rel", limit=1, reuse=True)))
    thorough.append(("cg", dict(base, ctrl="gradnorm_rel", limit=2, reuse=True)))
    for mode in ("inverse", "adjoint_inverse"):
        quick.append(("inversion", {"n": 2, "mode": mode, "limit": 2, "cplx": False}))
        quick.append(("inversion", {"n": 1, "mode": mode, "limit": 2, "cplx": True}))
        thorough.append(("inversion", {"n": 2, "mode": mode, "limit": 3, "cplx": False}))
    thorough.append(("cg", dict(base, kind="dense", ctrl="gradnorm_abs", limit=1)))
    thorough.append(("cg", dict(base, n=3, ctrl="gradnorm_abs", limit=2)))
    # dense 2x2 with two iterations (real and complex) and the symbolic diagonal n = 3 with three iterations do not finish
    # within 40 minutes: not claimed
    thorough.append(("inversion", {"n": 2, "mode": "inverse", "limit": 3, "cplx": True}))
    return quick if tier == "quick" else quick + thorough


HARNESSES = {"cg": h_cg, "inversion": h_inversion}
OPTS = {"quick": {"max_paths": 200, "branch_timeout_ms": 20000, "obl_timeout_ms": 30000, "budget_s": 400, "jobs": 10},
        "thorough": {"max_paths": 600, "branch_timeout_ms": 60000, "obl_timeout_ms": 120000, "budget_s": 2400, "jobs": 8}}

META = {
    "level": "other",
    "explanation": "ConjugateGradient.__call__, QuadraticEnergy (at, at_with_grad), every IterationController in "
                   "iteration_controllers.py and InversionEnabler.apply run unmodified on a symbolic positive definite operator "
                   "(positive diagonal n<=2 [3 thorough]; dense L L^H + diag 2x2 thorough), right-hand side, start, tolerances and "
                   "positive preconditioner, real and complex.  All feasible paths (controller decisions, gamma/curvature tests, "
                   "max(0, gamma/previous_gamma)) are explored; on every path z3 proves: the returned energy's value and gradient "
                   "equal 1/2 x^H A x - Re b^H x and A x - b recomputed independently from the returned position (a wrong "
                   "recursive residual update shows here), status is never ERROR, and CONVERGED before the iteration limit "
                   "implies the controller's criterion for the *recomputed* residual (or a zero residual).  Re-use of one "
                   "controller object for consecutive solves is included.",
    "functions_encoded": ["nifty.cl.minimization.conjugate_gradient.ConjugateGradient.__call__",
                          "nifty.cl.minimization.quadratic_energy.QuadraticEnergy.{__init__,at,at_with_grad,apply_metric}",
                          "nifty.cl.minimization.iteration_controllers.{GradientNormController,GradInfNormController,DeltaEnergyController,AbsDeltaEnergyController}.{start,check}",
                          "nifty.cl.operators.inversion_enabler.InversionEnabler.apply", "nifty.cl.minimization.energy.Energy.gradient_norm"],
    "bounds": {"system size": "n <= 2 (quick); thorough: n = 3 with 2 iterations (3 for a fixed diagonal), dense 2x2 with 1 iteration (2 iterations do not finish and are not claimed)", "iteration_limit": "1..3 or none (exact termination)",
               "convergence_level": "1, 2", "nreset": "1, 2, 20"},
    "stubs": shims_cl.STUBS[:5],
    "outside": ["n > 3", "the size-40 conditioning study of the property text", "loss of orthogonality / round-off", "StochasticAbsDeltaEnergyController"],
    "assumptions": ["operator Hermitian positive definite, preconditioner positive diagonal, tolerances > 0, 0 < tol_rel < 1"],
}
