"""C10 -- power distribution and power analysis are exact on binned spectra (front end A)."""
import numpy as np

from .. import shims_cl
from ..clcommon import ift, field_of, flat_of, setup_cl, unflat, vdot_flat
from .c02 import setup as setup_c02

U = ift.UnstructuredDomain


def setup():
    setup_c02()   # utilities np proxy (bincount) + special_add_at on real/imag parts
    import nifty.cl.sugar as sg
    shims_cl.proxy_np(sg)


PARTNERS = {
    "rg4": lambda: ift.RGSpace(4, distances=0.5, harmonic=True),
    "rg5": lambda: ift.RGSpace(5, distances=0.3, harmonic=True),
    "rg6": lambda: ift.RGSpace(6, distances=1.0, harmonic=True),
    "rg3x2": lambda: ift.RGSpace((3, 2), distances=(0.5, 0.7), harmonic=True),
    "rg2x2": lambda: ift.RGSpace((2, 2), distances=(1.0, 1.0), harmonic=True),
    "rg4x3": lambda: ift.RGSpace((4, 3), distances=(0.25, 0.4), harmonic=True),
}


def binbounds_of(hp, binning):
    """bin bounds placed between the partner's unique k lengths (so that no bin is empty)"""
    if binning == "natural":
        return None
    k = [float(t) for t in hp.get_unique_k_lengths()]
    mid = [(a + b) / 2 for a, b in zip(k[:-1], k[1:])]
    if binning == "coarse":       # zero mode | everything else
        return (mid[0],)
    if binning == "three":        # zero mode | middle | largest k
        return (mid[0], mid[-1])
    if binning == "lin":          # equidistant bounds from the library helper
        return ift.PowerSpace.linear_binbounds(3, mid[0], mid[-1])
    if binning == "upper":        # first bin collects several k lengths
        return (mid[len(mid) // 2],)
    raise ValueError(binning)


def binning_ok(partner, binning):
    hp = PARTNERS[partner]()
    try:
        ift.PowerSpace(hp, binbounds_of(hp, binning))
        return True
    except (ValueError, IndexError):
        return False


def make_domain(partner, layout):
    hp = PARTNERS[partner]()
    if layout == "single":
        return ift.DomainTuple.make(hp), 0, hp
    if layout == "first":
        return ift.DomainTuple.make((hp, ift.RGSpace(2, distances=0.25))), 0, hp
    if layout == "mid":
        return ift.DomainTuple.make((ift.RGSpace(2, distances=2.0), hp, ift.RGSpace(2, distances=0.5, harmonic=True))), 1, hp
    if layout == "last":
        return ift.DomainTuple.make((ift.RGSpace(2, distances=0.5), hp)), 1, hp
    raise ValueError(layout)


def _move(a, axes, front=True):
    """move the given axes (a contiguous block) to the front, flattening them"""
    a = np.asarray(a)
    pre = a.shape[:axes[0]]
    post = a.shape[axes[-1] + 1:]
    n = int(np.prod([a.shape[i] for i in axes]))
    return a.reshape(pre + (n,) + post), len(pre)


def h_distribute(B, partner, binning, layout, cplx):
    with shims_cl.complex_mode(cplx):
        with B.setup():
            dom, space, hp = make_domain(partner, layout)
            ps = ift.PowerSpace(hp, binbounds_of(hp, binning))
            pd = ift.PowerDistributor(dom, ps, space)
            pindex = np.asarray(ps.pindex).reshape(-1)
            nb = ps.shape[0]
        B.is_true("every bin is non-empty", len(set(pindex.tolist())) == nb and pindex.min() == 0 and pindex.max() == nb - 1)
        B.is_true("distributor maps the power space onto the harmonic partner",
                  pd.target is dom and pd.domain[space] == ps and all(pd.domain[i] == dom[i] for i in range(len(dom)) if i != space))
        P = B.values("P", pd.domain.shape, cplx)
        v = B.values("v", dom.shape, cplx)
        got = np.asarray(pd(field_of(pd.domain, P)).val.val)
        g2, ax = _move(got, dom.axes[space])
        want = np.empty(g2.shape, dtype=object if B.mode == "sym" else got.dtype)
        Pm = np.moveaxis(P, ax, 0)
        wm = np.moveaxis(want, ax, 0)
        for i, b in enumerate(pindex):
            wm[i] = Pm[b]
        B.eq("distribute: every mode gets the value of its bin", g2, want)
        adj = np.asarray(pd.adjoint_times(field_of(dom, v)).val.val)
        v2, _ = _move(v, dom.axes[space])
        vm = np.moveaxis(v2, ax, 0)
        wa = np.zeros(adj.shape, dtype=object if B.mode == "sym" else adj.dtype)
        am = np.moveaxis(wa, ax, 0)
        for i, b in enumerate(pindex):
            am[b] = am[b] + vm[i]
        B.eq("adjoint: sums over the members of each bin", adj, wa)
        # <y, PD P> == <PD^H y, P>
        B.eq("distributor adjointness", vdot_flat(v.reshape(-1), got.reshape(-1)), vdot_flat(adj.reshape(-1), P.reshape(-1)))


def h_analyze(B, partner, binning, layout, mode):
    """mode: 'real' (real field), 'cplx' (complex field), 'phase' (keep_phase_information)"""
    cplx = mode != "real"
    with shims_cl.complex_mode(cplx):
        with B.setup():
            dom, space, hp = make_domain(partner, layout)
            bb = binbounds_of(hp, binning)
            ps = ift.PowerSpace(hp, bb)
            pindex = np.asarray(ps.pindex).reshape(-1)
            nb = ps.shape[0]
        f = B.values("f", dom.shape, cplx)
        ff = field_of(dom, f)
        res = ift.power_analyze(ff, spaces=space, binbounds=bb, keep_phase_information=(mode == "phase"))
        B.is_true("result lives on the power space", res.domain[space] == ps)
        got = np.asarray(res.val.val)
        f2, ax = _move(f, dom.axes[space])
        fm = np.moveaxis(f2, ax, 0)
        rho = np.bincount(pindex, minlength=nb)
        want = np.zeros(got.shape, dtype=object if B.mode == "sym" else got.dtype)
        wm = np.moveaxis(want, ax, 0)

        def sq(z):
            if mode == "real":
                return z * z
            if mode == "cplx":
                return z.real * z.real + z.imag * z.imag
            return z.real * z.real + 1j * (z.imag * z.imag)
        for i, b in enumerate(pindex):
            wm[b] = wm[b] + sq(fm[i]) / float(rho[b])
        B.close("power_analyze == bin average of the squared modulus", got, want)
        # the property's clause: |f|^2 is a distributed spectrum  ==>  analysis returns exactly that spectrum
        if mode != "phase":
            pdom = list(dom)
            pdom[space] = ps
            pdom = ift.DomainTuple.make(pdom)
            P = B.reals("P", pdom.shape)
            Pm = np.moveaxis(P, ax, 0)
            for i, b in enumerate(pindex):
                lhs, rhs = sq(fm[i]), Pm[b]
                for a_, b_ in zip(np.asarray(lhs, dtype=object).reshape(-1), np.asarray(rhs, dtype=object).reshape(-1)):
                    B.assume(a_ == b_)
            B.close_under("|f|^2 == distributed spectrum  =>  power_analyze(f) == spectrum", got, P)


def h_analyze2(B, mode):
    """analysis over two harmonic sub-spaces at once"""
    cplx = mode != "real"
    with shims_cl.complex_mode(cplx):
        h1 = ift.RGSpace(3, distances=0.5, harmonic=True)
        h2 = ift.RGSpace(4, distances=0.25, harmonic=True)
        dom = ift.DomainTuple.make((h1, h2))
        p1, p2 = ift.PowerSpace(h1), ift.PowerSpace(h2)
        i1, i2 = np.asarray(p1.pindex).reshape(-1), np.asarray(p2.pindex).reshape(-1)
        f = B.values("f", dom.shape, cplx)
        res = ift.power_analyze(field_of(dom, f))
        got = np.asarray(res.val.val)
        want = np.zeros((p1.shape[0], p2.shape[0]), dtype=object if B.mode == "sym" else got.dtype)
        r1, r2 = np.bincount(i1), np.bincount(i2)
        for a in range(3):
            for b in range(4):
                z = f[a, b]
                s = z * z if mode == "real" else z.real * z.real + z.imag * z.imag
                want[i1[a], i2[b]] = want[i1[a], i2[b]] + s / float(r1[i1[a]] * r2[i2[b]])
        B.close("power_analyze over two sub-spaces == bin average over both", got, want)


def h_powerop(B, partner, binning, layout, cplx, callable_spec=False):
    with shims_cl.complex_mode(cplx):
        with B.setup():
            dom, space, hp = make_domain(partner, layout)
            ps = ift.PowerSpace(hp, binbounds_of(hp, binning))
            pindex = np.asarray(ps.pindex).reshape(-1)
        x = B.values("x", dom.shape, cplx)
        if callable_spec:
            spec = lambda k: 1. / (1. + k) ** 2
            op = ift.create_power_operator(dom, spec, space)
            psn = ift.PowerSpace(hp)
            pindex = np.asarray(psn.pindex).reshape(-1)
            P = np.array([spec(float(k)) for k in psn.k_lengths])
        else:
            P = B.reals("P", ps.shape)
            op = ift.create_power_operator(dom, field_of(ift.DomainTuple.make(ps), P), space)
        B.is_true("power operator is a DiagonalOperator on the full domain", isinstance(op, ift.DiagonalOperator) and op.domain is dom)
        got = np.asarray(op(field_of(dom, x)).val.val)
        x2, ax = _move(x, dom.axes[space])
        xm = np.moveaxis(x2, ax, 0)
        want = np.empty(x2.shape, dtype=object if B.mode == "sym" else got.dtype)
        wm = np.moveaxis(want, ax, 0)
        for i, b in enumerate(pindex):
            wm[i] = xm[i] * P[b]
        B.eq("power operator == diagonal of the distributed spectrum", got.reshape(want.shape), want)


def scenarios(tier, seed):
    out = []
    partners = ["rg4", "rg5", "rg3x2", "rg2x2"] + (["rg6", "rg4x3"] if tier == "thorough" else [])
    for p in partners:
        for b in ("natural", "coarse", "three", "lin", "upper"):
            if not binning_ok(p, b):
                continue
            for lay in ("single", "first", "mid", "last"):
                if tier == "quick" and lay in ("first",) and b != "natural":
                    continue
                for cplx in (False, True):
                    if lay == "single" or not cplx or b == "natural":
                        out.append(("distribute", {"partner": p, "binning": b, "layout": lay, "cplx": cplx}))
                modes = ("real", "cplx", "phase") if (lay in ("single", "mid") or tier == "thorough") else ("cplx",)
                for m in modes:
                    out.append(("analyze", {"partner": p, "binning": b, "layout": lay, "mode": m}))
                out.append(("powerop", {"partner": p, "binning": b, "layout": lay, "cplx": lay == "mid"}))
        out.append(("powerop", {"partner": p, "binning": "natural", "layout": "single", "cplx": False, "callable_spec": True}))
        out.append(("powerop", {"partner": p, "binning": "natural", "layout": "mid", "cplx": True, "callable_spec": True}))
    for m in ("real", "cplx"):
        out.append(("analyze2", {"mode": m}))
    return out


HARNESSES = {"distribute": h_distribute, "analyze": h_analyze, "analyze2": h_analyze2, "powerop": h_powerop}
OPTS = {"quick": {"max_paths": 16}, "thorough": {"max_paths": 16, "budget_s": 1200}}

META = {
    "level": "other",
    "explanation": "PowerDistributor (DOFDistributor._times/_adjoint_times incl. the real _special_add_at loop), power_analyze / "
                   "_single_power_analyze and create_power_operator run on symbolic spectra and fields over concrete harmonic "
                   "RG partners (1-D and 2-D) with natural, linear and custom binnings, as single space and as first/middle/last "
                   "sub-space of a product domain; z3 refutes for ALL spectra/fields: distributed value != value of the mode's "
                   "bin, adjoint != sum over bin members, power_analyze != bin average of |f|^2 (with and without phase "
                   "information), and -- assuming |f|^2 equals a distributed spectrum -- power_analyze(f) != that spectrum; "
                   "create_power_operator != diagonal of the distributed spectrum.  Bin membership is taken from the real "
                   "PowerSpace.pindex (its geometry is the subject of C08).",
    "functions_encoded": ["nifty.cl.operators.distributors.{DOFDistributor.__init__,_init2,_times,_adjoint_times,PowerDistributor.__init__}",
                          "nifty.cl.utilities._special_add_at", "nifty.cl.sugar.{power_analyze,_single_power_analyze,create_power_operator,_create_power_field,PS_field}",
                          "nifty.cl.field.Field.weight", "nifty.cl.domains.power_space.PowerSpace (concrete)"],
    "bounds": {"harmonic partners": "RG 4, 5, (3,2), (2,2) [+ 6, (4,3) thorough]", "binnings": "natural, 3 custom (bounds between unique k lengths), linear_binbounds",
               "layouts": "single space; first / middle / last sub-space of a product domain; two harmonic sub-spaces at once"},
    "stubs": shims_cl.STUBS[:5] + ["utilities.special_add_at in complex mode: the real function is run on real and imaginary part separately "
                                   "(the real code reinterprets complex memory as float pairs with .view, impossible for object arrays)"],
    "outside": ["LMSpace/GLSpace/HPSpace partners (ducc geometry)", "logarithmic binnings", "symbolic grid distances (C08)"],
    "assumptions": [],
}
