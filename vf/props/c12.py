"""C12 -- JAX likelihoods factor their metric and equal the Fisher information (front end B: jaxpr IR).

Every likelihood is *constructed inside the traced function* from symbolic data
and hyper-parameters, so no rounded constant derived from them is baked into the
IR.  The jaxprs of metric / left_sqrt_metric / right_sqrt_metric / transformation
/ energy (with JAX's own AD applied where the library uses jax.vjp /
linear_transpose) are interpreted over symbolic reals."""
import numpy as np

from .. import symcore as sc
from ..jaxpr_interp import jcall, jax, jnp, validate, STATS as JSTATS

N = 2


def setup():
    import sys, os
    repo = os.environ.get("VERIF_REPO", "/repo")
    if repo not in sys.path:
        sys.path.insert(0, repo)
    import logging
    logging.getLogger("nifty.re").setLevel(logging.ERROR)
    logging.getLogger("nifty.re.logger").setLevel(logging.ERROR)
    logging.getLogger("jax").setLevel(logging.ERROR)


def jft():
    import nifty.re as j
    import os
    assert os.path.realpath(j.__file__).startswith(os.path.realpath(os.environ.get("VERIF_REPO", "/repo")))
    return j


def _vd(a, b):
    la, lb = jax.tree_util.tree_leaves(a), jax.tree_util.tree_leaves(b)
    r = 0
    for x, y in zip(la, lb):
        for u, v in zip(np.asarray(x, dtype=object).reshape(-1), np.asarray(y, dtype=object).reshape(-1)):
            r = r + u * v
    return r


def _exp(v):
    return v.exp() if isinstance(v, (sc.SR, sc.SC)) else np.exp(v)


def _log(v):
    return v.log() if isinstance(v, (sc.SR, sc.SC)) else np.log(v)


def _max(lst):
    m = lst[0]
    for v in lst[1:]:
        m = sc._lift(m).maximum(v) if isinstance(m, sc.SR) or isinstance(v, sc.SR) else max(m, v)
    return m


def _softmax_rows(p):
    """numerically stable soft-max (the standard definition: shift by the row maximum)"""
    out = np.empty(p.shape, dtype=object)
    lse = []
    for i in range(p.shape[0]):
        m = _max(list(p[i]))
        e = [_exp(v - m) for v in p[i]]
        tot = 0
        for v in e:
            tot = tot + v
        for j in range(p.shape[1]):
            out[i, j] = e[j] / tot
        lse.append(m + _log(tot))
    return out, lse


def _flat(t):
    out = []
    for l in jax.tree_util.tree_leaves(t):
        out += list(np.asarray(l, dtype=object).reshape(-1))
    return out


# ---------------------------------------------------------------------------
# likelihood factories: hp (dict of symbolic hyper-parameters/data) -> Likelihood, built INSIDE the trace


def mk_gauss_diag(hp):
    J = jft()
    return J.Gaussian(hp["d"], noise_cov_inv=lambda x: hp["n"] * x, noise_std_inv=lambda x: hp["s"] * x)


def mk_gauss_unit(hp):
    return jft().Gaussian(hp["d"])


def mk_gauss_cov_only(hp):
    # noise_std_inv inferred by the library: sqrt(cov_inv(ones))
    return jft().Gaussian(hp["d"], noise_cov_inv=lambda x: hp["n"] * x)


def mk_studentt(hp):
    return jft().StudentT(hp["d"], hp["dof"], noise_cov_inv=lambda x: hp["n"] * x, noise_std_inv=lambda x: hp["s"] * x)


_CACHE = {}


def mk_poisson(hp):
    # no symbolic hyper-parameters: built once OUTSIDE the trace (its constructor inspects the data with Python `if`)
    key = ("poisson", tuple(np.asarray(hp["counts"]).reshape(-1)))
    if key not in _CACHE:
        _CACHE[key] = jft().Poissonian(jnp.array(hp["counts"]))
    return _CACHE[key]


def mk_vcg(hp):
    return jft().VariableCovarianceGaussian(hp["d"])


def mk_vcst(hp):
    return jft().VariableCovarianceStudentT(hp["d"], hp["dof"])


def mk_categorical(hp):
    key = ("cat", tuple(np.asarray(hp["labels"]).reshape(-1)))
    if key not in _CACHE:
        _CACHE[key] = jft().Categorical(jnp.array(hp["labels"]), axis=-1)
    return _CACHE[key]


KINDS = {
    "gauss_diag": dict(mk=mk_gauss_diag, hp=("d", "n", "s"), tuple2=False),
    "gauss_unit": dict(mk=mk_gauss_unit, hp=("d",), tuple2=False),
    "gauss_cov_only": dict(mk=mk_gauss_cov_only, hp=("d", "n"), tuple2=False),
    "studentt": dict(mk=mk_studentt, hp=("d", "n", "s", "dof"), tuple2=False),
    "poisson": dict(mk=mk_poisson, hp=(), tuple2=False, counts=[0, 3]),
    "vcg": dict(mk=mk_vcg, hp=("d",), tuple2=True),
    "vcst": dict(mk=mk_vcst, hp=("d", "dof"), tuple2=True),
    "categorical": dict(mk=mk_categorical, hp=(), tuple2=False, labels=[[1], [0]]),
}


def sym_hp(B, kind, shape):
    spec = KINDS[kind]
    hp = {}
    for k in spec["hp"]:
        if k == "dof":
            hp[k] = B.reals("dof")
            B.assume(hp[k] > 0)
        else:
            hp[k] = B.reals(k, shape)
    if "n" in hp and "s" in hp:
        # noise_std_inv is the square root of noise_cov_inv (documented contract of the two callables)
        B.assume_all([t > 0 for t in hp["s"].reshape(-1)])
        hp["n"] = hp["s"] * hp["s"]
    elif "n" in hp:
        B.assume_all([t > 0 for t in hp["n"].reshape(-1)])
    if "counts" in spec:
        hp["counts"] = np.array(spec["counts"])
    if "labels" in spec:
        hp["labels"] = np.array(spec["labels"])
    return hp


def primal_like(B, kind, shape, name):
    if kind == "categorical":
        return B.reals(name, (2, 3))
    if KINDS[kind]["tuple2"]:
        return (B.reals(name + "0", shape), B.reals(name + "1", shape))
    return B.reals(name, shape)


def assume_support(B, kind, p):
    if kind == "poisson":
        B.assume_all([t > 0 for t in p.reshape(-1)])
    if kind in ("vcg", "vcst"):
        B.assume_all([t > 0 for t in p[1].reshape(-1)])


def fisher_ref(B, kind, hp, p, t):
    """closed-form Fisher information applied to t (documented parameter space)"""
    if kind in ("gauss_diag", "gauss_cov_only"):
        return hp["n"] * t
    if kind == "gauss_unit":
        return t
    if kind == "studentt":
        return hp["n"] * t * ((hp["dof"] + 1) / (hp["dof"] + 3))
    if kind == "poisson":
        return t / p
    if kind == "vcg":
        return (p[1] * p[1] * t[0], 2 * t[1] / (p[1] * p[1]))
    if kind == "vcst":
        nu = hp["dof"]
        return (t[0] * (nu + 1) / (nu + 3) / (p[1] * p[1]), t[1] * 2 * nu / (nu + 3) / (p[1] * p[1]))
    if kind == "categorical":
        sm, _ = _softmax_rows(p)
        return sm * t - sm * (sm * t).sum(axis=-1, keepdims=True)
    raise ValueError(kind)


def energy_ref(B, kind, hp, p):
    lg = np.frompyfunc(_log, 1, 1)
    l1p = np.frompyfunc(lambda v: _log(1 + v), 1, 1)
    if kind in ("gauss_diag", "gauss_cov_only", "gauss_unit"):
        r = hp["d"] - p
        n = hp.get("n", 1)
        return 0.5 * (r * n * r).sum()
    if kind == "studentt":
        r = hp["s"] * (hp["d"] - p)
        return ((l1p(r * r / hp["dof"])) * (hp["dof"] + 1)).sum() / 2
    if kind == "poisson":
        return p.sum() - (lg(p) * hp["counts"]).sum()
    if kind == "vcg":
        r = (hp["d"] - p[0]) * p[1]
        return 0.5 * (r * r).sum() - lg(p[1]).sum()
    if kind == "vcst":
        r = (hp["d"] - p[0]) / p[1]
        return (l1p(r * r / hp["dof"]) * (hp["dof"] + 1)).sum() / 2 + lg(p[1]).sum()
    if kind == "categorical":
        _, lse = _softmax_rows(p)
        tot = 0
        for i in range(p.shape[0]):
            tot = tot - (p[i, hp["labels"][i, 0]] - lse[i])
        return tot
    raise ValueError(kind)


EXACT_VJP = ("gauss_diag", "gauss_unit", "gauss_cov_only", "studentt", "poisson")


def h_lik(B, kind, shape, model="none"):
    shape = tuple(shape)
    spec = KINDS[kind]
    hp = sym_hp(B, kind, shape)
    mk = spec["mk"]
    p = primal_like(B, kind, shape, "p")
    t = primal_like(B, kind, shape, "t")
    c = primal_like(B, kind, shape, "c")
    assume_support(B, kind, p)
    shp = {k: v for k, v in hp.items() if k not in ("counts", "labels")}
    static = {k: v for k, v in hp.items() if k in ("counts", "labels")}
    if static:
        mk(static)          # warm the cache outside any trace

    def with_lh(f):
        def g(sh, *a):
            return f(mk({**sh, **static}), *a)
        return g
    met = jcall(B, with_lh(lambda lh, p, t: lh.metric(p, t)), shp, p, t)
    lsm = jcall(B, with_lh(lambda lh, p, c: lh.left_sqrt_metric(p, c)), shp, p, c)
    rsm = jcall(B, with_lh(lambda lh, p, t: lh.right_sqrt_metric(p, t)), shp, p, t)
    lr = jcall(B, with_lh(lambda lh, p, t: lh.left_sqrt_metric(p, lh.right_sqrt_metric(p, t))), shp, p, t)
    tol = kind == "vcg"      # jnp.sqrt(2) ** (1 + iscomplex) is a rounded constant baked into the IR
    eq = (lambda lab, a, b: B.close_under(lab, _flat(a), _flat(b))) if tol else (lambda lab, a, b: B.eq(lab, _flat(a), _flat(b)))
    eq("metric(p,t) == left_sqrt_metric(p, right_sqrt_metric(p,t))", met, lr)
    B.eq("<right_sqrt_metric(p,t), c> == <t, left_sqrt_metric(p,c)>", [_vd(rsm, c)], [_vd(t, lsm)])
    B.eq("metric(p,t) == closed-form Fisher information applied to t", _flat(met), _flat(fisher_ref(B, kind, hp, p, t)))
    en = jcall(B, with_lh(lambda lh, p: lh.energy(p)), shp, p)
    B.eq("energy == documented negative log-probability (up to parameter-independent terms)", _flat(en), [energy_ref(B, kind, hp, p)])
    if kind in EXACT_VJP:
        vj = jcall(B, with_lh(lambda lh, p, c: jax.vjp(lh.transformation, p)[1](c)[0]), shp, p, c)
        B.eq("left_sqrt_metric(p,c) == vjp(transformation)(p)(c)", _flat(lsm), _flat(vj))
    if kind not in ("vcst", "categorical"):
        # pull-back of the Euclidean metric through the transformation: J^T J t == metric t
        def jtj(lh, p, t):
            y, jv = jax.jvp(lh.transformation, (p,), (t,))
            return jax.vjp(lh.transformation, p)[1](jv)[0]
        if kind != "vcg":
            B.eq("J_T^T J_T t == metric(p,t) for the coordinate transformation", _flat(jcall(B, with_lh(jtj), shp, p, t)), _flat(met))
    if kind == "categorical":
        # the square-root factor itself is right when applied at the logits' shape: L L^T == metric
        def llt(lh, p, t):
            L = lambda c: lh.left_sqrt_metric(p, c)
            return L(jax.linear_transpose(L, t)(t)[0])
        B.eq("categorical: L(p, L(p,.)^T t) == metric(p,t) with L transposed at the logits' shape", _flat(jcall(B, with_lh(llt), shp, p, t)), _flat(met))
        return
    nres = jcall(B, with_lh(lambda lh, p: lh.normalized_residual(p)), shp, p)
    if kind in ("gauss_diag", "gauss_unit"):
        B.eq("normalized_residual == std_inv (d - p)", _flat(nres), _flat(hp.get("s", 1) * (hp["d"] - p)))


def h_vcg_complex(B, n):
    """VariableCovarianceGaussian with COMPLEX data: metric == L R (up to the rounded sqrt(2) constants), L and R adjoint,
    metric == documented Fisher information (mean block std_inv^2, std_inv block 4 / std_inv^2)"""
    d = B.complexes("d", (n,))
    p0, p1 = B.complexes("p0", (n,)), B.reals("p1", (n,))
    t0, t1 = B.complexes("t0", (n,)), B.reals("t1", (n,))
    c0, c1 = B.complexes("c0", (n,)), B.reals("c1", (n,))
    B.assume_all([v > 0 for v in p1])

    def with_lh(f):
        def g(d, *a):
            return f(jft().VariableCovarianceGaussian(d), *a)
        return g
    met = jcall(B, with_lh(lambda lh, p, t: lh.metric(p, t)), d, (p0, p1), (t0, t1))
    lr = jcall(B, with_lh(lambda lh, p, t: lh.left_sqrt_metric(p, lh.right_sqrt_metric(p, t))), d, (p0, p1), (t0, t1))
    B.close_under("complex data: metric(p,t) == left_sqrt_metric(p, right_sqrt_metric(p,t))", _flat(lr), _flat(met))
    B.eq("complex data: metric == Fisher information (std_inv^2 t_mean, 4 t_std / std_inv^2)", _flat(met),
         list(p1 * p1 * t0) + list(4 * t1 / (p1 * p1)))


def h_amend(B, kind, fwd):
    """likelihood.amend(forward model): chain rule for energy / metric / sqrt-metric"""
    shape = (N,)
    hp = sym_hp(B, kind, shape)
    mk = KINDS[kind]["mk"]
    A = B.reals("A", (N, N))
    b = B.reals("b", (N,))
    x = B.reals("x", (N,))
    t = B.reals("t", (N,))
    c = B.reals("c", (N,))
    shp = {k: v for k, v in hp.items() if k not in ("counts", "labels")}
    static = {k: v for k, v in hp.items() if k in ("counts", "labels")}
    if static:
        mk(static)

    def f(A, b):
        if fwd == "affine":
            return lambda x: A @ x + b
        return lambda x: jnp.exp(A @ x + b)

    def with_lh(fun):
        def g(sh, A, b, *a):
            lh = mk({**sh, **static}).amend(f(A, b))
            return fun(lh, *a)
        return g
    # reference: pull-back with the Jacobian written out
    z = A @ x + b
    if fwd == "affine":
        y, Jm = z, A
    else:
        e = np.frompyfunc(_exp, 1, 1)(z)
        y, Jm = e, e[:, None] * A
    if kind == "poisson":
        B.assume_all([v > 0 for v in y])
    Jt = Jm @ t
    want_met = Jm.T @ np.asarray(_flat(fisher_ref(B, kind, hp, y, Jt)), dtype=object)
    met = jcall(B, with_lh(lambda lh, x, t: lh.metric(x, t)), shp, A, b, x, t)
    B.eq("amended metric == J^T M(f(x)) J t", _flat(met), list(want_met))
    en = jcall(B, with_lh(lambda lh, x: lh.energy(x)), shp, A, b, x)
    B.eq("amended energy == energy(f(x))", _flat(en), [energy_ref(B, kind, hp, y)])
    lsm = jcall(B, with_lh(lambda lh, x, c: lh.left_sqrt_metric(x, c)), shp, A, b, x, c)
    rsm = jcall(B, with_lh(lambda lh, x, t: lh.right_sqrt_metric(x, t)), shp, A, b, x, t)
    B.eq("amended: <R t, c> == <t, L c>", [_vd(rsm, c)], [_vd(t, lsm)])
    lr = jcall(B, with_lh(lambda lh, x, t: lh.left_sqrt_metric(x, lh.right_sqrt_metric(x, t))), shp, A, b, x, t)
    B.eq("amended: metric == L R", _flat(met), _flat(lr))


def h_amend_complex(B, n):
    """complex data behind a forward model from REAL parameters to complex values with a complex Jacobian (x -> R exp(x), R
    complex): the chain rule has to use J^H (conjugate transpose), metric == Re(J^H s^2 J), L R == metric, R adjoint to L"""
    d = B.complexes("d", (n,))
    s = B.reals("s")
    B.assume(s > 0)
    R = B.complexes("R", (n, n))
    x, t = B.reals("x", (n,)), B.reals("t", (n,))
    c = B.complexes("c", (n,))

    def with_lh(fun):
        def g(d, s, R, *a):
            lh = jft().Gaussian(d, noise_cov_inv=lambda v: s * s * v, noise_std_inv=lambda v: s * v).amend(lambda x: R @ jnp.exp(x))
            return fun(lh, *a)
        return g
    met = jcall(B, with_lh(lambda lh, x, t: lh.metric(x, t)), d, s, R, x, t)
    lr = jcall(B, with_lh(lambda lh, x, t: lh.left_sqrt_metric(x, lh.right_sqrt_metric(x, t))), d, s, R, x, t)
    lsm = jcall(B, with_lh(lambda lh, x, c: lh.left_sqrt_metric(x, c)), d, s, R, x, c)
    rsm = jcall(B, with_lh(lambda lh, x, t: lh.right_sqrt_metric(x, t)), d, s, R, x, t)
    B.eq("complex model: metric == L R", _flat(met), _flat(lr))
    e = np.frompyfunc(_exp, 1, 1)(np.asarray(x, dtype=object))
    Ro = np.asarray(R, dtype=object)
    Jt = [sum((Ro[i, j] * e[j] * t[j] for j in range(n)), 0) for i in range(n)]                    # J t (complex)
    want = [s * s * e[j] * sum((_re(_conj(Ro[i, j]) * Jt[i]) for i in range(n)), 0) for j in range(n)]      # Re(J^H s^2 J t)
    B.eq("complex model: metric == Re(J^H N^-1 J) t", _flat(met), want)
    lhs = sum((_re(_conj(u) * v) for u, v in zip(_flat(rsm), list(np.asarray(c, dtype=object).reshape(-1)))), 0)
    rhs = sum((u * v for u, v in zip(list(t), _flat(lsm))), 0)
    B.eq("complex model: Re<R t, c> == <t, L c>", [lhs], [rhs])


def _conj(v):
    return v.conjugate() if hasattr(v, "conjugate") else np.conj(v)


def _re(v):
    if isinstance(v, sc.SC):
        return v.r
    return v.real if hasattr(v, "real") and not isinstance(v, sc.SR) else v


def h_sum(B):
    """LikelihoodSum of a Gaussian and a Poissonian on different keys of a dict model"""
    d = B.reals("d", (N,))
    s = B.reals("s", (N,))
    B.assume_all([v > 0 for v in s])
    xa, xb = B.reals("xa", (N,)), B.reals("xb", (N,))
    ta, tb = B.reals("ta", (N,)), B.reals("tb", (N,))
    counts = np.array([1, 2])

    pois = mk_poisson({"counts": counts})

    def mk(d, s):
        J = jft()
        g = J.Gaussian(d, noise_cov_inv=lambda x: s * s * x, noise_std_inv=lambda x: s * x).amend(lambda x: x["a"])
        p = pois.amend(lambda x: jnp.exp(x["b"]))
        return g + p
    V = jft().Vector
    met = jcall(B, lambda d, s, x, t: mk(d, s).metric(V(x), V(t)).tree, d, s, {"a": xa, "b": xb}, {"a": ta, "b": tb})
    eb = np.frompyfunc(_exp, 1, 1)(xb)
    B.eq("sum: metric is block diagonal Fisher", _flat(met), _flat({"a": s * s * ta, "b": eb * tb}))
    en = jcall(B, lambda d, s, x: mk(d, s).energy(V(x)), d, s, {"a": xa, "b": xb})
    want = 0.5 * ((d - xa) * s * s * (d - xa)).sum() + eb.sum() - (xb * counts).sum()
    B.eq("sum: energy is the sum of the energies", _flat(en), [want])
    lr = jcall(B, lambda d, s, x, t: mk(d, s).left_sqrt_metric(V(x), mk(d, s).right_sqrt_metric(V(x), V(t))).tree, d, s, {"a": xa, "b": xb}, {"a": ta, "b": tb})
    B.eq("sum: metric == L R", _flat(met), _flat(lr))


def h_freeze(B):
    """Likelihood.freeze(point_estimates): metric/energy on the remaining keys with the frozen values inserted"""
    d = B.reals("d", (N,))
    xa, xb = B.reals("xa", (N,)), B.reals("xb", (N,))
    ta = B.reals("ta", (N,))

    def mk(d, xb):
        J = jft()
        lh = J.Gaussian(d).amend(lambda x: x["a"] * x["b"])
        return lh.freeze(primals={"a": jnp.zeros(N), "b": xb}, point_estimates=("b",))[0]
    met = jcall(B, lambda d, xb, x, t: mk(d, xb).metric(x, t), d, xb, {"a": xa}, {"a": ta})
    B.eq("freeze: metric on the free key with the frozen value inserted", _flat(met), _flat({"a": xb * xb * ta}))
    en = jcall(B, lambda d, xb, x: mk(d, xb).energy(x), d, xb, {"a": xa})
    B.eq("freeze: energy with the frozen value inserted", _flat(en), [0.5 * ((d - xa * xb) * (d - xa * xb)).sum()])


def h_validate(B, kind):
    """translator validation: the interpreter (float objects through the symbolic implementations) vs the real function"""
    rng = np.random.default_rng(3)
    shape = (N,)
    hp = {}
    for k in KINDS[kind]["hp"]:
        hp[k] = np.float64(2.5) if k == "dof" else rng.uniform(0.5, 1.5, shape)
    static = {}
    if "counts" in KINDS[kind]:
        static["counts"] = np.array(KINDS[kind]["counts"])
    if "labels" in KINDS[kind]:
        static["labels"] = np.array(KINDS[kind]["labels"])
    mk = KINDS[kind]["mk"]
    if static:
        mk(static)
    if kind == "categorical":
        p, t = rng.uniform(0.5, 1.5, (2, 3)), rng.normal(size=(2, 3))
    elif KINDS[kind]["tuple2"]:
        p, t = (rng.normal(size=shape), rng.uniform(0.5, 1.5, shape)), (rng.normal(size=shape), rng.normal(size=shape))
    else:
        p, t = rng.uniform(0.5, 1.5, shape), rng.normal(size=shape)
    n = 0
    n += validate(lambda sh, p, t: mk({**sh, **static}).metric(p, t), hp, p, t)
    n += validate(lambda sh, p, t: mk({**sh, **static}).left_sqrt_metric(p, t), hp, p, t)
    n += validate(lambda sh, p, t: mk({**sh, **static}).right_sqrt_metric(p, t), hp, p, t)
    n += validate(lambda sh, p: mk({**sh, **static}).energy(p), hp, p)
    B.is_true(f"jaxpr interpreter reproduces the real function on {n} outputs", n > 0)


def scenarios(tier, seed):
    out = []
    for kind in KINDS:
        out.append(("validate", {"kind": kind}))
        shapes = [[N]] if kind in ("categorical", "poisson") else [[N], [1]] + ([[2, 2]] if tier == "thorough" else [])
        for shp in shapes:
            out.append(("lik", {"kind": kind, "shape": shp}))
    for kind in ("gauss_diag", "poisson", "studentt"):
        for fwd in ("affine", "exp"):
            if kind == "poisson" and fwd == "affine":
                pass
            if kind == "studentt" and fwd == "exp" and tier == "quick":
                continue
            out.append(("amend", {"kind": kind, "fwd": fwd}))
    out.append(("sum", {}))
    out.append(("freeze", {}))
    out.append(("vcg_complex", {"n": 1}))
    out.append(("amend_complex", {"n": 1}))
    out.append(("amend_complex", {"n": 2}))
    return out


HARNESSES = {"amend_complex": h_amend_complex, "vcg_complex": h_vcg_complex, "lik": h_lik, "amend": h_amend, "sum": h_sum, "freeze": h_freeze, "validate": h_validate}
OPTS = {"quick": {"max_paths": 32, "budget_s": 300}, "thorough": {"max_paths": 32, "budget_s": 1200}}

META = {
    "level": "other",
    "explanation": "jax.make_jaxpr IR of the real metric / left_sqrt_metric / right_sqrt_metric (JAX linear_transpose) / transformation / "
                   "energy / normalized_residual methods of Gaussian, StudentT, Poissonian, VariableCovarianceGaussian, "
                   "VariableCovarianceStudentT and Categorical -- each likelihood constructed inside the trace from symbolic data and "
                   "hyper-parameters -- interpreted over symbolic reals; z3 refutes for ALL primals, tangents, cotangents, data, noise "
                   "levels and degrees of freedom: metric != L(R(.)), <R t,c> != <t,L c>, metric != closed-form Fisher information, "
                   "energy != documented -log pdf, L != vjp(transformation) and J^T J != metric where the transformation is exact; "
                   "the same through amend (affine and exp forward models, and a real-to-complex model x -> R exp(x) behind complex data: chain rule with J^H), LikelihoodSum and freeze.  The translator is "
                   "validated against the real functions on float inputs (traces_validated_against_impl).",
    "functions_encoded": ["nifty.re.likelihood_impl.{Gaussian,StudentT,Poissonian,VariableCovarianceGaussian,VariableCovarianceStudentT,Categorical}."
                          "{energy,metric,left_sqrt_metric,transformation,normalized_residual}", "nifty.re.likelihood_impl._get_cov_inv_and_std_inv",
                          "nifty.re.likelihood.{Likelihood.right_sqrt_metric,LikelihoodWithModel.{energy,metric,left_sqrt_metric,right_sqrt_metric},"
                          "LikelihoodSum.*,LikelihoodPartial.*,Likelihood.{amend,freeze,__add__}}"],
    "bounds": {"shapes": "(1,), (2,), (2,2) thorough; categorical (2,3)", "models": "affine 2x2, exp(affine)"},
    "stubs": ["jaxpr interpreter (vf/jaxpr_interp.py): arithmetic on symbolic scalars, index tracing through JAX for data movement; "
              "exp/log uninterpreted with axioms; sqrt algebraic"],
    "outside": ["NDVariableCovarianceGaussian (matrix sqrt/log/solve: eigh)", "complex data", "jit / device placement / dtype promotion",
                "VariableCovarianceGaussian: L == vjp(transformation) holds only in expectation over data (not claimed)"],
    "assumptions": ["noise_std_inv^2 == noise_cov_inv (both diagonal, positive)", "Poisson rates > 0, inverse standard deviations > 0, dof > 0"],
}
