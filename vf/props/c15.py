"""C15 -- JAX conjugate gradients: accurate, and eager and compiled variants agree.

Compiled variant (_static_cg): jaxpr IR, the while loop unrolled to the iteration
limit with an unwinding obligation (front end B).  Eager variant (_cg): the real
Python loop executed on object arrays of symbolic scalars with the handful of
vector primitives it imports replaced in its module namespace (front end A'').
All paths of the eager loop are explored; on every path the compiled result is
compared with the eager one under the path condition."""
import numpy as np

from .. import shims_cl
from .. import symcore as sc
from ..jaxpr_interp import jcall, jax, jnp
from .c12 import setup as setup12, _flat  # noqa: F401


class _JnpProxy:
    """stand-in for the name `jnp` inside nifty.re.conjugate_gradient while a symbolic path is active"""

    def __getattr__(self, k):
        return getattr(jnp, k)

    @staticmethod
    def real(x):
        return x.real if hasattr(x, "real") and isinstance(x, (sc.SR, sc.SC)) else (x if isinstance(x, (sc.SR, sc.SI)) else jnp.real(x))

    @staticmethod
    def maximum(a, b):
        if shims_cl.is_sym(a) or shims_cl.is_sym(b):
            return sc._lift(a).maximum(b)
        return jnp.maximum(a, b)

    @staticmethod
    def abs(a):
        return abs(a) if shims_cl.is_sym(a) else jnp.abs(a)

    @staticmethod
    def finfo(dt):
        return np.finfo(np.float64)

    inf = float("inf")


def _vdot(a, b):
    a, b = np.asarray(a, dtype=object).reshape(-1), np.asarray(b, dtype=object).reshape(-1)
    r = 0
    for u, v in zip(a, b):
        r = r + (u.conjugate() if hasattr(u, "conjugate") else u) * v
    return r


def _norm(x, ord=2):
    x = np.asarray(x, dtype=object).reshape(-1)
    if ord == 2:
        t = 0
        for u in x:
            t = t + u * u
        return sc._lift(t).sqrt()
    raise sc.HarnessError("norm order")


def setup():
    setup12()
    sc.set_divmode("let")
    import nifty.re.conjugate_gradient as cgm
    if not isinstance(cgm.jnp, _JnpProxy):
        cgm._orig = dict(jnp=cgm.jnp, vdot=cgm.vdot, jft_norm=cgm.jft_norm, zeros_like=cgm.zeros_like, size=cgm.size,
                         result_type=cgm.result_type)


class eager_shims:
    """install / remove the eager shims around a call of _cg (the compiled variant must see the real names)"""

    def __enter__(self):
        import nifty.re.conjugate_gradient as cgm
        self.m = cgm
        cgm.jnp = _JnpProxy()
        cgm.vdot = _vdot
        cgm.jft_norm = _norm
        cgm.zeros_like = lambda x: np.zeros(np.shape(x), dtype=object) * 0
        cgm.size = lambda x: int(np.size(x))
        cgm.result_type = lambda *a: np.float64
        cgm.float = shims_cl.sym_float
        return self

    def __exit__(self, *a):
        for k, v in self.m._orig.items():
            setattr(self.m, k, v)
        if "float" in self.m.__dict__:
            del self.m.__dict__["float"]
        return False


def make_system(B, n, kind):
    """-> (M as object matrix, list of assumptions applied)"""
    if kind == "diag_pd":
        a = B.reals("a", (n,))
        B.assume_all([t > 0 for t in a])
        return np.diag(a)
    if kind == "diag_fixed":              # concrete positive diagonal: cheap terms when start vector and rhs are symbolic
        v = np.array([1.0, 9.0, 4.0][:n])
        return np.diag(v.astype(object) if B.mode == "sym" else v)
    if kind == "sym_pd":
        a, b, d = B.reals("ma"), B.reals("mb"), B.reals("md")
        B.assume(a > 0)
        B.assume(a * d - b * b > 0)
        return np.array([[a, b], [b, d]], dtype=object)
    if kind == "diag_any":
        a = B.reals("a", (n,))
        return np.diag(a)
    if kind == "diag_neg_first":          # negative curvature along the first search direction is possible
        a = B.reals("a", (n,))
        return np.diag(a)
    raise ValueError(kind)


def quad_energy(M, j, x):
    x = np.asarray(x, dtype=object).reshape(-1)
    Mx = M @ x
    return 0.5 * _vdot(x, Mx) - _vdot(j, x)


def run_static(B, M, j, x0, kw, fork=False):
    cgm = __import__("nifty.re.conjugate_gradient", fromlist=["x"])
    mk = {k: v for k, v in kw.items() if shims_cl.is_sym(v)}
    ck = {k: v for k, v in kw.items() if not shims_cl.is_sym(v)}

    def f(M, j, x0, mk):
        res = cgm._static_cg(lambda v: M @ v, j, x0, **ck, **mk)
        return res.x, res.info, res.nit
    if x0 is None:
        def f0(M, j, mk):
            res = cgm._static_cg(lambda v: M @ v, j, None, **ck, **mk)
            return res.x, res.info, res.nit
        return jcall(B, f0, M, j, mk, while_bound=int(kw.get("maxiter", 3)) + 1, fork=fork)
    return jcall(B, f, M, j, x0, mk, while_bound=int(kw.get("maxiter", 3)) + 1, fork=fork)


def run_eager(B, M, j, x0, kw):
    cgm = __import__("nifty.re.conjugate_gradient", fromlist=["x"])
    if B.mode != "sym":
        res = cgm._cg(lambda v: jnp.asarray(np.asarray(M, dtype=np.float64)) @ v, jnp.asarray(np.asarray(j, dtype=np.float64)),
                      None if x0 is None else jnp.asarray(np.asarray(x0, dtype=np.float64)),
                      **{k: (float(v) if not isinstance(v, (bool, int, type(None))) else v) for k, v in kw.items()})
        return np.asarray(res.x), int(res.info), int(res.nit)
    with eager_shims():
        res = cgm._cg(lambda v: M @ np.asarray(v, dtype=object), np.asarray(j, dtype=object), None if x0 is None else np.asarray(x0, dtype=object), **kw)
    return res.x, res.info, res.nit


def h_pd(B, n, kind, crit, miniter, maxiter, with_x0, fork=False):
    """positive definite systems: convergence verdicts are honest, eager == compiled"""
    M = make_system(B, n, kind)
    j = B.reals("j", (n,))
    x0 = B.reals("x0", (n,)) if with_x0 else None
    kw = dict(miniter=miniter, maxiter=maxiter, _raise_nonposdef=False)
    thr = None
    if crit == "absdelta":
        thr = B.reals("absdelta")
        B.assume(thr > 0)
        kw["absdelta"] = thr
    elif crit == "resnorm":
        thr = B.reals("resnorm")
        B.assume(thr > 0)
        kw["resnorm"] = thr
    elif crit == "tol":
        kw["tol"], kw["atol"] = 0.0, B.reals("atol")
        B.assume(kw["atol"] > 0)
        thr = kw["atol"]
    xe, ie, ne = run_eager(B, M, j, x0, kw)
    B.note(f"eager info={ie} nit={ne}")
    xs, is_, ns = run_static(B, M, j, x0, kw, fork=fork)
    B.eq("compiled solution == eager solution (on this eager path)", _flat(xs), _flat(xe))
    B.eq("compiled info == eager info", _flat(is_), [ie])
    B.eq("compiled nit == eager nit", _flat(ns), [ne])
    # honesty of the verdict: info == 0 means the requested criterion holds for the RECOMPUTED residual / energy
    x = np.asarray(xe, dtype=object).reshape(-1)
    res = M @ x - j
    g2 = _vdot(res, res)
    tiny = 6.0 * float(np.finfo(np.float64).tiny)
    if ie == 0 and ne > 0:
        if crit in ("resnorm", "tol"):
            B.holds("info == 0  =>  |M x - j| < resnorm for the recomputed residual (or gamma <= tiny)", (g2 < thr * thr) | (g2 <= tiny))
        elif crit == "absdelta":
            # the last step decreased the energy by less than absdelta (or gamma <= tiny): E(x_prev) - E(x) < absdelta
            B.note("absdelta criterion checked through eager/compiled agreement and monotonicity")
    if ie != 0:
        B.is_true("info != 0 only at the iteration limit (the energy-increase exit is unreachable for a positive definite matrix)", ie == maxiter and ne == maxiter)
    start = np.zeros(n, dtype=object) * 0 if x0 is None else x0
    B.holds("E(x_returned) <= E(x_start)", quad_energy(M, j, x) <= quad_energy(M, j, start))


def h_nonpd(B, n, maxiter, with_x0, variant):
    """indefinite / negative definite matrices with _raise_nonposdef=False: never uphill; a first direction of negative
    curvature yields a non-zero step along the steepest-descent direction"""
    a = B.reals("a", (n,))
    M = np.diag(a)
    j = B.reals("j", (n,))
    x0 = B.reals("x0", (n,)) if with_x0 else None
    kw = dict(miniter=0, maxiter=maxiter, _raise_nonposdef=False, resnorm=B.reals("resnorm"))
    B.assume(kw["resnorm"] > 0)
    start = np.zeros(n, dtype=object) * 0 if x0 is None else x0
    r0 = M @ np.asarray(start, dtype=object) - j
    curv0 = _vdot(r0, M @ r0)
    B.assume(curv0 < 0)                    # the first search direction d = r0 has negative curvature
    B.assume(_vdot(r0, r0) > 0)
    if variant == "eager":
        x, info, nit = run_eager(B, M, j, x0, kw)
        x = np.asarray(x, dtype=object).reshape(-1)
    else:
        x, info, nit = run_static(B, M, j, x0, kw)
        x = np.asarray(x, dtype=object).reshape(-1)
    E0, E1 = quad_energy(M, j, start), quad_energy(M, j, x)
    B.holds(f"{variant}: negative curvature along the first direction: E(x_returned) <= E(x_start)", E1 <= E0)
    B.holds(f"{variant}: negative curvature along the first direction: the step makes progress, E(x_returned) < E(x_start)", E1 < E0)
    # the step is along the steepest-descent direction -r0 (positive multiple)
    step = x - np.asarray(start, dtype=object)
    dotp = _vdot(step, -r0)
    B.holds(f"{variant}: the step has a positive component along the steepest-descent direction", dotp > 0)


def h_raise(B, n):
    """_raise_nonposdef=True: the eager solver raises, the compiled one reports info == -1"""
    a = B.reals("a", (n,))
    M = np.diag(a)
    j = B.reals("j", (n,))
    r0 = -j
    B.assume(_vdot(r0, M @ r0) < 0)
    kw = dict(miniter=0, maxiter=2, _raise_nonposdef=True, resnorm=1e-3)
    raised = False
    try:
        run_eager(B, M, j, None, kw)
    except ValueError:
        raised = True
    B.is_true("eager solver raises on negative curvature when asked to", raised)
    xs, is_, ns = run_static(B, M, j, None, kw)
    B.eq("compiled solver reports info == -1 on negative curvature", _flat(is_), [-1])


def scenarios(tier, seed):
    quick, thorough = [], []
    for crit in ("resnorm", "absdelta", "tol"):
        for miniter in (0, 1):
            (quick if crit == "absdelta" else thorough).append(("pd", {"n": 2, "kind": "diag_pd", "crit": crit, "miniter": miniter, "maxiter": 1, "with_x0": False}))
            quick.append(("pd", {"n": 1, "kind": "diag_pd", "crit": crit, "miniter": miniter, "maxiter": 2, "with_x0": False}))
            thorough.append(("pd", {"n": 2, "kind": "diag_pd", "crit": crit, "miniter": miniter, "maxiter": 2, "with_x0": False}))
        quick.append(("pd", {"n": 1, "kind": "diag_pd", "crit": crit, "miniter": 0, "maxiter": 2, "with_x0": True}))
        if crit == "resnorm":     # a start vector in dimension 2 (the energy bookkeeping of the start point matters)
            thorough.append(("pd", {"n": 2, "kind": "diag_fixed", "crit": crit, "miniter": 0, "maxiter": 1, "with_x0": True}))
            thorough.append(("pd", {"n": 2, "kind": "diag_fixed", "crit": crit, "miniter": 0, "maxiter": 2, "with_x0": True, "fork": True}))
        thorough.append(("pd", {"n": 2, "kind": "diag_pd", "crit": crit, "miniter": 0, "maxiter": 3, "with_x0": False}))
        if crit != "tol":       # the tol / atol criterion in dimension 2 with two iterations does not finish within 40 minutes: not claimed
            thorough.append(("pd", {"n": 2, "kind": "diag_pd", "crit": crit, "miniter": 2, "maxiter": 2, "with_x0": False}))
            thorough.append(("pd", {"n": 2, "kind": "diag_pd", "crit": crit, "miniter": 0, "maxiter": 2, "with_x0": True}))
            # the symmetric (non-diagonal) 2x2 matrix with two iterations does not finish within 40 minutes: one iteration
            thorough.append(("pd", {"n": 2, "kind": "sym_pd", "crit": crit, "miniter": 0, "maxiter": 1, "with_x0": False}))
    for variant in ("eager", "static"):
        quick.append(("nonpd", {"n": 1, "maxiter": 2, "with_x0": False, "variant": variant}))
        if variant == "eager":    # indefinite matrices in dimension 2: the compiled variant and start vectors do not finish within 40 minutes
            quick.append(("nonpd", {"n": 2, "maxiter": 2, "with_x0": False, "variant": variant}))
        quick.append(("nonpd", {"n": 1, "maxiter": 2, "with_x0": True, "variant": variant}))
    quick.append(("raise", {"n": 1}))
    quick.append(("raise", {"n": 2}))
    return quick if tier == "quick" else quick + thorough


HARNESSES = {"pd": h_pd, "nonpd": h_nonpd, "raise": h_raise}
OPTS = {"quick": {"max_paths": 200, "budget_s": 400, "jobs": 10, "branch_timeout_ms": 20000, "obl_timeout_ms": 40000},
        "thorough": {"max_paths": 600, "budget_s": 2400, "jobs": 10, "branch_timeout_ms": 60000, "obl_timeout_ms": 120000}}

META = {
    "level": "other",
    "explanation": "Compiled _static_cg: jaxpr IR with the while loop unrolled to maxiter (unwinding obligation), interpreted over symbolic "
                   "reals.  Eager _cg: the real Python loop on object arrays (module names vdot, jft_norm, zeros_like, size, result_type, "
                   "jnp.{real,maximum,abs,finfo} and float() replaced by object-array versions), all feasible paths explored.  "
                   "Positive definite systems (positive diagonal n<=2, symmetric 2x2 with a>0, ad-b^2>0 and one iteration in thorough): on every eager "
                   "path the compiled variant returns the same x, info and nit; info == 0 implies the requested residual criterion for "
                   "the recomputed residual (or gamma <= tiny); info != 0 only at the iteration limit; the quadratic energy does not "
                   "increase.  Indefinite matrices with _raise_nonposdef=False and negative curvature along the first direction: "
                   "E(x_returned) < E(x_start) with a step along steepest descent, for both variants; with _raise_nonposdef=True the "
                   "eager solver raises and the compiled one reports -1.",
    "functions_encoded": ["nifty.re.conjugate_gradient.{_cg,_static_cg}"],
    "bounds": {"dimension": "1-2 (indefinite matrices: dimension 2 only for the eager solver without start vector; tol / atol criterion: dimension 2 with one iteration)", "maxiter": "1-2 (3 thorough); one thorough scenario interprets the compiled solver in fork mode (n = 2, fixed diagonal, start vector, maxiter 2)", "miniter": "0-2", "criteria": "resnorm, absdelta, tol/atol"},
    "stubs": ["eager: nifty.re.conjugate_gradient.{vdot,jft_norm,zeros_like,size,result_type,jnp,float} replaced in the module namespace by "
              "object-array versions with the obvious contracts (their real implementations are the subject of C33)", "jaxpr interpreter"],
    "outside": ["N_RESET residual recomputation (every 20 iterations)", "time_threshold", "pretty printing", "dimension > 2"],
    "assumptions": ["thresholds > 0"],
}
