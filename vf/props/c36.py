"""C36 -- fit-quality diagnostics (minisanity) report the documented statistics.

classic: the real nifty.cl.extra.minisanity runs on SampleLists of symbolic fields and a Gaussian likelihood with symbolic
data / inverse noise; every `entry == 0` test of the code becomes a path decision, so on each path the set of ignored
entries is known and z3 proves for ALL remaining values: reduced chi^2 = sample average of (sum |r|^2 / #used), mean =
sample average of (sum r / #used), #dof / #ignored as counted.  JAX: reduced_residual_stats is traced and interpreted
over symbolic reals (smap / lmap / vmap).  Both are compared with the same explicit formula, hence with each other."""
import numpy as np

from .. import shims_cl
from .. import symcore as sc
from ..clcommon import ift, setup_cl, field_of
from ..jaxpr_interp import jcall, jax, jnp
from .c12 import jft, _flat


def _count_true(x):
    n = 0
    for b in np.asarray(x, dtype=object).reshape(-1):
        n += 1 if bool(b) else 0        # bool() of a symbolic truth value is a path decision
    return n


def _np_sum(x, *a, **k):
    arr = np.asarray(x)
    if arr.dtype == object and arr.size and any(isinstance(v, sc.SB) for v in arr.reshape(-1)):
        return _count_true(arr)
    return np.sum(x, *a, **k)


def _np_nansum(x, *a, **k):
    arr = np.asarray(x)
    if arr.dtype == object:
        t = 0
        for v in arr.reshape(-1):
            t = t + v
        return t
    return np.nansum(x, *a, **k)


def setup():
    setup_cl()
    from .c19 import setup as setup19
    setup19()
    import nifty.cl.extra as ex
    import nifty.cl.probing as pr
    shims_cl.proxy_np(ex, {"sum": _np_sum, "nansum": _np_nansum})
    shims_cl.proxy_np(pr)
    if not hasattr(ex, "_orig_tableentries"):
        ex._orig_tableentries = ex._tableentries
    import logging
    logging.getLogger("nifty.re").setLevel(logging.ERROR)


def _zero(B, v):
    """is this entry zero on the current path?  (the code under test already decided it: no new fork)"""
    if B.mode == "sym":
        c = (v == 0)
        return bool(c) if isinstance(c, sc.SB) else bool(c)
    return bool(v == 0)


def _ref_stats(B, rows):
    """rows: per sample the list of entries -> (mean of sum r^2/#used, mean of sum r/#used, #used, #ignored) as the code defines them"""
    chis, means = [], []
    used = ign = None
    for r in rows:
        keep = [v for v in r if not _zero(B, v)]
        used, ign = len(keep), len(r) - len(keep)
        s2 = sum((v * v for v in keep), 0)
        s1 = sum(keep, 0)
        chis.append(s2 / used if used else s2)
        means.append(s1 / used if used else s1)
    n = len(rows)
    return sum(chis, 0) / n, sum(means, 0) / n, used, ign


def h_cl(B, dom_kind, nsamples, model, named):
    import nifty.cl.extra as ex
    if B.mode == "sym":
        ex._tableentries = lambda *a, **k: ""      # string formatting of the table is not the subject
    else:
        ex._tableentries = ex._orig_tableentries
    N = 2
    U = ift.UnstructuredDomain
    if dom_kind == "single":
        dom = ift.DomainTuple.make(U(N))
        keys = [None]
    else:
        dom = ift.MultiDomain.make({"a": U(N), "b": ift.DomainTuple.scalar_domain()})
        keys = ["a", "b"]

    def fld(name, d):
        return field_of(d, B.reals(name, d.shape))
    tgt = ift.DomainTuple.make(U(N))
    d = fld("d", tgt)
    icov_vals = B.reals("w", tgt.shape)
    B.assume_all([t > 0 for t in icov_vals.reshape(-1)])
    std_inv = B.reals("sw", tgt.shape)
    B.assume_all([t > 0 for t in std_inv.reshape(-1)])
    B.assume_all([a == b * b for a, b in zip(icov_vals.reshape(-1), std_inv.reshape(-1))])
    icov = ift.makeOp(field_of(tgt, icov_vals), sampling_dtype=(object if B.mode == "sym" else np.float64))
    g = fld("g", tgt)
    if dom_kind == "single":
        op = ift.makeOp(g) if model == "diag" else ift.ScalingOperator(dom, 1.)
    else:
        bc = ift.ContractionOperator(tgt, None).adjoint.ducktape("b")      # the scalar key b is added to every pixel
        op = (ift.makeOp(g) @ ift.FieldAdapter(tgt, "a") if model == "diag" else ift.FieldAdapter(tgt, "a")) + bc
    lh = ift.GaussianEnergy(data=d, inverse_covariance=icov) @ op
    if named:
        lh.name = "lh"
    samples = []
    for i in range(nsamples):
        if dom_kind == "single":
            samples.append(fld(f"s{i}", dom))
        else:
            samples.append(ift.MultiField.from_dict({k: fld(f"s{i}{k}", dom[k]) for k in dom.keys()}))
    # entries of the first sample may or may not vanish (every combination is a path); the other samples' entries and
    # residuals are assumed non-zero to keep the number of paths small
    for s_ in samples[1:]:
        for k in keys:
            B.assume_all([~(v == 0) for v in np.asarray((s_ if k is None else s_[k]).val.val, dtype=object).reshape(-1)])
        B.assume_all([~(v == 0) for v in np.asarray(lh.normalized_residual(s_).val.val, dtype=object).reshape(-1)])
    sl = ift.SampleList(samples)
    _, res = ex.minisanity(lh, sl, terminal_colors=False, return_values=True)
    # the running mean multiplies by the float constants 1./k: exact for k <= 2, rounded for k >= 3 (then compared by the
    # solver under a relative tolerance of 1e-9, with the path condition)
    cmp = B.eq if nsamples <= 2 else B.close_under
    # reference: the likelihood's own normalized residual of every sample, entry by entry
    dkey = ("lh" if named else "<None>")
    rows = [list(np.asarray(lh.normalized_residual(s).val.val, dtype=object).reshape(-1)) for s in samples]
    chi, mean, used, ign = _ref_stats(B, rows)
    cmp("data residuals: reduced chi^2 == sample average of sum|r|^2 / #used", [res["redchisq"]["data_residuals"][dkey]["mean"]], [chi])
    cmp("data residuals: mean == sample average of sum r / #used", [res["scmean"]["data_residuals"][dkey]["mean"]], [mean])
    B.is_true("data residuals: #dof is the number of used entries", int(res["ndof"]["data_residuals"][dkey]) == used)
    B.is_true("data residuals: #ignored is reported separately", int(res["nigndof"]["data_residuals"][dkey]) == ign)
    # the normalised residual itself: sqrt(N^-1) (model(s) - d) up to the documented sign
    s0 = samples[0]
    m0 = np.asarray(op(s0).val.val, dtype=object).reshape(-1)
    expect = [std_inv.reshape(-1)[i] * (m0[i] - d.val.val.reshape(-1)[i]) for i in range(N)]
    B.eq("normalized residual == N^(-1/2) (model(s) - d)", rows[0], expect)
    for k in keys:
        lk = "<None>" if k is None else k
        rows = [list(np.asarray((s if k is None else s[k]).val.val, dtype=object).reshape(-1)) for s in samples]
        chi, mean, used, ign = _ref_stats(B, rows)
        cmp(f"latent {lk}: reduced chi^2 == sample average of sum|x|^2 / #used", [res["redchisq"]["latent_variables"][lk]["mean"]], [chi])
        cmp(f"latent {lk}: mean == sample average of sum x / #used", [res["scmean"]["latent_variables"][lk]["mean"]], [mean])
        B.is_true(f"latent {lk}: #dof is the number of used entries", int(res["ndof"]["latent_variables"][lk]) == used)
        B.is_true(f"latent {lk}: #ignored is reported separately", int(res["nigndof"]["latent_variables"][lk]) == ign)


def h_re(B, which, nsamples, func):
    from jax import core as jcore
    J = jft()
    cplx = func == "complex"
    mk = (lambda nm, shp: B.complexes(nm, shp)) if cplx else (lambda nm, shp: B.reals(nm, shp))
    pos = {"a": mk("pa", (2,)), "b": mk("pb", (1,))}
    smp = {"a": mk("sa", (nsamples, 2)), "b": mk("sb", (nsamples, 1))}
    d = B.reals("d", (2,))
    w = B.reals("w", (2,))
    B.assume_all([t > 0 for t in w.reshape(-1)])

    def run(pos, smp, d, w):
        f = None
        if func == "residual":
            lh = J.Gaussian(d, noise_std_inv=lambda x: w * x, noise_cov_inv=lambda x: w * w * x).amend(lambda x: x["a"])
            f = lh.normalized_residual
        st = J.reduced_residual_stats(J.Samples(pos=pos, samples=smp), func=f, map=which)
        return jax.tree_util.tree_map(lambda s: (s.mean[0], s.reduced_chisq[0], s.ndof), st, is_leaf=lambda l: hasattr(l, "reduced_chisq"))
    old_dev = getattr(jcore.Tracer, "devices", None)
    if which == "lmap" and B.mode == "sym":
        jcore.Tracer.devices = lambda self: set()
    try:
        out = jcall(B, run, pos, smp, d, w)
    finally:
        if which == "lmap" and B.mode == "sym":
            if old_dev is None:
                del jcore.Tracer.devices
            else:
                jcore.Tracer.devices = old_dev

    def ref(rows):
        n = len(rows)
        size = len(rows[0])
        return (sum((sum(r, 0) / size for r in rows), 0) / n, sum((sum((v * v for v in r), 0) / size for r in rows), 0) / n, size)
    if func == "residual":
        # nifty.re documents the normalised residual as N^(-1/2) (d - model), nifty.cl as N^(-1/2) (model - d)
        rows = [[w[j] * (d[j] - (pos["a"][j] + smp["a"][i][j])) for j in range(2)] for i in range(nsamples)]
        m, c, nd = ref(rows)
        B.eq("JAX residual stats: mean == sample average of sum r / size", _flat(out[0]), [m])
        B.eq("JAX residual stats: reduced chi^2 == sample average of sum r^2 / size", _flat(out[1]), [c])
        B.is_true("JAX residual stats: #dof == size", int(np.asarray(out[2]).reshape(-1)[0]) == nd)
        return
    for k, size in (("a", 2), ("b", 1)):
        rows = [[pos[k][j] + smp[k][i][j] for j in range(size)] for i in range(nsamples)]
        if cplx:
            # documented: a complex entry counts as two degrees of freedom; the mean stays the plain average over entries
            n = len(rows)
            m = sum((sum(r, 0) / size for r in rows), 0) / n
            c = sum((sum(((v.conjugate() * v).real for v in r), 0) / (2 * size) for r in rows), 0) / n
            B.eq(f"JAX complex latent {k}: mean == sample average of sum x / size", _flat(out[k][0]), [m])
            B.eq(f"JAX complex latent {k}: reduced chi^2 == sample average of sum |x|^2 / (2 size)", _flat(out[k][1]), [c])
            B.is_true(f"JAX complex latent {k}: #dof == 2 size", int(np.asarray(out[k][2]).reshape(-1)[0]) == 2 * size)
            continue
        m, c, nd = ref(rows)
        B.eq(f"JAX latent {k}: mean == sample average of sum x / size", _flat(out[k][0]), [m])
        B.eq(f"JAX latent {k}: reduced chi^2 == sample average of sum x^2 / size", _flat(out[k][1]), [c])
        B.is_true(f"JAX latent {k}: #dof == size", int(np.asarray(out[k][2]).reshape(-1)[0]) == nd)


def scenarios(tier, seed):
    quick = [("cl", {"dom_kind": "single", "nsamples": 2, "model": "diag", "named": False}),
             ("cl", {"dom_kind": "multi", "nsamples": 1, "model": "id", "named": True}),
             ("cl", {"dom_kind": "single", "nsamples": 1, "model": "id", "named": True}),
             ("re", {"which": "lmap", "nsamples": 2, "func": "none"}),
             ("re", {"which": "vmap", "nsamples": 2, "func": "residual"}),
             ("re", {"which": "smap", "nsamples": 2, "func": "residual"}),
             ("re", {"which": "vmap", "nsamples": 2, "func": "complex"})]
    thorough = [("cl", {"dom_kind": "multi", "nsamples": 2, "model": "id", "named": True}),
                ("cl", {"dom_kind": "single", "nsamples": 2, "model": "id", "named": False}),
                ("re", {"which": "lmap", "nsamples": 3, "func": "residual"}),
                ("re", {"which": "smap", "nsamples": 3, "func": "none"}),
                ("re", {"which": "vmap", "nsamples": 3, "func": "none"})]
    return quick if tier == "quick" else quick + thorough


HARNESSES = {"cl": h_cl, "re": h_re}
OPTS = {"quick": {"max_paths": 2000, "budget_s": 600, "jobs": 8, "branch_timeout_ms": 10000, "obl_timeout_ms": 60000},
        "thorough": {"max_paths": 20000, "budget_s": 3000, "jobs": 8, "branch_timeout_ms": 10000, "obl_timeout_ms": 120000}}

META = {
    "level": "other",
    "explanation": "classic minisanity on symbolic SampleLists and a Gaussian likelihood (symbolic data, inverse noise, diagonal / "
                   "identity model, single and multi domains, named or not): each `entry == 0` test forks, so per path the ignored "
                   "entries are known; z3 proves reduced chi^2 and mean equal the sample-averaged mean of squared / plain normalised "
                   "residuals over the used entries, #dof and #ignored as counted, and the normalised residual is N^(-1/2)(model(s) - d). "
                   "JAX reduced_residual_stats traced with smap/lmap/vmap over symbolic samples: same formulas with #used = size.",
    "functions_encoded": ["nifty.cl.extra.minisanity", "nifty.cl.probing.StatCalculator", "nifty.cl.minimization.sample_list.SampleList.iterator",
                          "nifty.cl.operators.energy_operators.GaussianEnergy.normalized_residual",
                          "nifty.re.minisanity.{reduced_residual_stats,_residual_params}", "nifty.re.likelihood_impl.Gaussian.normalized_residual"],
    "bounds": {"samples": "classic 1-2 (3 samples: the rounded constant 1./3 of the running mean needs tolerant solver obligations that do not finish within 20 min), JAX 2-3", "entries per key": "1-2"},
    "stubs": ["nifty.cl.extra._tableentries (string formatting of the table) returns '' in the symbolic run",
              "np.sum over symbolic truth values counts by path decisions"],
    "outside": ["NaN entries (no symbolic NaN): the NaN-ignoring branch is exercised with zero entries only", "complex residuals in the classic diagnostic",
                "the std columns (classic: unbiased, JAX: population standard deviation)", "the formatted table"],
    "assumptions": ["inverse noise covariance > 0", "only the first sample's entries / residuals may vanish (all combinations explored); the others are non-zero"],
}
