"""C24 -- the JAX VI driver resumes after a crash with identical results.

The real nifty.re.optimize_kl runs a tiny inference problem (3 iterations, MGVI / geoVI sample modes) with an output
directory.  The run is killed at its k-th file-system mutation (vf.crash: before the operation, or right after a file has
been created/truncated for writing); k and the variant are symbolic integers concretised by solver-decided forking.  The
run is then restarted with resume=True and must finish and return the same samples and optimisation state as the
uninterrupted run (bit-identical arrays, same iteration counter and key)."""
import importlib
import os
import shutil
import tempfile

import numpy as np

from .. import symcore as sc
from ..crash import Injector, Kill
from .c12 import setup as setup12, jft


def setup():
    setup12()


def _problem(mode):
    import jax
    import jax.numpy as jnp
    J = jft()
    d = jnp.array([0.3, 1.2, 2.0])
    R = jnp.array([[1., 0.5], [0.2, 2.0], [1.5, -0.3]])
    lh = J.Gaussian(d, noise_cov_inv=lambda x: 4. * x, noise_std_inv=lambda x: 2. * x).amend(
        lambda x: R @ jnp.exp(x), domain=jax.ShapeDtypeStruct((2,), jnp.float64))
    return dict(likelihood=lh, position_or_samples=jnp.array([0.1, -0.2]), key=jax.random.PRNGKey(42), n_total_iterations=3, n_samples=2,
                draw_linear_kwargs=dict(cg_name=None, cg_kwargs=dict(absdelta=1e-8, maxiter=10)),
                nonlinearly_update_kwargs=dict(minimize_kwargs=dict(name=None, xtol=1e-6, cg_kwargs=dict(name=None), maxiter=3)),
                kl_kwargs=dict(minimize_kwargs=dict(name=None, xtol=1e-6, cg_kwargs=dict(name=None), maxiter=3)),
                sample_mode=mode, resume=True, jit=False)


def _result(samples, state):
    import jax
    key = state.key
    try:
        key = jax.random.key_data(key)
    except Exception:  # noqa: BLE001
        pass
    skeys = samples.keys
    if skeys is not None:
        try:
            skeys = jax.random.key_data(skeys)
        except Exception:  # noqa: BLE001
            pass
    return (np.array(samples.pos), np.array(samples._samples), int(state.nit), np.array(key), None if skeys is None else np.array(skeys))


def _same(a, b):
    def bits(x, y):
        x, y = np.asarray(x), np.asarray(y)
        return x.shape == y.shape and x.tobytes() == y.tobytes()
    same_keys = (a[4] is None) == (b[4] is None) and (a[4] is None or bits(a[4], b[4]))
    return bits(a[0], b[0]) and bits(a[1], b[1]) and a[2] == b[2] and bits(a[3], b[3]) and same_keys


def h_resume(B, mode):
    import logging
    okl = importlib.import_module("nifty.re.optimize_kl")
    logging.getLogger("nifty.re").setLevel(logging.CRITICAL)
    okl.logger.setLevel(logging.CRITICAL)
    J = jft()
    saved_ctx, sc.Ctx.cur = sc.Ctx.cur, None
    tmp = tempfile.mkdtemp(prefix="vf_c24_")
    try:
        with Injector([okl], None, root=tmp) as inj0:
            ref = _result(*J.optimize_kl(odir=os.path.join(tmp, "ref"), **_problem(mode)))
        nops, oplog = inj0.count, list(inj0.log)
    finally:
        sc.Ctx.cur = saved_ctx
    k = B.pick("crash_at", 0, nops - 1)
    variant = ("before", "truncated", "after")[B.pick("variant", 0, 2)]
    is_open = oplog[k].split(":", 2)[1].startswith("open")
    if (variant == "truncated" and not is_open) or (variant == "after" and is_open):
        B.assume(False)                      # variant not applicable to this kind of operation
    B.note(f"{nops} file-system mutations; killed at {oplog[k]} ({variant})")
    import re as _re
    site = _re.sub(r"[0-9]+", "#", oplog[k].split(":", 1)[1].replace(":ref/", " "))
    tag = f"killed {variant} {site}"
    sc.Ctx.cur = None
    err, res, killed = None, None, False
    try:
        out = os.path.join(tmp, "run")
        try:
            with Injector([okl], k, variant, root=tmp):
                J.optimize_kl(odir=out, **_problem(mode))
        except Kill:
            killed = True
        try:
            res = _result(*J.optimize_kl(odir=out, **_problem(mode)))
        except Exception as e:  # noqa: BLE001  resuming failed
            err = f"{type(e).__name__}: {e}"
    finally:
        sc.Ctx.cur = saved_ctx
        shutil.rmtree(tmp, ignore_errors=True)
    if err:
        B.note("resume raised " + err[:300])
    B.is_true("the run was killed at the chosen crash point", killed)
    B.is_true(f"{tag}: resuming finishes (the output directory is never left in a state from which resuming is impossible)", err is None)
    if err is None:
        B.is_true(f"{tag}: the resumed run returns the same samples and optimisation state", _same(res, ref))


def scenarios(tier, seed):
    quick = [("resume", {"mode": "linear_resample"}), ("resume", {"mode": "linear_sample"})]     # *_sample re-uses the keys of the samples
    thorough = [("resume", {"mode": "nonlinear_resample"}), ("resume", {"mode": "nonlinear_update"})]
    return quick if tier == "quick" else quick + thorough


HARNESSES = {"resume": h_resume}
OPTS = {"quick": {"max_paths": 200, "budget_s": 900, "jobs": 4, "branch_timeout_ms": 10000, "obl_timeout_ms": 20000},
        "thorough": {"max_paths": 400, "budget_s": 2400, "jobs": 4, "branch_timeout_ms": 10000, "obl_timeout_ms": 20000}}

META = {
    "level": "other",
    "explanation": "The real nifty.re.optimize_kl (3 iterations, 2 mirrored samples, MGVI with fresh and with re-used sample keys quick / geoVI thorough, jit off) is killed at every "
                   "file-system mutation it performs (before the operation, after a create/truncate, right after a remove / replace; buffered data of open files is lost; the crash point is a symbolic "
                   "integer concretised by solver-decided forking), restarted with resume=True and compared with the uninterrupted run: "
                   "bit-identical position, residuals and sample keys, same iteration counter and PRNG key.  Concrete float64 runs: the solver "
                   "explores the crash-point space.",
    "functions_encoded": ["nifty.re.optimize_kl.optimize_kl (state pickling and resume)", "nifty.re.optimize_kl.OptimizeVI.{init_state,update}"],
    "bounds": {"iterations": 3, "samples": "2 keys (4 mirrored samples)", "crash points": "before every open-for-write / remove / replace below odir, after every create/truncate, after every remove / replace; one crash per history"},
    "stubs": ["kill = BaseException raised at the crash point; files opened for writing below odir are wrapped so that data reaches the disk only at flush()/close() and is discarded once the run is killed (the unwinding exception runs `with` blocks, a real kill would not flush)"],
    "outside": ["partial writes inside one write() call", "two crashes in one history", "jit=True (same persistence code)", "multi-device runs"],
    "assumptions": [],
}
