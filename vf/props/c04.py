"""C04 -- fixing part of the input preserves value, Jacobian and metric (front end A).

The oracle is the *original* operator evaluated on the full input: the property
is relative ("equal those of the original evaluated with the constants
inserted"), so no independent reference is needed; the solver decides, for all
inputs and constants, that the specialised operator agrees with the original."""
import itertools

import numpy as np

from .. import shims_cl
from .. import symcore as sc
from ..clcommon import ift, field_of, flat_of, setup_cl, unflat, vdot_flat
from .c03 import build as build03, P

N = 2
U = ift.UnstructuredDomain


def setup():
    setup_cl()
    import nifty.cl.pointwise as pw
    import nifty.cl.operators.energy_operators as eo
    import nifty.cl.operators.scaling_operator as so
    import nifty.cl.operators.diagonal_operator as do
    import nifty.cl.minimization.energy_adapter as ea
    for m in (pw, eo, so, do, ea):
        shims_cl.proxy_np(m)
    import nifty.cl.operators.simplify_for_const as sfc
    shims_cl.proxy_float(sfc)      # ConstantEnergyOperator.__init__: Field.scalar(float(output))


def _dt(B):
    return object if B.mode == "sym" else np.float64


D1 = None


def d1():
    global D1
    if D1 is None:
        D1 = ift.DomainTuple.make(U(N))
    return D1


def mdom(keys):
    return ift.MultiDomain.make({k: d1() for k in keys})


def build(tree, dom, consts, B):
    """c03's trees plus multi-target nodes, linear Sum/Chain operators and energies"""
    if isinstance(tree, str):
        return ift.ducktape(d1(), None, tree)
    k = tree[0]
    if k == "left":          # put the result under an output key -> MultiDomain target
        return build(tree[2], dom, consts, B).ducktape_left(tree[1])
    if k == "lin+":          # SumOperator of linear operators (partial domains)
        ops = [build(t, dom, consts, B) for t in tree[1:]]
        r = ops[0]
        for o in ops[1:]:
            r = r + o
        return r
    if k == "lin-":
        a, b = build(tree[1], dom, consts, B), build(tree[2], dom, consts, B)
        return a - b
    if k == "lindiag":       # ChainOperator: diagonal @ linear
        sub = build(tree[1], dom, consts, B)
        return ift.makeOp(field_of(sub.target, consts["w"])) @ sub
    if k == "gauss":
        model = build(tree[1], dom, consts, B)
        return ift.GaussianEnergy(field_of(model.target, consts["dat"])) @ model
    if k == "gaussN":
        model = build(tree[1], dom, consts, B)
        icov = ift.makeOp(field_of(model.target, consts["nd"]), sampling_dtype=_dt(B))
        return ift.GaussianEnergy(field_of(model.target, consts["dat"]), icov) @ model
    if k == "poisson":
        model = build(tree[1], dom, consts, B)
        return ift.PoissonianEnergy(ift.makeField(model.target, np.array([1, 2]))) @ model
    if k == "varcov":
        r, i = build(tree[1], dom, consts, B), build(tree[2], dom, consts, B)
        en = ift.VariableCovarianceGaussianEnergy(d1(), "r_", "i_", np.float64, use_full_fisher=True)
        return en @ (r.ducktape_left("r_") + i.ducktape_left("i_"))
    if k == "varcov_bare":
        return ift.VariableCovarianceGaussianEnergy(d1(), "a", "b", np.float64, use_full_fisher=True)
    if k == "lhsum":
        a, b = build(tree[1], dom, consts, B), build(tree[2], dom, consts, B)
        a.name, b.name = "lh1", "lh2"
        return a + b
    if k == "lhscale":
        return ift.ScalingOperator(ift.DomainTuple.scalar_domain(), consts["c"]) @ build(tree[1], dom, consts, B)
    if k == "ham":
        return ift.StandardHamiltonian(build(tree[1], dom, consts, B))
    if k == "esum":          # EnergyOperator + EnergyOperator  (_OpSum on scalar targets)
        return build(tree[1], dom, consts, B) + build(tree[2], dom, consts, B)
    if k in ("ptw", "neg", "scale", "addc", "diag", "pow", "sum", "conj"):
        sub = build(tree[1] if k != "ptw" else tree[2], dom, consts, B)
        if k == "ptw":
            args = tuple(tree[3]) if len(tree) > 3 else ()
            return sub.ptw(tree[1], *args)
        if k == "neg":
            return -sub
        if k == "scale":
            return sub.scale(consts["c"])
        if k == "addc":
            return sub + consts["c"]
        if k == "diag":
            return ift.makeOp(field_of(sub.target, consts["w"])) @ sub
        if k == "pow":
            return sub ** tree[2]
        if k == "sum":
            return sub.sum()
        return sub.conjugate()
    a, b = build(tree[1], dom, consts, B), build(tree[2], dom, consts, B)
    if k == "add":
        return a + b
    if k == "sub":
        return a - b
    if k == "mul":
        return a * b
    if k == "div":
        return a / b
    if k == "vdot":
        return a.vdot(b)
    raise ValueError(k)


def keys_of(tree):
    if isinstance(tree, str):
        return {tree}
    if tree[0] == "varcov_bare":
        return {"a", "b"}
    subs = tree[1:]
    if tree[0] in ("ptw", "left"):
        subs = tree[2:3]
    elif tree[0] == "pow":
        subs = tree[1:2]
    out = set()
    for t in subs:
        out |= keys_of(t)
    return out


def _mf(dom, arrs):
    return ift.MultiField.from_dict({k: field_of(dom[k], arrs[k]) for k in dom.keys()}, dom)


def _is_energy(op):
    return isinstance(op, ift.EnergyOperator)


def h_const(B, tree, cst, pos=()):
    """specialise build(tree) to constant values for the keys in `cst`"""
    keys = sorted(keys_of(tree))
    cst = sorted(cst)
    var = [k for k in keys if k not in cst]
    xs = {k: B.reals("x" + k, (N,)) for k in keys}
    dxs = {k: B.reals("d" + k, (N,)) for k in keys}       # includes constant keys: must not matter
    consts = {"c": B.reals("c"), "w": B.reals("w", (N,)), "dat": B.reals("dat", (N,)), "nd": B.reals("nd", (N,))}
    B.assume_all([t > 0 for t in consts["nd"]])
    B.assume(consts["c"] > 0)
    for k in pos:
        B.assume_all([t > 0 for t in xs[k]])
    with B.setup():
        op = build(tree, None, consts, B)
        dom = op.domain
        assert set(dom.keys()) == set(keys), (dom.keys(), keys)
    x = _mf(dom, xs)
    cdom, vdom = mdom(cst), mdom(var)
    xc, xv = _mf(cdom, xs), _mf(vdom, xs)
    wm = _is_energy(op)

    c_out, op0 = op.simplify_for_constant_input(xc)
    B.is_true("specialised operator lives on the remaining keys", op0.domain is vdom)
    B.is_true("specialised operator keeps the target", op0.target is op.target)

    full = op(x)
    known_offset = None
    if isinstance(op, ift.StandardHamiltonian):
        # value clause for the Hamiltonian is reported separately (prior term of the constant keys)
        known_offset = 0
        for k in cst:
            known_offset = known_offset + 0.5 * vdot_flat(xs[k], xs[k])
    v0 = op0(xv)
    if known_offset is None:
        B.eq("value: op0(x_var) == op(x_var + constants)", flat_of(v0), flat_of(full))
    else:
        B.eq("hamiltonian value: op0(x_var) == op(x_var + constants)", flat_of(v0), flat_of(full))
        B.eq("hamiltonian value up to the constant keys' prior term", flat_of(v0) + known_offset, flat_of(full))
    if c_out is not None:
        for k in c_out.keys():
            B.eq("constant output key equals the original output", flat_of(c_out[k]), flat_of(full[k]))

    lin0 = op0(ift.Linearization.make_var(xv, wm))
    linF = op(ift.Linearization.make_var(x, wm))
    linP = op(ift.Linearization.make_partial_var(x, cst, wm))
    if known_offset is None:
        B.eq("Linearization value", flat_of(lin0.val), flat_of(linF.val))
    B.eq("partial-var Linearization value", flat_of(linP.val), flat_of(linF.val))
    dxv = _mf(vdom, dxs)
    dx0 = _mf(dom, {k: (dxs[k] if k in var else np.zeros(N)) for k in keys})
    dxfull = _mf(dom, dxs)
    j0 = flat_of(lin0.jac(dxv))
    B.eq("Jacobian(dx_var) == original Jacobian(dx_var, 0)", j0, flat_of(linF.jac(dx0)))
    B.eq("partial-var Jacobian ignores directions on constant keys", flat_of(linP.jac(dxfull)), j0)
    y = B.reals("y", (op.target.size,))
    yf = unflat(op.target, y)
    a0 = lin0.jac.adjoint_times(yf)
    aF = linF.jac.adjoint_times(yf)
    aP = linP.jac.adjoint_times(yf)
    B.eq("adjoint Jacobian == variable block of the original", flat_of(a0), flat_of(aF.extract(vdom)))
    B.eq("partial-var adjoint Jacobian, variable keys", flat_of(aP.extract(vdom)), flat_of(a0))
    B.eq("partial-var adjoint Jacobian is zero on constant keys", flat_of(aP.extract(cdom)),
         np.zeros(cdom.size))
    if wm and linF.metric is not None:
        B.is_true("metric present on the specialised energy", lin0.metric is not None)
        m0 = lin0.metric(dxv)
        mF = linF.metric(dx0).extract(vdom)
        B.eq("metric(dx_var) == variable block of the original metric", flat_of(m0), flat_of(mF))
    if wm:
        # EnergyAdapter with constants: gradient has no component on constant keys
        ea = ift.EnergyAdapter(x, op, constants=cst, want_metric=True)
        B.is_true("EnergyAdapter position holds only variable keys", set(ea.position.domain.keys()) == set(var))
        B.is_true("EnergyAdapter gradient has no constant keys", set(ea.gradient.domain.keys()) == set(var))
        B.eq("EnergyAdapter gradient == variable block of the full gradient", flat_of(ea.gradient),
             flat_of(linF.gradient.extract(vdom)))
        if known_offset is None:
            B.eq("EnergyAdapter value", [ea.value], flat_of(full))
        x2 = {k: B.reals("z" + k, (N,)) for k in var}
        for k in pos:
            if k in var:
                B.assume_all([t > 0 for t in x2[k]])
        ea2 = ea.at(_mf(vdom, x2))
        full2 = op(_mf(dom, {k: (x2[k] if k in var else xs[k]) for k in keys}))
        B.is_true("EnergyAdapter.at keeps the variable domain", ea2.position.domain is vdom)
        if known_offset is None:
            B.eq("EnergyAdapter.at(new) evaluates with the original constants", [ea2.value], flat_of(full2))
        else:
            B.eq("EnergyAdapter.at(new) evaluates with the original constants (up to the prior term)",
                 [ea2.value + known_offset], flat_of(full2))
        if ea2.metric is not None:
            B.eq("EnergyAdapter metric", flat_of(ea.apply_metric(dxv)), flat_of(linF.metric(dx0).extract(vdom)))


# --------------------------------------------------------------------------

EXP = ("exp",)
TANH = ("tanh",)
SIG = ("sigmoid",)

OPS = [
    # (tree, keys that must be positive)
    (["mul", "a", "b"], ()),
    (["add", "a", "b"], ()),
    (["sub", "a", ["mul", "b", "c"]], ()),
    (["mul", ["mul", "a", "b"], "c"], ()),
    (["mul", P(EXP, "a"), ["add", "b", "c"]], ()),
    (["div", "a", P(EXP, "b")], ()),
    (["vdot", ["mul", "a", "b"], "c"], ()),
    (["sum", ["mul", "a", ["mul", "b", "c"]]], ()),
    (P(TANH, ["add", ["mul", "a", "b"], "c"]), ()),
    (["pow", ["mul", "a", "b"], 2], ()),
    (["diag", ["add", ["scale", "a"], ["mul", "b", "b"]]], ()),
    (["mul", ["sum", ["mul", "a", "a"]], ["sum", "b"]], ()),
    (["add", ["mul", "a", "b"], ["mul", "a", "c"]], ()),
    (["neg", ["addc", ["mul", "a", P(SIG, "b")]]], ()),
    (["esum", ["sum", ["mul", "b", "b"]], ["gauss", ["mul", "a", "b"]]], ()),
    # linear operators on partial domains (SumOperator / ChainOperator paths)
    (["lin+", "a", "b"], ()),
    (["lin+", "a", "b", "c"], ()),
    (["lin-", ["lin+", "a", "b"], "c"], ()),
    (["lindiag", ["lin+", "a", "b"]], ()),
    (["lindiag", ["lin-", "a", ["lindiag", ["lin+", "b", "c"]]]], ()),
    (["mul", ["lin+", "a", "b"], P(EXP, "c")], ()),
    # multi-domain targets (ConstCollector paths)
    (["add", ["left", "u", ["mul", "a", "b"]], ["left", "v", "c"]], ()),
    (["add", ["left", "u", "a"], ["left", "v", P(EXP, "b")]], ()),
    (["add", ["left", "u", ["mul", "a", "a"]], ["left", "u", "b"]], ()),
    (["mul", ["add", ["left", "u", "a"], ["left", "v", "b"]], ["add", ["left", "u", "c"], ["left", "v", "a"]]], ()),
    (["lin+", ["left", "u", "a"], ["left", "v", "b"]], ()),
    (["lin+", ["left", "u", ["lin+", "a", "b"]], ["left", "v", "c"]], ()),
    # linear differences with multi-key targets (signs of non-leading summands in SumOperator)
    (["lin-", ["left", "u", "a"], ["left", "u", "b"]], ()),
    (["lin-", ["left", "u", "a"], ["left", "v", "b"]], ()),
    (["lin+", ["lin-", ["left", "u", "a"], ["left", "u", ["lindiag", "b"]]], ["lin-", ["left", "v", "c"], ["left", "v", "a"]]], ()),
    (["lin-", ["lin-", ["left", "u", "a"], ["left", "v", "b"]], ["left", "u", ["lindiag", "c"]]], ()),
    (["lin-", ["left", "u", ["lin-", "a", "b"]], ["left", "v", ["lin-", "b", "c"]]], ()),
    (["add", ["left", "u", ["mul", "a", "b"]], ["left", "v", ["mul", "b", "c"]]], ()),
]

ENERGIES = [
    (["gauss", ["mul", "a", "b"]], ()),
    (["gauss", ["add", "a", ["mul", "b", "c"]]], ()),
    (["gaussN", ["mul", P(EXP, "a"), "b"]], ()),
    (["gauss", ["lin+", "a", "b"]], ()),
    (["poisson", P(EXP, ["add", "a", "b"])], ()),
    (["poisson", ["mul", P(EXP, "a"), P(EXP, "b")]], ()),
    (["varcov_bare"], ("b",)),
    (["varcov", ["add", "a", "b"], P(EXP, "c")], ()),
    (["varcov", ["mul", "a", "b"], P(EXP, "b")], ()),
    (["lhsum", ["gauss", ["mul", "a", "b"]], ["poisson", P(EXP, "c")]], ()),
    (["lhsum", ["gauss", ["mul", "a", "b"]], ["gaussN", ["add", "b", "c"]]], ()),
    (["lhscale", ["gauss", ["mul", "a", "b"]]], ()),
    (["ham", ["gauss", ["mul", "a", "b"]]], ()),
    (["ham", ["gauss", ["add", "a", ["mul", "b", "c"]]]], ()),
    (["ham", ["poisson", P(EXP, ["add", "a", "b"])]], ()),
    (["ham", ["lhsum", ["gauss", ["mul", "a", "b"]], ["poisson", P(EXP, "c")]]], ()),
    (["ham", ["lhscale", ["gaussN", ["mul", "a", P(EXP, "b")]]]], ()),
    (["ham", ["varcov", ["add", "a", "b"], P(EXP, "c")]], ()),
]


def scenarios(tier, seed):
    out = []
    for tree, pos in OPS + ENERGIES:
        ks = sorted(keys_of(tree))
        for r in range(1, len(ks)):
            for cst in itertools.combinations(ks, r):
                out.append(("const", {"tree": tree, "cst": list(cst), "pos": list(pos)}))
    return out


HARNESSES = {"const": h_const}
OPTS = {"quick": {"max_paths": 32}, "thorough": {"max_paths": 64, "budget_s": 1200}}

META = {
    "level": "other",
    "explanation": "For every enumerated multi-key operator/energy expression and EVERY non-empty proper subset of its keys, "
                   "the real simplify_for_constant_input (all per-class _simplify_for_constant_input_nontrivial "
                   "implementations reached: _OpChain, _OpProd, _OpSum, SumOperator, ChainOperator, "
                   "LikelihoodEnergyOperator chains/sums, VariableCovarianceGaussianEnergy, StandardHamiltonian, generic "
                   "InsertionOperator fallback) is executed on symbolic constants; z3 refutes for ALL inputs, constants and "
                   "directions any difference in value, Jacobian, adjoint Jacobian and metric block between the specialised "
                   "operator and the original evaluated with the constants inserted; the partially-variable linearisation "
                   "(make_partial_var) must have zero adjoint Jacobian on constant keys; EnergyAdapter(constants=...) must "
                   "expose no gradient component for constant keys and keep them in at().",
    "functions_encoded": ["nifty.cl.operators.operator.{Operator.simplify_for_constant_input,_OpChain/_OpProd/_OpSum._simplify_for_constant_input_nontrivial}",
                          "nifty.cl.operators.sum_operator.SumOperator._simplify_for_constant_input_nontrivial",
                          "nifty.cl.operators.chain_operator.ChainOperator._simplify_for_constant_input_nontrivial",
                          "nifty.cl.operators.simplify_for_const.{ConstCollector,ConstantOperator,ConstantEnergyOperator,ConstantLikelihoodEnergyOperator,InsertionOperator}",
                          "nifty.cl.operators.energy_operators.{_LikelihoodChain,_LikelihoodSum,VariableCovarianceGaussianEnergy,StandardHamiltonian}._simplify_for_constant_input_nontrivial",
                          "nifty.cl.linearization.Linearization.make_partial_var", "nifty.cl.minimization.energy_adapter.EnergyAdapter.{__init__,at}"],
    "bounds": {"keys": "2-3 input keys, 1-2 output keys", "pixels": 2, "constant subsets": "every non-empty proper subset"},
    "stubs": shims_cl.STUBS[:5],
    "outside": ["JaxOperator/JaxLikelihoodEnergyOperator", "CountingOperator", "complex inputs", "more than 3 keys"],
    "assumptions": ["noise variances > 0, scaling factor > 0, VariableCovarianceGaussianEnergy inverse covariance > 0 where it is an input"],
}
