"""symcore -- symbolic scalars, path exploration by replay, solver portfolio.

The real NIFTy code is executed on NumPy ``dtype=object`` arrays (front end A)
or through a jaxpr interpreter (front end B) whose elements are the scalars
defined here.  Branching on a symbolic condition asks the current path context
(``Ctx``); the harness function is re-executed once per feasible path.

Everything is exact real (nonlinear) arithmetic: a PASS means "for all reals in
the bound", not for IEEE doubles (see DESIGN.md section 1).
"""
import numbers
import os
import time
from fractions import Fraction

import numpy as np
import z3

# --------------------------------------------------------------------------
# exceptions used for path steering (BaseException: never swallowed by the
# code under test, which catches at most ``Exception``)


class Infeasible(BaseException):
    pass


class Inconclusive(BaseException):
    """solver returned unknown where a verdict was needed"""


class HarnessError(Exception):
    """the harness met something it cannot encode (never a verdict)"""


# --------------------------------------------------------------------------
# solver portfolio

from . import smt

STATS = smt.STATS


def check(assertions, timeout_ms=20000, want_model=False, logic="auto"):
    """Return ('unsat'|'sat'|'unknown', model dict {name: Fraction} or None).

    The query goes to the out-of-process portfolio in vf/smt.py (hard time-outs,
    three solver builds)."""
    assertions = [a for a in assertions if not z3.is_true(a)]
    for a in assertions:
        if z3.is_false(a):
            STATS["queries"] += 1
            STATS["unsat"] += 1
            return "unsat", None
    body = to_smt2(assertions)
    k = body.rfind("(check-sat)")
    if k >= 0:
        body = body[:k]
    r, model, _ = smt.solve(body, timeout_ms / 1000.0, want_model)
    return r, model


def to_smt2(assertions):
    s = z3.Solver()
    s.add(*assertions)
    return s.to_smt2()


def check_cvc5(assertions, timeout_ms=20000):
    """second opinion through the cvc5 wheel (SMT-LIB text round trip)."""
    import cvc5
    t0 = time.time()
    txt = to_smt2(assertions)
    slv = cvc5.Solver()
    slv.setOption("tlimit-per", str(int(timeout_ms)))
    slv.setOption("nl-cov", "true")
    slv.setLogic("ALL")
    ip = cvc5.InputParser(slv)
    ip.setStringInput(cvc5.InputLanguage.SMT_LIB_2_6, txt, "q")
    sm = ip.getSymbolManager()
    res = "unknown"
    try:
        while True:
            cmd = ip.nextCommand()
            if cmd.isNull():
                break
            out = cmd.invoke(slv, sm)
            o = str(out).strip()
            if o in ("sat", "unsat", "unknown"):
                res = o
    except Exception:
        res = "unknown"
    STATS["time_cvc5"] = STATS.get("time_cvc5", 0.0) + time.time() - t0
    return res


# --------------------------------------------------------------------------
# numeric conversion helpers


def q(v):
    """exact z3 rational of a Python/NumPy real number"""
    if isinstance(v, z3.ArithRef):
        return v
    if isinstance(v, (bool, np.bool_)):
        return z3.RealVal(int(v))
    if isinstance(v, (int, np.integer)):
        return z3.RealVal(int(v))
    if isinstance(v, Fraction):
        return z3.Q(v.numerator, v.denominator)
    if isinstance(v, (float, np.floating)):
        f = float(v)
        if f != f or f in (float("inf"), float("-inf")):
            raise HarnessError(f"non-finite constant {f} reached the symbolic engine")
        fr = Fraction(f)
        return z3.Q(fr.numerator, fr.denominator)
    raise TypeError(f"cannot make a real term from {type(v)}")


def frac_of(val):
    """z3 numeric value -> Fraction (algebraic numbers are approximated)"""
    if z3.is_rational_value(val):
        return Fraction(val.numerator_as_long(), val.denominator_as_long())
    if z3.is_int_value(val):
        return Fraction(val.as_long())
    if z3.is_algebraic_value(val):
        a = val.approx(30)
        return Fraction(a.numerator_as_long(), a.denominator_as_long())
    raise HarnessError(f"cannot read model value {val}")


_ZERO = z3.RealVal(0)
_ONE = z3.RealVal(1)


def simp(e):
    return z3.simplify(e)


def canon(e):
    """canonical (sum-of-monomials, sorted) form: equal polynomials written differently become one term"""
    try:
        return z3.simplify(e, som=True, sort_sums=True)
    except z3.Z3Exception:
        return z3.simplify(e)


def is_const(e):
    return z3.is_rational_value(e) or z3.is_int_value(e)


# --------------------------------------------------------------------------
# rational functions as pairs of monomial dictionaries (tolerant comparison of terms that bake in rounded float constants)

def _pmul(p, q_):
    out = {}
    for m1, c1 in p.items():
        for m2, c2 in q_.items():
            m = tuple(sorted(m1 + m2))
            out[m] = out.get(m, Fraction(0)) + c1 * c2
    return out


def _padd(p, q_, sign=1):
    out = dict(p)
    for m, c in q_.items():
        out[m] = out.get(m, Fraction(0)) + sign * c
    return out


_PONE = {(): Fraction(1)}


def ratpoly(t, atoms=None):
    """z3 real term -> (numerator, denominator) as {sorted tuple of atom names: Fraction}; atoms: name -> z3 constant"""
    if atoms is None:
        atoms = {}

    def rec(t):
        if z3.is_rational_value(t) or z3.is_int_value(t):
            return {(): frac_of(t)}, _PONE
        k = t.decl().kind()
        ch = t.children()
        if k == z3.Z3_OP_ADD or k == z3.Z3_OP_SUB:
            n, d = rec(ch[0])
            for c in ch[1:]:
                n2, d2 = rec(c)
                n = _padd(_pmul(n, d2), _pmul(n2, d), 1 if k == z3.Z3_OP_ADD else -1)
                d = _pmul(d, d2)
            return n, d
        if k == z3.Z3_OP_UMINUS:
            n, d = rec(ch[0])
            return {m: -c for m, c in n.items()}, d
        if k == z3.Z3_OP_MUL:
            n, d = _PONE, _PONE
            for c in ch:
                n2, d2 = rec(c)
                n, d = _pmul(n, n2), _pmul(d, d2)
            return n, d
        if k == z3.Z3_OP_DIV:
            n, d = rec(ch[0])
            n2, d2 = rec(ch[1])
            return _pmul(n, d2), _pmul(d, n2)
        if k == z3.Z3_OP_POWER and is_const(ch[1]) and frac_of(ch[1]).denominator == 1:
            e = int(frac_of(ch[1]))
            n, d = rec(ch[0])
            if e < 0:
                n, d, e = d, n, -e
            rn, rd = _PONE, _PONE
            for _ in range(e):
                rn, rd = _pmul(rn, n), _pmul(rd, d)
            return rn, rd
        if k == z3.Z3_OP_TO_REAL:
            return rec(ch[0])
        if z3.is_const(t) and k == z3.Z3_OP_UNINTERPRETED:
            atoms[str(t)] = t
            return {(str(t),): Fraction(1)}, _PONE
        raise HarnessError(f"ratpoly: unsupported term {t.decl()}")
    return rec(t)


def _pclose(p, q_, tol):
    scale = max([abs(c) for c in p.values()] + [abs(c) for c in q_.values()] + [Fraction(0)])
    return all(abs(p.get(m, Fraction(0)) - q_.get(m, Fraction(0))) <= Fraction(tol) * scale for m in set(p) | set(q_))


def rat_close(a, b, tol):
    """a ~ b as rational functions: cross-multiplied polynomials agree up to tol * (largest coefficient) in every coefficient"""
    (n1, d1), (n2, d2) = a, b
    return _pclose(_pmul(n1, d2), _pmul(n2, d1), tol)


def poly_term(p, atoms):
    """monomial dictionary -> z3 term"""
    tot = None
    for m, c in sorted(p.items()):
        if c == 0:
            continue
        t = z3.RealVal(str(c))
        for a in m:
            t = t * atoms[a]
        tot = t if tot is None else tot + t
    return z3.RealVal(0) if tot is None else tot


# --------------------------------------------------------------------------
# path context


class Ctx:
    """One execution path: decisions taken, path condition, side conditions."""
    cur = None

    def __init__(self, prefix=(), assumptions=(), branch_timeout_ms=20000,
                 max_decisions=400):
        self.prefix = list(prefix)
        self.taken = []
        self.pc = list(assumptions)      # assumptions + branch decisions + definitions
        self.side = []                   # definedness side conditions (assumed)
        self.pending = []
        self.nfresh = 0
        self.branch_timeout_ms = branch_timeout_ms
        self.max_decisions = max_decisions
        self.apps = {}                   # (fname, arg sexpr) -> (arg term, var)
        self.by_f = {}                   # fname -> list of (arg term, var)
        self.notes = []                  # free-form per-path notes
        self.data = {}                   # harness scratch space
        self.nbranch_queries = 0

    # -- basic services
    def fresh(self, base="t", sort="real"):
        self.nfresh += 1
        nm = f"{base}!{self.nfresh}"
        return z3.Real(nm) if sort == "real" else z3.Int(nm)

    def assume(self, c):
        if isinstance(c, SB):
            c = c.e
        if isinstance(c, (bool, np.bool_)):
            if not c:
                raise Infeasible()
            return
        c = simp(c)
        if z3.is_false(c):
            raise Infeasible()
        if z3.is_true(c):
            return
        self.pc.append(c)

    def need(self, c):
        """definedness side condition (divisor non-zero, sqrt argument >= 0)"""
        c = simp(c)
        if z3.is_true(c):
            return
        self.side.append(c)

    def facts(self):
        return self.pc + self.side

    # -- forking
    def branch(self, cond):
        cond = simp(cond)
        if z3.is_true(cond):
            return True
        if z3.is_false(cond):
            return False
        i = len(self.taken)
        if i >= self.max_decisions:
            raise Inconclusive(f"more than {self.max_decisions} decisions on one path")
        if i < len(self.prefix):
            v = self.prefix[i]
        else:
            self.nbranch_queries += 2
            st, _ = check(self.facts() + [cond], self.branch_timeout_ms)
            sf, _ = check(self.facts() + [z3.Not(cond)], self.branch_timeout_ms)
            if st == "unknown" or sf == "unknown":
                # treat unknown as feasible: explore both, the obligations on
                # those paths still carry the full path condition.
                st = "sat" if st == "unknown" else st
                sf = "sat" if sf == "unknown" else sf
                self.notes.append("branch feasibility unknown (explored anyway)")
            if st == "sat" and sf == "sat":
                self.pending.append(self.taken + [False])
                v = True
            elif st == "sat":
                v = True
            elif sf == "sat":
                v = False
            else:
                raise Infeasible()
        self.taken.append(v)
        self.pc.append(cond if v else z3.Not(cond))
        return v

    # -- uninterpreted functions, Ackermannised
    def app(self, fname, arg, axioms=None, name=None):
        """value of the uninterpreted real function ``fname`` at ``arg``.

        One fresh variable per syntactically distinct (simplified) argument plus
        congruence constraints against all earlier applications."""
        arg = canon(arg)       # equal polynomials written differently share one application
        key = (fname, arg.sexpr())
        if key in self.apps:
            return self.apps[key][1]
        lst = self.by_f.setdefault(fname, [])
        tol = getattr(self, "uf_tol", None)
        if tol is not None and name is None:
            # harness switch (C28): arguments that are the same polynomial up to a perturbation of every coefficient by `tol`
            # times the largest coefficient (the same quantity computed by two implementations with differently rounded float constants)
            # share one application
            try:
                ra = ratpoly(arg)
                for (a2, v2) in lst:
                    if rat_close(ra, ratpoly(a2), tol):
                        self.apps[key] = (arg, v2)
                        return v2
            except HarnessError:
                pass
        v = self.fresh(fname) if name is None else z3.Real(name)
        for (a2, v2) in lst:
            if is_const(arg) and is_const(a2):
                continue  # distinct constants
            self.pc.append(z3.Implies(arg == a2, v == v2))
        lst.append((arg, v))
        self.apps[key] = (arg, v)
        if axioms is not None:
            for ax in axioms(self, arg, v, lst[:-1]):
                self.pc.append(ax)
        return v


def cur():
    c = Ctx.cur
    if c is None:
        raise HarnessError("symbolic value used outside of a path context")
    return c


# --------------------------------------------------------------------------
# symbolic booleans


class SB:
    __slots__ = ("e",)

    def __init__(self, e):
        self.e = e if isinstance(e, z3.BoolRef) else z3.BoolVal(bool(e))

    def __bool__(self):
        return cur().branch(self.e)

    def __invert__(self):
        return SB(z3.Not(self.e))

    @staticmethod
    def _l(o):
        return o.e if isinstance(o, SB) else z3.BoolVal(bool(o))

    def __and__(self, o):
        return SB(z3.And(self.e, SB._l(o)))

    __rand__ = __and__

    def __or__(self, o):
        return SB(z3.Or(self.e, SB._l(o)))

    __ror__ = __or__

    def __xor__(self, o):
        return SB(z3.Xor(self.e, SB._l(o)))

    __rxor__ = __xor__

    def __eq__(self, o):
        return SB(self.e == SB._l(o))

    def __ne__(self, o):
        return SB(self.e != SB._l(o))

    __hash__ = None

    def __repr__(self):
        return f"SB({self.e})"

    # numpy object-loop hooks
    def logical_not(self):
        return ~self


# --------------------------------------------------------------------------
# transcendental functions: uninterpreted + minimal axiom instances

def _exp_axioms(c, arg, v, earlier):
    # positivity, comparison with exp(0) = 1 and the tangent bound exp(t) >= 1 + t
    ax = [v > 0, z3.Implies(arg > 0, v > 1), z3.Implies(arg < 0, v < 1), z3.Implies(arg == 0, v == 1), v >= 1 + arg]
    if is_const(arg) and frac_of(arg) == 0:
        ax.append(v == 1)
    for (a2, v2) in earlier:
        s = simp(arg + a2)
        if is_const(s) and frac_of(s) == 0:
            ax.append(v * v2 == 1)
        # monotonicity instance
        ax.append(z3.Implies(arg < a2, v < v2))
        ax.append(z3.Implies(arg > a2, v > v2))
    return ax


def _log_axioms(c, arg, v, earlier):
    ax = []
    if is_const(arg) and frac_of(arg) == 1:
        ax.append(v == 0)
    for (a2, v2) in earlier:
        ax.append(z3.Implies(z3.And(arg > 0, a2 > 0, arg < a2), v < v2))
        ax.append(z3.Implies(z3.And(arg > 0, a2 > 0, arg > a2), v > v2))
    return ax


def _sincos_axioms(other):
    def f(c, arg, v, earlier):
        ax = [v <= 1, v >= -1]
        if is_const(arg) and frac_of(arg) == 0:
            ax.append(v == (0 if other == "cos" else 1))
        for (a2, v2) in earlier:
            s = simp(arg + a2)
            if is_const(s) and frac_of(s) == 0:
                # parity: sin(-t) = -sin t, cos(-t) = cos t
                ax.append(v == -v2 if other == "cos" else v == v2)
        return ax
    return f


def _phi_axioms(c, arg, v, earlier):
    # standard normal cdf
    ax = [v > 0, v < 1]
    if is_const(arg) and frac_of(arg) == 0:
        ax.append(v == z3.Q(1, 2))
    for (a2, v2) in earlier:
        s = simp(arg + a2)
        if is_const(s) and frac_of(s) == 0:
            ax.append(v + v2 == 1)
        ax.append(z3.Implies(arg < a2, v < v2))
        ax.append(z3.Implies(arg > a2, v > v2))
    return ax


def _mono_axioms(lo=None, hi=None, at0=None):
    def f(c, arg, v, earlier):
        ax = []
        if lo is not None:
            ax.append(v > lo)
        if hi is not None:
            ax.append(v < hi)
        if at0 is not None and is_const(arg) and frac_of(arg) == 0:
            ax.append(v == at0)
        for (a2, v2) in earlier:
            ax.append(z3.Implies(arg < a2, v < v2))
            ax.append(z3.Implies(arg > a2, v > v2))
        return ax
    return f


AXIOMS_DOC = [
    "exp(t) > 0; exp(0) = 1; t > 0 => exp(t) > 1; t < 0 => exp(t) < 1; exp(t) >= 1 + t; exp(t)*exp(-t) = 1 (instances with syntactically opposite arguments); exp strictly monotone (pairwise instances)",
    "log(1) = 0; log strictly monotone on positive arguments (pairwise instances); log(exp(t)) = t and exp(log(t)) = t (t > 0 recorded as side condition) by construction",
    "-1 <= sin, cos <= 1; sin(t)^2 + cos(t)^2 = 1 for each argument t; sin(0)=0, cos(0)=1; parity sin(-t)=-sin t, cos(-t)=cos t (instances)",
    "arctan strictly monotone, |arctan| < pi/2 (pi a symbolic constant with 3.14159 < pi < 3.1416)",
    "Erf (error function): odd, strictly monotone, |Erf| < 1, Erf(0) = 0, sign(Erf t) = sign t; erfc(t) = 1 - Erf(t)",
    "Phi (normal cdf): 0 < Phi < 1, Phi(0)=1/2, Phi(t)+Phi(-t)=1, strictly monotone",
    "sqrt(t) = s with s >= 0 and s*s = t (algebraic; side condition t >= 0)",
    "Ackermann congruence: equal arguments give equal values for every uninterpreted application",
]


def PI():
    c = cur()
    if "pi" not in c.data:
        p = z3.Real("pi!")
        c.pc.append(z3.And(p > z3.Q(314159, 100000), p < z3.Q(31416, 10000)))
        c.data["pi"] = p
    return c.data["pi"]


def _split_exp(arg):
    return None


def _exp_term(t):
    c = cur()
    t = canon(t)
    # log/exp cancellation by construction
    inv = c.data.setdefault("log_of", {})  # var sexpr -> argument of log
    k = t.sexpr()
    if k in inv:
        return inv[k]
    if is_const(t) and frac_of(t) == 0:
        return _ONE
    key = ("exp", t.sexpr())
    isnew = key not in c.apps
    tol = getattr(c, "uf_tol", None)
    if tol is not None and isnew:
        # harness switch (C28): exp(a + r) = exp(a) * exp(r) when exp(a) already exists and every monomial of a occurs in
        # the argument with the same coefficient (up to tol): the two implementations group the exponent differently
        try:
            atoms = {}
            n, d = ratpoly(t, atoms)
            for (a2, v2) in list(c.by_f.get("exp", [])):
                n2, d2 = ratpoly(a2, atoms)
                if d2 != _PONE or not n2:
                    continue
                sub = _pmul(n2, d)
                if not all(m in n and abs(n[m] - cf) <= Fraction(tol) * abs(cf) for m, cf in sub.items()):
                    continue
                scale = max(abs(cf) for cf in n.values())
                rest = {m: cf for m, cf in _padd(n, sub, -1).items() if abs(cf) > Fraction(tol) * scale}
                if len(rest) >= len(n):
                    continue
                if not rest:
                    return v2
                rt = poly_term(rest, atoms) / poly_term(d, atoms) if d != _PONE else poly_term(rest, atoms)
                return simp(v2 * _exp_term(rt))
        except HarnessError:
            pass
    v = c.app("exp", t, _exp_axioms)
    c.data.setdefault("exp_of", {})[v.sexpr()] = t
    if isnew:
        # exp(-log(u)) * u == 1 (the partner exp(log u) was cancelled to u by construction)
        k2 = simp(-t).sexpr()
        if k2 in inv:
            c.pc.append(v * inv[k2] == 1)
    return v


def _log_term(t):
    c = cur()
    t = canon(t)
    inv = c.data.setdefault("exp_of", {})
    k = t.sexpr()
    if k in inv:
        return inv[k]
    if is_const(t) and frac_of(t) == 1:
        return _ZERO
    c.need(t > 0)
    v = c.app("log", t, _log_axioms)
    c.data.setdefault("log_of", {})[v.sexpr()] = t
    return v


def _sin_term(t):
    c = cur()
    t = canon(t)
    s = c.app("sin", t, _sincos_axioms("cos"))
    key = ("sc", t.sexpr())
    if key not in c.data:
        c.data[key] = True
        co = c.app("cos", t, _sincos_axioms("sin"))
        c.pc.append(s * s + co * co == 1)
    return s


def _cos_term(t):
    c = cur()
    t = canon(t)
    co = c.app("cos", t, _sincos_axioms("sin"))
    key = ("sc", t.sexpr())
    if key not in c.data:
        c.data[key] = True
        s = c.app("sin", t, _sincos_axioms("cos"))
        c.pc.append(s * s + co * co == 1)
    return co


def _sqrt_term(t):
    c = cur()
    t = simp(t)
    if is_const(t):
        f = frac_of(t)
        if f >= 0:
            from math import isqrt
            n, d = f.numerator, f.denominator
            if isqrt(n) ** 2 == n and isqrt(d) ** 2 == d:
                return z3.Q(isqrt(n), isqrt(d))
    key = ("sqrt", t.sexpr())
    if key in c.data:
        return c.data[key]
    c.need(t >= 0)
    s = c.fresh("sqrt")
    c.pc.append(z3.And(s >= 0, s * s == t))
    c.data[key] = s
    return s


def _uf_term(name, axioms=None):
    def f(t):
        return cur().app(name, canon(t), axioms)
    return f


def _atan_axioms(c, arg, v, earlier):
    p = PI()
    ax = [v < p / 2, v > -p / 2]
    if is_const(arg) and frac_of(arg) == 0:
        ax.append(v == 0)
    for (a2, v2) in earlier:
        ax.append(z3.Implies(arg < a2, v < v2))
        ax.append(z3.Implies(arg > a2, v > v2))
        s = simp(arg + a2)
        if is_const(s) and frac_of(s) == 0:
            ax.append(v + v2 == 0)
    return ax


def _erf_axioms(c, arg, v, earlier):
    # error function: odd, strictly monotone, |erf| < 1, erf(0) = 0, sign
    ax = [v < 1, v > -1, z3.Implies(arg > 0, v > 0), z3.Implies(arg < 0, v < 0), z3.Implies(arg == 0, v == 0)]
    for (a2, v2) in earlier:
        ax.append(z3.Implies(arg < a2, v < v2))
        ax.append(z3.Implies(arg > a2, v > v2))
        ax.append(z3.Implies(arg + a2 == 0, v + v2 == 0))
    return ax


_erfu_term = _uf_term("Erf", _erf_axioms)
_atan_term = _uf_term("arctan", _atan_axioms)
_phi_term = _uf_term("Phi", _phi_axioms)
_erf_term = None  # erf(t) = 2*Phi(t*sqrt2) - 1, defined in SR.erf


# --------------------------------------------------------------------------
# symbolic real scalar


def _lift(o):
    """Python/NumPy number or Sym -> SR or SC (None if not a number)"""
    if isinstance(o, (SR, SC)):
        return o
    if isinstance(o, SI):
        return SR(z3.ToReal(o.e))
    if isinstance(o, (bool, np.bool_, int, np.integer, float, np.floating, Fraction)):
        return SR(q(o))
    if isinstance(o, (complex, np.complexfloating)):
        return SC(SR(q(o.real)), SR(q(o.imag)))
    if isinstance(o, SB):
        return SR(z3.If(o.e, _ONE, _ZERO))
    if isinstance(o, np.ndarray) and o.shape == ():
        return _lift(o[()])
    return None


# division handling: "frac" keeps every real scalar as a pair (numerator,
# denominator) of division-free terms, so obligations and path conditions are
# cross-multiplied polynomial constraints (what nlsat is good at; identities
# are already decided by z3's sum-of-monomials normal form).  "let" names each
# quotient by a fresh variable q with q*b == a (cheaper for long iterations).
DIVMODE = [os.environ.get("VERIF_DIVMODE", "frac")]


def set_divmode(m):
    assert m in ("frac", "let")
    DIVMODE[0] = m


def _cval(e):
    """Fraction value of a constant term, else None (cheap test)"""
    if z3.is_rational_value(e):
        return Fraction(e.numerator_as_long(), e.denominator_as_long())
    return None


def _abs_arg(e):
    """t if e is the term If(t >= 0, t, -t) built by SR.__abs__, else None"""
    if e is None or not z3.is_app_of(e, z3.Z3_OP_ITE):
        return None
    c, a, b = e.children()
    if z3.is_app_of(c, z3.Z3_OP_GE) and c.arg(0).eq(a) and _cval(c.arg(1)) == 0 and simp(b + a).eq(simp(z3.RealVal(0))):
        return a
    return None


def t_add(a, b):
    ca, cb = _cval(a), _cval(b)
    if ca is not None and cb is not None:
        return q(ca + cb)
    if ca == 0:
        return b
    if cb == 0:
        return a
    return a + b


def t_sub(a, b):
    ca, cb = _cval(a), _cval(b)
    if ca is not None and cb is not None:
        return q(ca - cb)
    if cb == 0:
        return a
    if ca == 0:
        return t_neg(b)
    return a - b


def t_mul(a, b):
    ca, cb = _cval(a), _cval(b)
    if ca is not None and cb is not None:
        return q(ca * cb)
    if ca == 0 or cb == 0:
        return _ZERO
    if ca == 1:
        return b
    if cb == 1:
        return a
    if ca == -1:
        return t_neg(b)
    if cb == -1:
        return t_neg(a)
    return a * b


def t_neg(a):
    ca = _cval(a)
    if ca is not None:
        return q(-ca)
    if z3.is_app_of(a, z3.Z3_OP_UMINUS):
        return a.arg(0)
    return -a


def _same(a, b):
    return a is b or (a is not None and b is not None and a.eq(b))


class _Base:
    shape = ()
    ndim = 0
    size = 1
    __hash__ = None

    def __getitem__(self, k):
        if k == () or k is Ellipsis:
            return self
        raise IndexError("scalar")

    def item(self):
        return self

    def copy(self):
        return self

    def __copy__(self):
        return self

    def __deepcopy__(self, memo):
        return self

    def astype(self, *a, **k):
        return self

    def __trunc__(self):
        raise TypeError("symbolic value realised (trunc)")

    def __floor__(self):
        raise TypeError("symbolic value realised (floor)")

    def __ceil__(self):
        raise TypeError("symbolic value realised (ceil)")

    def __round__(self, n=None):
        raise TypeError("symbolic value realised (round)")

    def __floordiv__(self, o):
        raise TypeError("symbolic floordiv")

    def __rfloordiv__(self, o):
        raise TypeError("symbolic floordiv")

    def __mod__(self, o):
        raise TypeError("symbolic mod")

    def __rmod__(self, o):
        raise TypeError("symbolic mod")

    def __index__(self):
        raise TypeError("symbolic value used as index")


class SR(_Base, numbers.Real):
    """symbolic real scalar: numerator term ``n`` over denominator term ``d``
    (``d is None`` means 1).  ``.e`` is the z3 term of the value."""
    __slots__ = ("n", "d")
    dtype = np.dtype(object)

    def __init__(self, n, d=None):
        self.n = n if isinstance(n, z3.ArithRef) else q(n)
        if d is not None:
            cd = _cval(d)
            if cd is not None and cd != 0:
                cn = _cval(self.n)
                self.n = q(cn / cd) if cn is not None else (self.n if cd == 1 else self.n / d)
                d = None
        self.d = d

    @property
    def e(self):
        return self.n if self.d is None else self.n / self.d

    # arithmetic ---------------------------------------------------------
    @staticmethod
    def _o(o):
        o = _lift(o)
        return o

    def __add__(self, o):
        o = _lift(o)
        if o is None:
            return NotImplemented
        if isinstance(o, SC):
            return SC(self, SR(_ZERO)) + o
        if self.d is None and o.d is None:
            return SR(t_add(self.n, o.n))
        if _same(self.d, o.d):
            return SR(t_add(self.n, o.n), self.d)
        if self.d is None:
            return SR(t_add(t_mul(self.n, o.d), o.n), o.d)
        if o.d is None:
            return SR(t_add(self.n, t_mul(o.n, self.d)), self.d)
        return SR(t_add(t_mul(self.n, o.d), t_mul(o.n, self.d)), t_mul(self.d, o.d))

    __radd__ = __add__

    def __neg__(self):
        return SR(t_neg(self.n), self.d)

    def __sub__(self, o):
        o = _lift(o)
        if o is None:
            return NotImplemented
        return self + (-o)

    def __rsub__(self, o):
        o = _lift(o)
        if o is None:
            return NotImplemented
        return o + (-self)

    def __mul__(self, o):
        o = _lift(o)
        if o is None:
            return NotImplemented
        if isinstance(o, SC):
            return SC(self, SR(_ZERO)) * o
        if self.d is None and o.d is None and z3.is_const(self.n) and self.n.eq(o.n) and Ctx.cur is not None:
            rad = Ctx.cur.data.get(("sqrtof", self.n.sexpr()))
            if rad is not None:
                return rad          # sqrt(t)*sqrt(t) == t by construction
        n = t_mul(self.n, o.n)
        if _cval(n) == 0:
            return SR(_ZERO)
        if self.d is None:
            d = o.d
        elif o.d is None:
            d = self.d
        else:
            d = t_mul(self.d, o.d)
        return SR(n, d)

    __rmul__ = __mul__

    def _inv(self):
        """1/self"""
        c = cur()
        cn = _cval(self.n)
        if cn is not None:
            if cn == 0:
                c.side.append(z3.BoolVal(False))
                c.notes.append("division by literal zero: path outside the claim")
                return SR(c.fresh("undef"))
            # constant numerator: 1/(cn/d) = d/cn
            return SR(self.d if self.d is not None else _ONE) * SR(q(1 / cn))
        c.need(self.n != 0)
        if DIVMODE[0] == "let":
            key = ("inv", canon(self.e).sexpr())
            if key not in c.data:
                qv = c.fresh("quo")
                # qv * n == d
                c.pc.append(t_mul(qv, self.n) == (self.d if self.d is not None else _ONE))
                c.data[key] = qv
            return SR(c.data[key])
        return SR(self.d if self.d is not None else _ONE, self.n)

    def __truediv__(self, o):
        o = _lift(o)
        if o is None:
            return NotImplemented
        if isinstance(o, SC):
            return SC(self, SR(_ZERO)) / o
        co = _cval(o.n) if o.d is None else None
        if co is not None and co != 0:
            return self * SR(q(1 / co))
        if DIVMODE[0] == "let" and _cval(self.n) != 0:
            c = cur()
            c.need(o.n != 0)
            key = ("div", canon(self.e).sexpr(), canon(o.e).sexpr())
            if key not in c.data:
                qv = c.fresh("quo")
                c.pc.append(t_mul(qv, o.e) == self.e)
                c.data[key] = qv
            return SR(c.data[key])
        return self * o._inv()

    def __rtruediv__(self, o):
        o = _lift(o)
        if o is None:
            return NotImplemented
        return o / self

    def __pos__(self):
        return self

    def __abs__(self):
        n = z3.If(self.n >= 0, self.n, -self.n)
        d = None if self.d is None else z3.If(self.d >= 0, self.d, -self.d)
        return SR(n, d)

    def __pow__(self, n, mod=None):
        if isinstance(n, SR):
            en = simp(n.e)
            if is_const(en):
                n = frac_of(en)
            else:
                # x**y = exp(y*log x)
                return (n * self.log()).exp()
        if isinstance(n, (float, np.floating)):
            n = Fraction(float(n))
        if isinstance(n, (int, np.integer, Fraction)):
            n = Fraction(n)
            if n.denominator == 1:
                k = int(n)
                if k % 2 == 0 and k != 0:
                    # |t|**(2m) == t**(2m): drop the case split introduced by abs()
                    an = _abs_arg(self.n)
                    ad = _abs_arg(self.d) if self.d is not None else None
                    if an is not None or ad is not None:
                        base = SR(an if an is not None else self.n, (ad if ad is not None else self.d))
                        return base ** n
                r = SR(_ONE)
                for _ in range(abs(k)):
                    r = r * self
                return r if k >= 0 else r._inv()
            if n.denominator == 2:
                s = self.sqrt()
                return s ** int(n.numerator)
            return (SR(q(n)) * self.log()).exp()
        if isinstance(n, SC):
            return SC(self, SR(_ZERO)) ** n
        return NotImplemented

    def __rpow__(self, o):
        o = _lift(o)
        if o is None:
            return NotImplemented
        return o ** self

    # comparisons ----------------------------------------------------------
    def _diff(self, o):
        """(N, D) with self - o == N/D, D None for 1"""
        r = self - o
        return r.n, r.d

    def _cmp(self, o, kind):
        o = _lift(o)
        if o is None:
            return NotImplemented
        if isinstance(o, SC):
            raise TypeError("ordering SR vs SC")
        N, D = self._diff(o)
        if D is not None:
            # sign(N/D) == sign(N*D)
            N = N * D
        if kind == "lt":
            return SB(N < 0)
        if kind == "le":
            return SB(N <= 0)
        if kind == "gt":
            return SB(N > 0)
        return SB(N >= 0)

    def __lt__(self, o):
        return self._cmp(o, "lt")

    def __le__(self, o):
        return self._cmp(o, "le")

    def __gt__(self, o):
        return self._cmp(o, "gt")

    def __ge__(self, o):
        return self._cmp(o, "ge")

    def eq_term(self, o):
        """z3 Bool: self == o (cross-multiplied, division free)"""
        o = _lift(o)
        if self.d is None and o.d is None:
            return self.n == o.n
        if _same(self.d, o.d):
            return self.n == o.n
        a = self.n if o.d is None else t_mul(self.n, o.d)
        b = o.n if self.d is None else t_mul(o.n, self.d)
        return a == b

    def __eq__(self, o):
        o = _lift(o)
        if o is None:
            return NotImplemented
        if isinstance(o, SC):
            return SB(z3.And(self.eq_term(o.r), o.i.eq_term(SR(_ZERO))))
        return SB(self.eq_term(o))

    def __ne__(self, o):
        r = self.__eq__(o)
        return r if r is NotImplemented else ~r

    # conversions ----------------------------------------------------------
    def __hash__(self):
        # structural hash (domains keep symbolic distances in hashed tuples); equality stays symbolic
        return hash(simp(self.e).sexpr())

    def __float__(self):
        e = simp(self.e)
        if is_const(e):
            return float(frac_of(e))
        raise TypeError("symbolic value realised (float)")

    def __int__(self):
        e = simp(self.e)
        if is_const(e) and frac_of(e).denominator == 1:
            return int(frac_of(e))
        raise TypeError("symbolic value realised (int)")

    def __bool__(self):
        return bool(self != 0)

    def __complex__(self):
        return complex(float(self))

    def __repr__(self):
        return f"SR({simp(self.e)})"

    # numpy duck typing ----------------------------------------------------
    def conjugate(self):
        return self

    conj = conjugate

    @property
    def real(self):
        return self

    @property
    def imag(self):
        return SR(_ZERO)

    # elementary functions (called by NumPy object loops) -------------------
    def sqrt(self):
        c = cur()
        e = simp(self.e)
        if is_const(e):
            f = frac_of(e)
            if f >= 0:
                from math import isqrt
                a, b = f.numerator, f.denominator
                if isqrt(a) ** 2 == a and isqrt(b) ** 2 == b:
                    return SR(z3.Q(isqrt(a), isqrt(b)))
        key = ("sqrt", canon(e).sexpr())
        if key in c.data:
            return SR(c.data[key])
        tol = getattr(c, "uf_tol", None)
        if tol is not None:
            # harness switch (C28): radicands that agree up to `tol` times their largest coefficient share one root
            from .harness import poly_of
            from fractions import Fraction
            one = z3.RealVal(1)
            try:
                for (n2, d2, s2) in c.data.get("sqrt_list", []):
                    pa = poly_of(self.n * (d2 if d2 is not None else one))
                    pb = poly_of(n2 * (self.d if self.d is not None else one))
                    scale = max([abs(v) for v in pa.values()] + [abs(v) for v in pb.values()] + [Fraction(0)])
                    if all(abs(pa.get(m, Fraction(0)) - pb.get(m, Fraction(0))) <= Fraction(tol) * scale for m in set(pa) | set(pb)):
                        c.data[key] = s2
                        return SR(s2)
            except HarnessError:
                pass
        s = c.fresh("sqrt")
        if tol is not None:
            c.data.setdefault("sqrt_list", []).append((self.n, self.d, s))
        if self.d is None:
            c.need(self.n >= 0)
            c.pc.append(z3.And(s >= 0, s * s == self.n))
        else:
            c.need(self.n * self.d >= 0)
            c.pc.append(z3.And(s >= 0, s * s * self.d == self.n))
        c.data[key] = s
        c.data[("sqrtof", s.sexpr())] = self
        return SR(s)

    def exp(self):
        return SR(_exp_term(self.e))

    def log(self):
        return SR(_log_term(self.e))

    def sin(self):
        return SR(_sin_term(self.e))

    def cos(self):
        return SR(_cos_term(self.e))

    def tan(self):
        return self.sin() / self.cos()

    def arctan(self):
        return SR(_atan_term(self.e))

    def sinh(self):
        return (self.exp() - (-self).exp()) / 2

    def cosh(self):
        return (self.exp() + (-self).exp()) / 2

    def tanh(self):
        a, b = self.exp(), (-self).exp()
        return (a - b) / (a + b)

    def expm1(self):
        return self.exp() - 1

    def log1p(self):
        return (self + 1).log()

    def log10(self):
        return self.log() / SR(q(10)).log()

    def log2(self):
        return self.log() / SR(q(2)).log()

    def exp2(self):
        return (self * SR(q(2)).log()).exp()

    def square(self):
        return self * self

    def reciprocal(self):
        return 1 / self

    def absolute(self):
        return abs(self)

    fabs = absolute

    def sign(self):
        e = self.n if self.d is None else self.n * self.d
        return SR(z3.If(e > 0, _ONE, z3.If(e < 0, -_ONE, _ZERO)))

    def ncdf(self):
        return SR(_phi_term(self.e))

    def erf(self):
        return SR(_erfu_term(self.e))

    def erfc(self):
        return 1 - self.erf()

    def isnan(self):
        return False

    def isfinite(self):
        return True

    def isinf(self):
        return False

    def maximum(self, o):
        o = _lift(o)
        c = (self >= o).e
        if self.d is None and o.d is None:
            return SR(z3.If(c, self.n, o.n))
        return SR(z3.If(c, self.e, o.e))

    def minimum(self, o):
        o = _lift(o)
        c = (self <= o).e
        if self.d is None and o.d is None:
            return SR(z3.If(c, self.n, o.n))
        return SR(z3.If(c, self.e, o.e))


def ite(cond, a, b):
    """symbolic if-then-else on scalars (no fork)"""
    if isinstance(a, SI) or isinstance(b, SI):
        ea, eb = SI._o(a), SI._o(b)
        if ea is not None and eb is not None:
            ce = cond.e if isinstance(cond, SB) else z3.BoolVal(bool(cond))
            return SI(z3.If(ce, ea, eb))
    a, b = _lift(a), _lift(b)
    ce = cond.e if isinstance(cond, SB) else z3.BoolVal(bool(cond))
    if isinstance(a, SC) or isinstance(b, SC):
        a, b = SC._c(a), SC._c(b)
        return SC(ite(cond, a.r, b.r), ite(cond, a.i, b.i))
    if a.d is None and b.d is None:
        return SR(z3.If(ce, a.n, b.n))
    if _same(a.d, b.d):
        return SR(z3.If(ce, a.n, b.n), a.d)
    return SR(z3.If(ce, a.e, b.e))


class SI(_Base, numbers.Integral):
    """symbolic integer scalar (z3 Int sort): index arithmetic with Python/JAX semantics"""
    __slots__ = ("e",)
    dtype = np.dtype(object)
    is_int = True

    def __init__(self, e):
        self.e = e if isinstance(e, z3.ArithRef) else z3.IntVal(int(e))

    @staticmethod
    def _o(o):
        if isinstance(o, SI):
            return o.e
        if isinstance(o, (bool, np.bool_)):
            return z3.IntVal(int(o))
        if isinstance(o, (int, np.integer)):
            return z3.IntVal(int(o))
        if isinstance(o, SB):
            return z3.If(o.e, z3.IntVal(1), z3.IntVal(0))
        return None

    def _real(self):
        return SR(z3.ToReal(self.e))

    def _bin(self, o, f, rf=None):
        e = SI._o(o)
        if e is not None:
            return SI(f(self.e, e))
        l = _lift(o)
        if l is None:
            return NotImplemented
        return rf(self._real(), l)

    def __add__(self, o):
        return self._bin(o, lambda a, b: a + b, lambda a, b: a + b)

    __radd__ = __add__

    def __sub__(self, o):
        return self._bin(o, lambda a, b: a - b, lambda a, b: a - b)

    def __rsub__(self, o):
        return self._bin(o, lambda a, b: b - a, lambda a, b: b - a)

    def __mul__(self, o):
        return self._bin(o, lambda a, b: a * b, lambda a, b: a * b)

    __rmul__ = __mul__

    def __neg__(self):
        return SI(-self.e)

    def __pos__(self):
        return self

    def __abs__(self):
        return SI(z3.If(self.e >= 0, self.e, -self.e))

    def __truediv__(self, o):
        return self._real() / (o._real() if isinstance(o, SI) else o)

    def __rtruediv__(self, o):
        return _lift(o) / self._real()

    # Python semantics: floor division and non-negative remainder for positive divisors (z3's div/mod are Euclidean)
    def __floordiv__(self, o):
        e = SI._o(o)
        if e is None:
            raise TypeError("symbolic floordiv by a non-integer")
        cur().need(e != 0)
        return SI(z3.If(e > 0, self.e / e, (-self.e) / (-e)))

    def __rfloordiv__(self, o):
        return SI(SI._o(o)) // self

    def __mod__(self, o):
        e = SI._o(o)
        if e is None:
            raise TypeError("symbolic mod by a non-integer")
        cur().need(e != 0)
        return SI(z3.If(e > 0, self.e % e, -((-self.e) % (-e))))

    def __rmod__(self, o):
        return SI(SI._o(o)) % self

    def trunc_div(self, o):
        """C / XLA semantics: rounds toward zero"""
        e = SI._o(o)
        cur().need(e != 0)
        a, b = self.e, e
        q_ = z3.If(a >= 0, z3.If(b > 0, a / b, -(a / (-b))), z3.If(b > 0, -((-a) / b), (-a) / (-b)))
        return SI(q_)

    def trunc_rem(self, o):
        e = SI._o(o)
        return SI(self.e - e * self.trunc_div(o).e)

    def __pow__(self, n, mod=None):
        if isinstance(n, (int, np.integer)) and n >= 0:
            r = SI(1)
            for _ in range(int(n)):
                r = r * self
            return r
        return self._real() ** n

    def _cmp(self, o, op):
        e = SI._o(o)
        if e is not None:
            return SB(op(self.e, e))
        l = _lift(o)
        if l is None:
            return NotImplemented
        return op(self._real(), l)

    def __lt__(self, o):
        return self._cmp(o, lambda a, b: a < b)

    def __le__(self, o):
        return self._cmp(o, lambda a, b: a <= b)

    def __gt__(self, o):
        return self._cmp(o, lambda a, b: a > b)

    def __ge__(self, o):
        return self._cmp(o, lambda a, b: a >= b)

    def __eq__(self, o):
        return self._cmp(o, lambda a, b: a == b)

    def __ne__(self, o):
        r = self.__eq__(o)
        return r if r is NotImplemented else ~r

    def __bool__(self):
        return bool(self != 0)

    def __int__(self):
        e = simp(self.e)
        if z3.is_int_value(e):
            return e.as_long()
        raise TypeError("symbolic integer realised (int)")

    __index__ = __int__

    def __float__(self):
        return float(int(self))

    def __repr__(self):
        return f"SI({simp(self.e)})"

    def sign(self):
        return SI(z3.If(self.e > 0, z3.IntVal(1), z3.If(self.e < 0, z3.IntVal(-1), z3.IntVal(0))))

    def maximum(self, o):
        e = SI._o(o)
        return SI(z3.If(self.e >= e, self.e, e)) if e is not None else self._real().maximum(o)

    def minimum(self, o):
        e = SI._o(o)
        return SI(z3.If(self.e <= e, self.e, e)) if e is not None else self._real().minimum(o)

    # unused abstract methods of numbers.Integral
    def __and__(self, o): raise TypeError("bit operation on a symbolic integer")
    __rand__ = __or__ = __ror__ = __xor__ = __rxor__ = __lshift__ = __rlshift__ = __rshift__ = __rrshift__ = __and__

    def __invert__(self): raise TypeError("bit operation on a symbolic integer")

    def __rpow__(self, o): raise TypeError("symbolic exponent")

    def __trunc__(self): return int(self)

    def __floor__(self): return int(self)

    def __ceil__(self): return int(self)

    def __round__(self, n=None): return self


def ints(name, shape=()):
    if shape == ():
        return SI(z3.Int(name))
    a = np.empty(shape, dtype=object)
    for idx in np.ndindex(*shape):
        a[idx] = SI(z3.Int(name + "_" + "_".join(map(str, idx))))
    return a.view(SymArr)


class SC(_Base, numbers.Complex):
    """symbolic complex scalar = pair of symbolic reals"""
    __slots__ = ("r", "i")
    dtype = np.dtype(object)

    def __init__(self, re, im=None):
        self.r = re if isinstance(re, SR) else SR(re)
        if im is None:
            im = SR(_ZERO)
        self.i = im if isinstance(im, SR) else SR(im)

    @property
    def re(self):
        return self.r.e

    @property
    def im(self):
        return self.i.e

    @staticmethod
    def _c(o):
        o = _lift(o)
        if o is None:
            return None
        if isinstance(o, SR):
            return SC(o, SR(_ZERO))
        return o

    def __add__(self, o):
        o = SC._c(o)
        return NotImplemented if o is None else SC(self.r + o.r, self.i + o.i)

    __radd__ = __add__

    def __sub__(self, o):
        o = SC._c(o)
        return NotImplemented if o is None else SC(self.r - o.r, self.i - o.i)

    def __rsub__(self, o):
        o = SC._c(o)
        return NotImplemented if o is None else SC(o.r - self.r, o.i - self.i)

    def __mul__(self, o):
        o = SC._c(o)
        if o is None:
            return NotImplemented
        return SC(self.r * o.r - self.i * o.i, self.r * o.i + self.i * o.r)

    __rmul__ = __mul__

    def __truediv__(self, o):
        o = SC._c(o)
        if o is None:
            return NotImplemented
        if _cval(o.i.n) == 0:
            return SC(self.r / o.r, self.i / o.r)
        if DIVMODE[0] == "let":
            c = cur()
            key = ("cdiv", self.re.sexpr(), self.im.sexpr(), o.re.sexpr(), o.im.sexpr())
            if key in c.data:
                return c.data[key]
            c.need(z3.Or(o.re != 0, o.im != 0))
            qr, qi = c.fresh("quo"), c.fresh("quo")
            c.pc.append(qr * o.re - qi * o.im == self.re)
            c.pc.append(qr * o.im + qi * o.re == self.im)
            res = SC(SR(qr), SR(qi))
            c.data[key] = res
            return res
        d = o.r * o.r + o.i * o.i
        n = self * o.conjugate()
        return SC(n.r / d, n.i / d)

    def __rtruediv__(self, o):
        o = SC._c(o)
        return NotImplemented if o is None else o / self

    def __neg__(self):
        return SC(-self.r, -self.i)

    def __pos__(self):
        return self

    def __abs__(self):
        return (self.r * self.r + self.i * self.i).sqrt()

    def __pow__(self, n, mod=None):
        if isinstance(n, SR) and is_const(simp(n.e)):
            n = frac_of(simp(n.e))
        if isinstance(n, (float, np.floating)):
            n = Fraction(float(n))
        if isinstance(n, (int, np.integer, Fraction)) and Fraction(n).denominator == 1:
            k = int(n)
            r = SC(SR(_ONE))
            for _ in range(abs(k)):
                r = r * self
            return r if k >= 0 else SC(SR(_ONE)) / r
        raise TypeError("complex power with non-integer exponent not encodable")

    def __rpow__(self, o):
        raise TypeError("complex exponent not encodable")

    def __eq__(self, o):
        o = SC._c(o)
        if o is None:
            return NotImplemented
        return SB(z3.And(self.r.eq_term(o.r), self.i.eq_term(o.i)))

    def __ne__(self, o):
        r = self.__eq__(o)
        return r if r is NotImplemented else ~r

    def __bool__(self):
        return bool(self != 0)

    # NumPy orders complex numbers lexicographically; NIFTy only compares
    # complex scalars after checking that the imaginary part vanishes.
    def _lex(self, o, strict, less):
        o = SC._c(o)
        if o is None:
            return NotImplemented
        if less:
            first = (self.r < o.r).e
            second = ((self.i < o.i) if strict else (self.i <= o.i)).e
        else:
            first = (self.r > o.r).e
            second = ((self.i > o.i) if strict else (self.i >= o.i)).e
        return SB(z3.Or(first, z3.And(self.r.eq_term(o.r), second)))

    def __lt__(self, o):
        return self._lex(o, True, True)

    def __le__(self, o):
        return self._lex(o, False, True)

    def __gt__(self, o):
        return self._lex(o, True, False)

    def __ge__(self, o):
        return self._lex(o, False, False)

    def __complex__(self):
        return complex(float(self.r), float(self.i))

    def __float__(self):
        raise TypeError("complex symbolic value realised (float)")

    def __repr__(self):
        return f"SC({simp(self.re)}, {simp(self.im)})"

    def conjugate(self):
        return SC(self.r, -self.i)

    conj = conjugate

    @property
    def real(self):
        return self.r

    @property
    def imag(self):
        return self.i

    def sqrt(self):
        if _cval(self.i.n) == 0:
            # real non-negative value carried in a complex scalar (e.g. a variance)
            return SC(self.r.sqrt())
        im = z3.simplify(self.i.n, som=True)
        if _cval(im) == 0:
            return SC(self.r.sqrt())
        raise TypeError("complex square root not encodable")

    def exp(self):
        m = self.r.exp()
        return SC(m * self.i.cos(), m * self.i.sin())

    def sin(self):
        # sin(a+ib) = sin a cosh b + i cos a sinh b
        a, b = self.r, self.i
        return SC(a.sin() * b.cosh(), a.cos() * b.sinh())

    def cos(self):
        a, b = self.r, self.i
        return SC(a.cos() * b.cosh(), -(a.sin() * b.sinh()))

    def sinh(self):
        return (self.exp() - (-self).exp()) / 2

    def cosh(self):
        return (self.exp() + (-self).exp()) / 2

    def tanh(self):
        a, b = self.exp(), (-self).exp()
        return (a - b) / (a + b)

    def tan(self):
        return self.sin() / self.cos()

    def expm1(self):
        return self.exp() - 1

    def square(self):
        return self * self

    def reciprocal(self):
        return 1 / self

    def absolute(self):
        return abs(self)

    def isnan(self):
        return False

    def isfinite(self):
        return True

    def isinf(self):
        return False


# --------------------------------------------------------------------------
# object-array container with correct .real/.imag for symbolic complex


class SymArr(np.ndarray):
    """ndarray(dtype=object) whose ``real``/``imag`` go through the elements.

    NumPy's own ``.real`` on an object array returns the array itself and
    ``.imag`` returns zeros, which is wrong for symbolic complex entries."""

    def __array_finalize__(self, obj):
        pass

    def astype(self, dtype, *a, **k):
        """coercion of symbolic entries to a floating / complex dtype is a no-op (the engine's reals stand for floats)"""
        if self.dtype == object and np.dtype(dtype).kind in "fc" and any(isinstance(v, (SR, SC)) for v in self.reshape(-1)):
            return self if k.get("copy", True) is False else self.copy()
        return np.ndarray.astype(self, dtype, *a, **k)

    @property
    def real(self):
        if self.dtype != object:
            return np.asarray(self).real
        out = np.empty(self.shape, dtype=object)
        for idx in np.ndindex(*self.shape):
            v = np.ndarray.__getitem__(self, idx)
            out[idx] = v.real if hasattr(v, "real") else v
        return out.view(SymArr)

    @property
    def imag(self):
        if self.dtype != object:
            return np.asarray(self).imag
        out = np.empty(self.shape, dtype=object)
        for idx in np.ndindex(*self.shape):
            v = np.ndarray.__getitem__(self, idx)
            out[idx] = v.imag if hasattr(v, "imag") else 0
        return out.view(SymArr)


def symarr(a):
    a = np.asarray(a, dtype=object) if not isinstance(a, np.ndarray) else a
    return a.view(SymArr)


def reals(name, shape=()):
    """fresh symbolic real array (or scalar for shape ())"""
    if shape == ():
        return SR(z3.Real(name))
    a = np.empty(shape, dtype=object)
    for idx in np.ndindex(*shape):
        a[idx] = SR(z3.Real(name + "_" + "_".join(map(str, idx))))
    return a.view(SymArr)


def complexes(name, shape=()):
    if shape == ():
        return SC(SR(z3.Real(name + "_re")), SR(z3.Real(name + "_im")))
    a = np.empty(shape, dtype=object)
    for idx in np.ndindex(*shape):
        nm = name + "_" + "_".join(map(str, idx))
        a[idx] = SC(SR(z3.Real(nm + "_re")), SR(z3.Real(nm + "_im")))
    return a.view(SymArr)


# --------------------------------------------------------------------------
# exploration


class Path:
    __slots__ = ("ctx", "result", "error")

    def __init__(self, ctx, result, error):
        self.ctx, self.result, self.error = ctx, result, error


def explore(fn, assumptions=(), max_paths=256, branch_timeout_ms=20000,
            max_decisions=400, expected_exceptions=(Exception,)):
    """Run ``fn`` once per feasible path.  Returns (paths, complete).

    ``fn`` is called with the live ``Ctx``.  Exceptions raised by the code under
    test (subclasses of ``expected_exceptions``) end the path and are recorded;
    ``Inconclusive`` ends the path and marks the exploration incomplete."""
    work = [[]]
    out = []
    complete = True
    while work:
        if len(out) >= max_paths:
            complete = False
            break
        prefix = work.pop()
        c = Ctx(prefix, assumptions, branch_timeout_ms, max_decisions)
        Ctx.cur = c
        try:
            res = fn(c)
            out.append(Path(c, res, None))
        except Infeasible:
            pass
        except Inconclusive as e:
            complete = False
            out.append(Path(c, None, e))
        except HarnessError:
            raise
        except expected_exceptions as e:
            out.append(Path(c, None, e))
        finally:
            Ctx.cur = None
        work.extend(c.pending)
    return out, complete


def model_values(model, names=None):
    """z3 model -> {name: Fraction} for all real/int constants"""
    out = {}
    if model is None:
        return out
    if isinstance(model, dict):
        return {k: v for k, v in model.items() if isinstance(v, Fraction)}
    for d in model.decls():
        if d.arity() != 0:
            continue
        try:
            out[d.name()] = frac_of(model[d])
        except Exception:
            pass
    return out
