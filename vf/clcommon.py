"""helpers shared by the nifty.cl (front end A) property modules"""
import contextlib
import io
import os
import sys

import numpy as np

REPO = os.environ.get("VERIF_REPO", "/repo")
if REPO not in sys.path:
    sys.path.insert(0, REPO)

import nifty.cl as ift  # noqa: E402

from . import shims_cl  # noqa: E402
from . import symcore as sc  # noqa: E402

assert os.path.realpath(ift.__file__).startswith(os.path.realpath(REPO)), \
    f"nifty imported from {ift.__file__}, expected {REPO}"


def setup_cl():
    shims_cl.install()
    import logging
    ift.logger.setLevel(logging.ERROR)


def field_of(dom, arr):
    dom = ift.DomainTuple.make(dom)
    arr = np.asarray(arr) if not isinstance(arr, np.ndarray) else arr
    if arr.dtype == object:
        arr = arr.view(sc.SymArr)
    return ift.makeField(dom, arr.reshape(dom.shape))


def mfield_of(dom, arrs):
    return ift.MultiField.from_dict({k: field_of(dom[k], arrs[k]) for k in dom.keys()}, dom)


def flat_of(f):
    """Field / MultiField -> 1-D array (keys in domain order)"""
    if isinstance(f, ift.MultiField):
        parts = [np.asarray(f[k].val.val).reshape(-1) for k in f.domain.keys()]
        return np.concatenate(parts) if parts else np.zeros(0)
    if isinstance(f, ift.Field):
        return np.asarray(f.val.val).reshape(-1)
    return np.asarray(f).reshape(-1)


def unflat(dom, x):
    """flat 1-D array -> Field / MultiField on dom (keys in domain order)"""
    if isinstance(dom, ift.MultiDomain):
        out = {}
        pos = 0
        for k in dom.keys():
            sz = dom[k].size
            out[k] = field_of(dom[k], x[pos:pos + sz].reshape(dom[k].shape))
            pos += sz
        return ift.MultiField.from_dict(out, dom)
    return field_of(dom, x.reshape(dom.shape))


def vdot_flat(a, b):
    """sum conj(a_i) b_i on flat arrays (independent of NIFTy's vdot)"""
    r = 0
    for u, v in zip(a, b):
        cu = u.conjugate() if hasattr(u, "conjugate") else u
        r = r + cu * v
    return r


@contextlib.contextmanager
def quiet():
    old = sys.stdout
    sys.stdout = io.StringIO()
    try:
        yield
    finally:
        sys.stdout = old
