"""Harness layer: symbolic and concrete back ends sharing one harness body.

A *harness* is a function ``h(B, **desc)`` that builds a scenario from the JSON
descriptor ``desc`` using the real NIFTy API, takes its numeric inputs from the
back end ``B`` and states obligations through ``B.eq/holds``.  It is run

* symbolically (``SymB``): inputs are z3 reals, the harness is re-executed once
  per feasible path, every obligation is a solver query
  ``path condition AND side conditions AND NOT obligation`` (must be unsat);
* concretely (``ConcB``): inputs are float64/complex128 arrays filled from a
  solver model -- this *is* the replay against the unmodified code (all shims
  dispatch on dtype and are inert for float arrays).
"""
import fnmatch
import hashlib
import json
import os
import time
import traceback
from fractions import Fraction

import numpy as np
import z3

from . import symcore as sc
from .symcore import SR, SC, SB

VERIF_ROOT = os.path.dirname(os.path.dirname(os.path.abspath(__file__)))
OBL_TIMEOUT_MS = int(os.environ.get("VERIF_OBL_TIMEOUT_MS", "30000"))


class ReplayMismatch(Exception):
    pass


def exc_origin(e):
    """'repo' if the innermost repo/verif frame of the traceback is NIFTy code,
    'engine' if it is the symbolic engine / a shim (called from NIFTy code: an
    encoding limit), 'harness' if it is property-harness code (a harness bug)."""
    repo = os.path.realpath(os.environ.get("VERIF_REPO", "/repo"))
    last = "harness"
    tb = e.__traceback__
    while tb is not None:
        fn = os.path.realpath(tb.tb_frame.f_code.co_filename)
        if fn.startswith(repo + os.sep):
            last = "repo"
        elif fn.startswith(VERIF_ROOT + os.sep):
            base = os.path.basename(fn)
            last = "engine" if base in ("symcore.py", "shims_cl.py", "jaxpr_interp.py", "shims_re.py") else "harness"
        tb = tb.tb_next
    return last


def _flat(x):
    """Field / MultiField / AnyArray / ndarray / scalar / list -> flat list of scalars"""
    if x is None:
        return []
    if isinstance(x, (SR, SC, SB, sc.SI, int, float, complex, np.number, bool, np.bool_, Fraction)):
        return [x]
    if isinstance(x, dict):
        out = []
        for k in sorted(x):
            out += _flat(x[k])
        return out
    if isinstance(x, (list, tuple)):
        out = []
        for v in x:
            out += _flat(v)
        return out
    if isinstance(x, np.ndarray):
        return [x[idx] for idx in np.ndindex(*x.shape)] if x.shape != () else [x[()]]
    # nifty objects
    if hasattr(x, "keys") and hasattr(x, "values") and hasattr(x, "domain"):  # MultiField
        out = []
        for k in sorted(x.keys()):
            out += _flat(x[k])
        return out
    if hasattr(x, "asnumpy"):
        return _flat(x.asnumpy())
    if hasattr(x, "val") and hasattr(x, "domain"):
        return _flat(x.val)
    if hasattr(x, "__array__") or hasattr(x, "shape"):
        return _flat(np.asarray(x))
    raise sc.HarnessError(f"cannot flatten {type(x)}")


def _eq_terms(u, v):
    """scalars u, v -> list of division-free z3 equalities equivalent to u == v"""
    if isinstance(u, sc.SI) or isinstance(v, sc.SI):
        eu, ev = sc.SI._o(u), sc.SI._o(v)
        if eu is not None and ev is not None:
            return [eu == ev]
    u, v = sc._lift(u), sc._lift(v)
    if u is None or v is None:
        raise sc.HarnessError("non-numeric value in obligation")
    if isinstance(u, SC) or isinstance(v, SC):
        u, v = SC._c(u), SC._c(v)
        return [u.r.eq_term(v.r), u.i.eq_term(v.i)]
    return [u.eq_term(v)]


def poly_identity(eq):
    """True if the equality a == b is a polynomial identity by z3's
    sum-of-monomials normal form (decided by the solver's rewriter)."""
    if not z3.is_eq(eq):
        return z3.is_true(eq)
    a, b = eq.arg(0), eq.arg(1)
    if not z3.is_arith(a):
        return False
    try:
        d = z3.simplify(a - b, som=True)
    except z3.Z3Exception:
        return False
    if z3.is_int_value(d):
        return d.as_long() == 0
    return z3.is_rational_value(d) and d.numerator_as_long() == 0


def poly_of(e):
    """z3 real term -> {sorted tuple of atom names: Fraction coefficient} (own expansion)"""
    def mul(p, q_):
        out = {}
        for m1, c1 in p.items():
            for m2, c2 in q_.items():
                m = tuple(sorted(m1 + m2))
                out[m] = out.get(m, Fraction(0)) + c1 * c2
        return out

    def add(p, q_, sign=1):
        out = dict(p)
        for m, c in q_.items():
            out[m] = out.get(m, Fraction(0)) + sign * c
        return out

    def rec(t):
        if z3.is_rational_value(t) or z3.is_int_value(t):
            return {(): sc.frac_of(t)}
        k = t.decl().kind()
        ch = t.children()
        if k == z3.Z3_OP_ADD:
            r = {}
            for c in ch:
                r = add(r, rec(c))
            return r
        if k == z3.Z3_OP_SUB:
            r = rec(ch[0])
            for c in ch[1:]:
                r = add(r, rec(c), -1)
            return r
        if k == z3.Z3_OP_UMINUS:
            return {m: -c for m, c in rec(ch[0]).items()}
        if k == z3.Z3_OP_MUL:
            r = {(): Fraction(1)}
            for c in ch:
                r = mul(r, rec(c))
            return r
        if k == z3.Z3_OP_POWER and z3.is_int_value(ch[1]) or (k == z3.Z3_OP_POWER and z3.is_rational_value(ch[1]) and sc.frac_of(ch[1]).denominator == 1):
            n = int(sc.frac_of(ch[1]))
            if n >= 0:
                r = {(): Fraction(1)}
                b = rec(ch[0])
                for _ in range(n):
                    r = mul(r, b)
                return r
        if k == z3.Z3_OP_TO_REAL:
            return rec(ch[0])
        return {(t.sexpr(),): Fraction(1)}
    return {m: c for m, c in rec(e).items() if c != 0}


class _Setup:
    """``with B.setup():`` -- scenario construction; an exception here is a
    harness/configuration error, never a verdict about the code under test."""

    def __enter__(self):
        return self

    def __exit__(self, et, ev, tb):
        if et is not None and issubclass(et, Exception) and not issubclass(et, sc.HarnessError):
            raise sc.HarnessError(f"scenario construction failed: {et.__name__}: {ev}") from ev
        return False


class SymB:
    """symbolic back end (one instance per scenario; per-path state in Ctx)"""
    mode = "sym"

    def __init__(self, rec):
        self.rec = rec            # ScenarioRecord

    # inputs ------------------------------------------------------------------
    def reals(self, name, shape=()):
        return sc.reals(name, tuple(shape) if shape != () else ())

    def complexes(self, name, shape=()):
        return sc.complexes(name, tuple(shape) if shape != () else ())

    def ints(self, name, shape=()):
        return sc.ints(name, tuple(shape) if shape != () else ())

    def values(self, name, shape=(), cplx=False):
        return self.complexes(name, shape) if cplx else self.reals(name, shape)

    def const(self, v):
        return v

    # assumptions ----------------------------------------------------------------
    def assume(self, cond):
        if isinstance(cond, (bool, np.bool_)):
            if not cond:
                raise sc.Infeasible()
            return
        sc.cur().assume(cond)

    def assume_all(self, conds):
        for c in _flat(conds):
            self.assume(c)

    # obligations ------------------------------------------------------------------
    def holds(self, label, cond):
        if isinstance(cond, (bool, np.bool_)):
            cond = z3.BoolVal(bool(cond))
        elif isinstance(cond, SB):
            cond = cond.e
        self.rec.obligation(label, cond)

    def eq(self, label, a, b):
        fa, fb = _flat(a), _flat(b)
        if len(fa) != len(fb):
            self.rec.obligation(label + ":size", z3.BoolVal(False),
                                note=f"sizes differ {len(fa)} vs {len(fb)}")
            return
        cs = []
        for u, v in zip(fa, fb):
            for t in _eq_terms(u, v):
                if not z3.is_true(t):
                    cs.append(t)
        self.rec.obligation(label, z3.And(*cs) if len(cs) != 1 else cs[0], parts=cs)

    def le(self, label, a, b):
        a, b = sc._lift(a), sc._lift(b)
        self.rec.obligation(label, (a <= b).e)

    def close(self, label, a, b, rel=1e-9):
        """a == b as polynomials in the symbolic inputs up to a relative perturbation
        `rel` of every coefficient.  For code that bakes *rounded* float constants
        (1/volume, 1/bin size) into its result: the exact rational value of such a
        constant differs from the ideal one in the last bit.  Decided by expansion
        into monomials (no solver call); recorded as a 'tolerant' obligation."""
        fa, fb = _flat(a), _flat(b)
        if len(fa) != len(fb):
            self.rec.obligation(label + ":size", z3.BoolVal(False), note=f"sizes differ {len(fa)} vs {len(fb)}")
            return
        ok = True
        for u, v in zip(fa, fb):
            u, v = sc._lift(u), sc._lift(v)
            if isinstance(u, SC) or isinstance(v, SC):
                u, v = SC._c(u), SC._c(v)
                pairs = [(u.r, v.r), (u.i, v.i)]
            else:
                pairs = [(u, v)]
            for (x, y) in pairs:
                if x.d is not None or y.d is not None:
                    raise sc.HarnessError("close(): rational functions not supported")
                pa, pb = poly_of(x.n), poly_of(y.n)
                for m in set(pa) | set(pb):
                    ca, cb = pa.get(m, Fraction(0)), pb.get(m, Fraction(0))
                    if abs(ca - cb) > Fraction(rel) * max(abs(ca), abs(cb)):
                        ok = False
        self.rec.tolerant = getattr(self.rec, "tolerant", 0) + 1
        self.rec.obligation(label + " [tolerant 1e-9: rounded float constants]", z3.BoolVal(ok))

    def close_under(self, label, a, b, rel=1e-9):
        """|a - b| <= rel * (|a| + |b|) under the current assumptions (solver obligation)"""
        cs = []
        for u, v in zip(_flat(a), _flat(b)):
            u, v = sc._lift(u), sc._lift(v)
            d = u - v
            t = (abs(u) + abs(v)) * sc.SR(sc.q(Fraction(rel)))
            cs.append(z3.And((d <= t).e, ((-d) <= t).e))
        self.rec.obligation(label + " [tolerant 1e-9: rounded float constants]", z3.And(*cs) if len(cs) != 1 else cs[0], parts=cs)

    def is_true(self, label, flag):
        """concrete Python-level fact (types, domains, capability masks)"""
        self.rec.obligation(label, z3.BoolVal(bool(flag)))

    def note(self, s):
        sc.cur().notes.append(s)

    def setup(self):
        return _Setup()

    def raises(self, label, exc, fn):
        """obligation: fn() raises exc (on this path)"""
        try:
            fn()
        except exc:
            self.rec.obligation(label, z3.BoolVal(True))
            return
        self.rec.obligation(label, z3.BoolVal(False))

    def snapshot(self, arr):
        return [v for v in _flat(arr)]

    def unchanged(self, label, snap, arr):
        """the array still holds the very same element objects"""
        now = _flat(arr)
        self.rec.obligation(label, z3.BoolVal(len(now) == len(snap) and all(a is b for a, b in zip(snap, now))))

    def ufun(self, fname, x):
        """value of an *uninterpreted* real function at the symbolic point x (list of SR for several
        arguments): a fresh variable '<fname>#k' per distinct argument, with congruence constraints"""
        c = sc.cur()
        xs = x if isinstance(x, (list, tuple)) else [x]
        args = [sc.canon(sc._lift(t).e) for t in xs]
        key = (fname, tuple(a.sexpr() for a in args))
        tab = c.data.setdefault("ufun", {})
        cnt = c.data.setdefault("ufun_calls", {})
        k = cnt.get(fname, 0)               # one index per CALL (keeps symbolic and concrete replay in step)
        cnt[fname] = k + 1
        if key in tab:
            return tab[key][1]
        v = z3.Real(f"{fname}#{k}")
        for kk, (a2, v2) in tab.items():
            if kk[0] == fname:
                c.pc.append(z3.Implies(z3.And(*[a == b for a, b in zip(args, a2)]), v == v2.e))
        tab[key] = (args, SR(v))
        return tab[key][1]

    def pick(self, name, lo, hi):
        """a symbolic integer in [lo, hi] concretised by solver-decided forking -> Python int (one path per feasible value)"""
        c = sc.cur()
        v = z3.Int(name)
        c.assume(z3.And(v >= lo, v <= hi))
        for i in range(lo, hi):
            if c.branch(v == i):
                return i
        c.assume(v == hi)
        return hi

    def concretize(self, si, lo, hi):
        """value of the symbolic integer expression ``si`` on this path (forks over [lo, hi])"""
        if not isinstance(si, sc.SI):
            return int(si)
        c = sc.cur()
        for i in range(lo, hi):
            if c.branch(si.e == i):
                return i
        c.assume(si.e == hi)
        return hi

    def fork(self, n, tag="choice"):
        """nondeterministic choice among range(n) (explored exhaustively)"""
        c = sc.cur()
        for i in range(n - 1):
            b = z3.Bool(f"{tag}!{len(c.taken)}_{i}")
            if c.branch(b):
                return i
        return n - 1


class ConcB:
    """concrete back end: float64 / complex128 inputs from a model"""
    mode = "conc"

    def __init__(self, model, rtol=1e-6):
        self.model = model or {}
        self.rtol = rtol
        self.failed = []          # labels whose concrete check failed
        self.checked = []
        self.assumption_broken = []
        self.choices = {}

    def _get(self, nm):
        if nm in self.model:
            return float(Fraction(self.model[nm]))
        h = int(hashlib.sha1(nm.encode()).hexdigest()[:8], 16)
        return 0.37 + (h % 1000) / 1000.0

    def reals(self, name, shape=()):
        if shape == ():
            return np.float64(self._get(name))
        a = np.empty(shape, dtype=np.float64)
        for idx in np.ndindex(*shape):
            a[idx] = self._get(name + "_" + "_".join(map(str, idx)))
        return a

    def ints(self, name, shape=()):
        if shape == ():
            return np.int64(int(round(self._get(name)))) if name in self.model else np.int64(0)
        a = np.zeros(shape, dtype=np.int64)
        for idx in np.ndindex(*shape):
            nm = name + "_" + "_".join(map(str, idx))
            a[idx] = int(round(self._get(nm))) if nm in self.model else 0
        return a

    def complexes(self, name, shape=()):
        if shape == ():
            return np.complex128(complex(self._get(name + "_re"), self._get(name + "_im")))
        a = np.empty(shape, dtype=np.complex128)
        for idx in np.ndindex(*shape):
            nm = name + "_" + "_".join(map(str, idx))
            a[idx] = complex(self._get(nm + "_re"), self._get(nm + "_im"))
        return a

    def values(self, name, shape=(), cplx=False):
        return self.complexes(name, shape) if cplx else self.reals(name, shape)

    def const(self, v):
        return v

    def assume(self, cond):
        if not bool(cond):
            self.assumption_broken.append(str(cond))

    def assume_all(self, conds):
        for c in _flat(conds):
            self.assume(c)

    def _num(self, x):
        return np.array([complex(v) for v in _flat(x)], dtype=np.complex128)

    def holds(self, label, cond):
        self.checked.append(label)
        if not bool(cond):
            self.failed.append(label)

    def eq(self, label, a, b):
        self.checked.append(label)
        fa, fb = self._num(a), self._num(b)
        if fa.shape != fb.shape:
            self.failed.append(label)
            return
        if fa.size == 0:
            return
        if not (np.all(np.isfinite(fa)) and np.all(np.isfinite(fb))):
            # non-finite replay values: not a confirmed discrepancy
            return
        scale = max(np.max(np.abs(fa)), np.max(np.abs(fb)), 1e-300)
        if np.max(np.abs(fa - fb)) > self.rtol * scale:
            self.failed.append(label)

    def close(self, label, a, b, rel=1e-9):
        self.eq(label + " [tolerant 1e-9: rounded float constants]", a, b)

    def close_under(self, label, a, b, rel=1e-9):
        self.eq(label + " [tolerant 1e-9: rounded float constants]", a, b)

    def le(self, label, a, b):
        self.checked.append(label)
        a, b = float(np.real(a)), float(np.real(b))
        if not (a <= b + self.rtol * max(abs(a), abs(b), 1e-300)):
            self.failed.append(label)

    def is_true(self, label, flag):
        self.checked.append(label)
        if not flag:
            self.failed.append(label)

    def note(self, s):
        pass

    def setup(self):
        return _Setup()

    def raises(self, label, exc, fn):
        self.checked.append(label)
        try:
            fn()
        except exc:
            return
        self.failed.append(label)

    def snapshot(self, arr):
        return np.array([complex(v) for v in _flat(arr)])

    def unchanged(self, label, snap, arr):
        self.checked.append(label)
        now = np.array([complex(v) for v in _flat(arr)])
        if now.shape != snap.shape or not np.array_equal(now, snap):
            self.failed.append(label)

    def ufun(self, fname, x):
        """replay of an uninterpreted function: the k-th distinct argument gets the model value of '<fname>#k'"""
        xs = [float(t) for t in (x if isinstance(x, (list, tuple)) else [x])]
        tab = self.__dict__.setdefault("_ufun", {})
        cnt = self.__dict__.setdefault("_ufun_calls", {})
        k = cnt.get(fname, 0)
        cnt[fname] = k + 1
        lst = tab.setdefault(fname, [])
        for (a2, v2) in lst:
            if all(abs(a - b) <= 1e-9 * max(abs(a), abs(b), 1e-300) for a, b in zip(xs, a2)):
                return v2
        v = np.float64(self._get(f"{fname}#{k}"))
        lst.append((xs, v))
        return v

    def pick(self, name, lo, hi):
        v = int(round(self._get(name))) if name in self.model else lo
        return min(max(v, lo), hi)

    def concretize(self, si, lo, hi):
        return int(si)

    def fork(self, n, tag="choice"):
        k = self.model.get("__choices__", [])
        i = len(self.choices)
        self.choices[i] = True
        return int(k[i]) if i < len(k) else 0


# --------------------------------------------------------------------------


class ScenarioRecord:
    """what happened while checking one scenario (picklable summary via .summary())"""

    def __init__(self, prop, harness, desc, obl_timeout_ms=None):
        self.prop, self.harness, self.desc = prop, harness, desc
        self.paths = 0
        self.error_paths = []
        self.obligations = 0
        self.discharged = 0
        self.trivial = 0
        self.inconclusive = []
        self.violations = []
        self.samples = []
        self.seen = set()
        self.complete = True
        self.t_solver = 0.0
        self.obl_timeout_ms = obl_timeout_ms or OBL_TIMEOUT_MS
        self.expected_raises = 0
        self.labels = {}

    def sid(self):
        return self.harness + ":" + json.dumps(self.desc, sort_keys=True, default=str)

    def obligation(self, label, cond, note=None, parts=None):
        c = sc.cur()
        cond = cond if isinstance(cond, z3.BoolRef) else z3.BoolVal(bool(cond))
        facts = c.facts()
        neg = z3.Not(cond)
        key = hashlib.sha1((label + "|" + "|".join(f.sexpr() for f in facts) + "|" + neg.sexpr()).encode()).hexdigest()
        if key in self.seen:
            return
        self.seen.add(key)
        self.obligations += 1
        self.labels[label] = self.labels.get(label, 0) + 1
        sneg = z3.simplify(neg)
        t0 = time.time()
        if parts is None:
            parts = list(cond.children()) if (z3.is_and(cond) and cond.num_args() > 1) else [cond]
        todo = []
        for ch in parts:
            if z3.is_true(ch) or z3.is_false(z3.simplify(z3.Not(ch))) or poly_identity(ch):
                continue
            todo.append(ch)
        if not todo:
            # every component normalised to 'true' by the solver's rewriter
            # (simplify / sum-of-monomials normal form)
            self.trivial += 1
            r, m = "unsat", None
        else:
            # refute each component on its own (orders of magnitude faster for
            # nlsat than the disjunction of the negations)
            r, m = "unsat", None
            for ch in todo:
                rc, mc = sc.check(facts + [z3.Not(ch)], self.obl_timeout_ms, want_model=True)
                if rc == "sat":
                    r, m = rc, mc
                    break
                if rc == "unknown":
                    r = "unknown"
        self.t_solver += time.time() - t0
        if len(self.samples) < 2 and todo:
            txt = sc.to_smt2(facts + [neg])
            if len(txt) < 6000:
                self.samples.append({"label": label, "smt2": txt})
        if r == "unsat":
            self.discharged += 1
        elif r == "sat":
            mv = {k: str(v) for k, v in sc.model_values(m).items()}
            mv["__choices__"] = [bool(x) for x in c.taken]
            self.violations.append({"label": label, "model": mv, "note": note,
                                    "path": [bool(x) for x in c.taken]})
        else:
            # counterexample *search* (can only find violations, never pass)
            found = None
            try:
                r2, m2 = sc.check(facts, min(self.obl_timeout_ms, 10000), want_model=True)
                if r2 == "sat":
                    found = {k: str(v) for k, v in sc.model_values(m2).items()}
            except Exception:
                found = None
            self.inconclusive.append({"label": label, "candidate_model": found})

    def summary(self):
        return {k: getattr(self, k) for k in
                ("prop", "harness", "desc", "paths", "error_paths", "obligations", "discharged",
                 "trivial", "inconclusive", "violations", "samples", "complete", "t_solver",
                 "expected_raises", "labels")}


def run_symbolic(prop, hname, hfn, desc, max_paths=256, branch_timeout_ms=20000,
                 obl_timeout_ms=None):
    rec = ScenarioRecord(prop, hname, desc, obl_timeout_ms)
    B = SymB(rec)

    def body(ctx):
        return hfn(B, **desc)

    t0 = time.time()
    paths, complete = sc.explore(body, max_paths=max_paths, branch_timeout_ms=branch_timeout_ms)
    rec.paths = len(paths)
    rec.complete = complete
    for p in paths:
        if p.error is not None:
            tb = "".join(traceback.format_exception(type(p.error), p.error, p.error.__traceback__)[-6:])
            r, m = sc.check(p.ctx.facts(), 10000, want_model=True)
            mv = None
            if r == "sat":
                mv = {k: str(v) for k, v in sc.model_values(m).items()}
                mv["__choices__"] = [bool(x) for x in p.ctx.taken]
            rec.error_paths.append({"type": type(p.error).__name__, "msg": str(p.error)[:300],
                                    "origin": exc_origin(p.error),
                                    "tb": tb[-1500:], "model": mv,
                                    "inconclusive": isinstance(p.error, sc.Inconclusive)})
    out = rec.summary()
    out["wall"] = time.time() - t0
    return out


def run_concrete(hfn, desc, model, rtol=1e-6):
    """replay: the same harness on float arrays from ``model``.

    Returns dict(failed=[labels], checked=[labels], raised=None|str, assumption_broken=[..])"""
    B = ConcB(model, rtol)
    raised = None
    origin = None
    old = np.seterr(all="ignore")
    try:
        hfn(B, **desc)
    except sc.HarnessError:
        raise
    except Exception as e:  # the real code raised on this concrete input
        raised = f"{type(e).__name__}: {e}"[:300]
        origin = exc_origin(e)
    finally:
        np.seterr(**old)
    return {"failed": B.failed, "checked": B.checked, "raised": raised, "raised_origin": origin,
            "assumption_broken": B.assumption_broken}
