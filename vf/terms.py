"""Operation-tree tracking on top of the symbolic reals.

TR is a symbolic real (SR) that also carries the TERM of floating-point operations that produced it.  Real arithmetic
is associative, IEEE arithmetic is not: two computations are bit-identical for all inputs if they perform the same
operations on the same operands in the same order, i.e. if their terms are identical (+ and * are commutative in IEEE
arithmetic, their operands are kept in a canonical order).  Properties that demand bit-identical results across
execution strategies (number of MPI tasks, ...) are decided on the terms; the SR part still feeds the solver."""
import numpy as np

from . import symcore as sc
from .symcore import SR


def term_of(o):
    if isinstance(o, TR):
        return o.t
    if isinstance(o, SR):
        return ("sr", sc.canon(o.e).sexpr())
    if isinstance(o, (bool, np.bool_)):
        return ("c", float(o))
    if isinstance(o, (int, float, np.integer, np.floating)):
        return ("c", float(o))
    return ("?", repr(o))


_COMM = {"__add__": "+", "__radd__": "+", "__mul__": "*", "__rmul__": "*"}
_BIN = {"__sub__": "-", "__truediv__": "/", "maximum": "max", "minimum": "min"}
_RBIN = {"__rsub__": "-", "__rtruediv__": "/"}


class TR(SR):
    __slots__ = ("t",)

    def __init__(self, n, d=None, t=None):
        super().__init__(n, d)
        self.t = t

    @staticmethod
    def leaf(sr, name):
        sr = sc._lift(sr)
        return TR(sr.n, sr.d, ("leaf", name))

    @staticmethod
    def _wrap(r, t):
        if r is NotImplemented:
            return r
        if not isinstance(r, SR):
            raise sc.HarnessError(f"operation tree lost: result of type {type(r).__name__}")
        return TR(r.n, r.d, t)

    def __pow__(self, n, mod=None):
        return TR._wrap(SR.__pow__(self, n), ("pow", self.t, term_of(n)))

    def __repr__(self):
        return f"TR({SR.__repr__(self)}, {self.t})"

    # comparisons / hashing are those of SR
    __hash__ = SR.__hash__


def _mk_comm(name, sym):
    base = getattr(SR, name)

    def f(self, o):
        a, b = self.t, term_of(o)
        if repr(a) > repr(b):
            a, b = b, a
        return TR._wrap(base(self, o), (sym, a, b))
    return f


def _mk_bin(name, sym, swap):
    base = getattr(SR, name)

    def f(self, o):
        a, b = self.t, term_of(o)
        if swap:
            a, b = b, a
        return TR._wrap(base(self, o), (sym, a, b))
    return f


def _mk_un(name):
    base = getattr(SR, name)

    def f(self):
        return TR._wrap(base(self), (name, self.t))
    return f


for _n, _s in _COMM.items():
    setattr(TR, _n, _mk_comm(_n, _s))
for _n, _s in _BIN.items():
    setattr(TR, _n, _mk_bin(_n, _s, False))
for _n, _s in _RBIN.items():
    setattr(TR, _n, _mk_bin(_n, _s, True))
for _n in ("__neg__", "__abs__", "sqrt", "exp", "log", "sin", "cos", "tan", "arctan", "sinh", "cosh", "tanh", "expm1", "log1p",
           "log10", "log2", "exp2", "square", "reciprocal", "absolute", "sign", "erf", "erfc", "ncdf"):
    if hasattr(SR, _n):
        setattr(TR, _n, _mk_un(_n))


def _ident(self):
    return self


TR.__pos__ = _ident
TR.conjugate = _ident
TR.conj = _ident


def leaves(arr, name):
    """object array of SR -> same shape array of TR leaves"""
    a = np.asarray(arr, dtype=object)
    out = np.empty(a.shape, dtype=object)
    for idx in np.ndindex(*a.shape):
        out[idx] = TR.leaf(a[idx], f"{name}{list(idx)}")
    return out.view(sc.SymArr)


def terms(x):
    """terms of every entry of an array-like of TR (a non-TR entry yields a marker that never compares equal to a TR term)"""
    out = []
    for v in np.asarray(x, dtype=object).reshape(-1):
        if isinstance(v, TR):
            out.append(v.t)
        elif isinstance(v, SR):
            c = sc._cval(v.e) if hasattr(sc, "_cval") else None
            if c is None:
                raise sc.HarnessError("operation tree lost on the way to a result: " + repr(v)[:200])
            out.append(("c", float(c)))
        elif isinstance(v, (int, float, np.integer, np.floating, bool, np.bool_)):
            out.append(("c", float(v)))
        else:
            raise sc.HarnessError("unexpected result entry " + repr(v)[:200])
    return out
