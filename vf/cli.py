"""vcheck entry point: python -m vf.cli <Cxx> [--tier quick|thorough] [--replay file] [--only substr]"""
import argparse
import importlib
import os
import sys

VERIF_ROOT = os.path.dirname(os.path.dirname(os.path.abspath(__file__)))


def main():
    ap = argparse.ArgumentParser()
    ap.add_argument("prop")
    ap.add_argument("--tier", default=os.environ.get("VERIF_TIER", "quick"))
    ap.add_argument("--replay")
    ap.add_argument("--only", help="run only scenarios whose key contains this substring")
    ap.add_argument("--limit", type=int)
    ap.add_argument("--list", action="store_true")
    a = ap.parse_args()
    from . import runner
    if a.replay:
        sys.exit(runner.replay_file(a.replay))
    prop = a.prop.upper()
    runner._worker_init(runner.REPO)
    mod = importlib.import_module(f"vf.props.{prop.lower()}")
    if hasattr(mod, "main"):
        sys.exit(mod.main(a.tier))
    seed = int(os.environ.get("VERIF_SEED", "0"))
    scen = mod.scenarios(a.tier, seed)
    if a.only:
        scen = [s for s in scen if a.only in runner.scenario_key(*s)]
    if a.limit:
        scen = scen[:a.limit]
    if a.list:
        for s in scen:
            print(runner.scenario_key(*s))
        return
    opts = dict(getattr(mod, "OPTS", {}).get(a.tier, {}))
    opts["tier"] = a.tier
    opts["subset"] = bool(a.only or a.limit)
    sys.exit(runner.run_property(prop, scen, opts, mod.META))


if __name__ == "__main__":
    main()
