#!/bin/bash
# Lazily create the overlay venv /verif/.venv (z3, cvc5, crosshair on top of /venv).
# Safe to call concurrently (flock). Offline: wheels from /opt/veriftools/wheels only.
set -e
VENV=/verif/.venv
STAMP=$VENV/.ready
if [ -f "$STAMP" ]; then exit 0; fi
exec 9>/verif/.venv.lock
flock 9
if [ -f "$STAMP" ]; then exit 0; fi
rm -rf "$VENV"
/venv/bin/python -m venv "$VENV" >/dev/null
SP=$("$VENV/bin/python" -c 'import site; print(site.getsitepackages()[0])')
echo "import site; site.addsitedir('/venv/lib/python3.12/site-packages')" > "$SP/_overlay.pth"
PIP_NO_INDEX=1 "$VENV/bin/pip" install -q --no-index --find-links /opt/veriftools/wheels z3-solver cvc5 crosshair-tool >/dev/null 2>&1 || \
PIP_NO_INDEX=1 "$VENV/bin/pip" install --no-index --find-links /opt/veriftools/wheels z3-solver cvc5 crosshair-tool
"$VENV/bin/python" -c 'import z3, numpy; import crosshair' 
touch "$STAMP"
