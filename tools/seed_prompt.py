#!/usr/bin/env python3
"""print the sub-agent prompt for a seeded-defect request (property text only; nothing from /verif)"""
import json, sys
pid = sys.argv[1]; wt = sys.argv[2]
for l in open('/verif/properties.jsonl'):
    d = json.loads(l)
    if d['id'] == pid:
        break
anch = d['anchors']
print(f"""You are helping evaluate a verification effort for the Python library NIFTy (Bayesian imaging; packages nifty.cl = NumPy, nifty.re = JAX).
You have your own scratch git worktree of the repository at {wt} (work ONLY there; never touch /repo or /verif, and do not read /verif).
Python interpreter with all dependencies: /venv/bin/python (run with `cd {wt} && PYTHONPATH={wt} /venv/bin/python ...`; check `import nifty; print(nifty.__file__)` points into {wt}). No network.

Here is a semantic property of the library that should hold:

  Title: {d['title']}
  Statement: {d['statement']}
  Quantified over: {d['quantifier']['text']}
  Code it is anchored in: {', '.join(anch['files'])}
  Mechanisms: {'; '.join(m['name'] + ' (' + m['where'] + ')' for m in anch['mechanism'])}

TASK: produce ONE realistic source change (a plausible programmer bug, a few lines) to the library code under {wt}/nifty that BREAKS this property, while
  (a) the package still imports, and
  (b) the repository's existing test suite still passes. The relevant tests live under {wt}/test; note that most nifty.cl tests error in setup in this sandbox because the MPI library cannot be loaded (that is the same with and without your change, and is fine); run at least the test files that exercise the code you touched, e.g. `cd {wt} && /venv/bin/python -m pytest -q -p no:cacheprovider -x --timeout=900 test/<relevant files>` and make sure the set of passing tests is unchanged. To make the nifty.cl tests really execute you may additionally put the directory /tmp/nompi FIRST on PYTHONPATH (it holds a stub `mpi4py` package that raises ImportError, so nifty falls back to its non-MPI path): `cd {wt} && PYTHONPATH=/tmp/nompi:{wt} /venv/bin/python -m pytest ...`; the suite must give the same passes/failures with and without your change either way. IMPORTANT: other people work in sibling worktrees of the same repository at the same time: NEVER use `git stash` (the stash is shared between worktrees); to compare with the original use `git diff -- nifty > /tmp/my_{pid}.diff; git apply -R /tmp/my_{pid}.diff; ...; git apply /tmp/my_{pid}.diff`. Do not run the whole test suite more than once (it is slow and the machine is shared); prefer the relevant test files.
The change must need something SPECIFIC to manifest -- an unusual input or configuration (e.g. complex factor with non-zero imaginary part, a particular combination of options, a boundary case such as convergence exactly at the iteration limit, a particular key subset, a multi-step sequence of operations, a particular interleaving/crash point, or two cooperating code sites that each look fine alone) -- NOT something that ordinary use would expose at once.
Also write a DEMONSTRATION: a small standalone script {wt}/demo_{pid}.py (using only the public API of the library) that exits 0 on the ORIGINAL code and exits non-zero (assertion failure) WITH your change. Verify both directions yourself (use `git apply -R` / `git apply` with your saved diff).

Deliverables (write these files, then answer with a short summary):
  {wt}/patch_{pid}.diff   -- output of `git diff -- nifty` for your change (only library files; not the demo)
  {wt}/demo_{pid}.py      -- the demonstration
  {wt}/meta_{pid}.json    -- {{"property": "{pid}", "summary": "...what was changed...", "needs": "...what it needs in order to manifest...", "tests_run": "...commands you ran and their result..."}}
Leave the change applied in the worktree's working tree when you finish (uncommitted). Keep it to a single small logical bug. Do not modify tests.""")
