#!/usr/bin/env python3
"""Regenerate /verif/MANIFEST.json from tools/manifest_table.py (keeps it schema-valid)."""
import json, os, sys
HERE = os.path.dirname(os.path.abspath(__file__))
sys.path.insert(0, HERE)
from manifest_table import CHECKS, NOT_APPLICABLE, NOTES

BASE = json.load(open("/root/.vp/BASELINE.json"))["cmd"] if os.path.exists("/root/.vp/BASELINE.json") else \
    "cd /repo && /venv/bin/python -m pytest -ra -q -p no:cacheprovider --timeout=900 --continue-on-collection-errors"
man = {
    "version": 1,
    "setup_cmd": "./vf/ensure_env.sh",
    "hooks": {
        "guard": "NIFTY_VERIF",
        "enable": "no source hooks: all stubs are applied by the harness process at run time (module-namespace patches, "
                  "recording communicator, crash-injection wrapper); checks import nifty from $VERIF_REPO (default /repo)",
        "baseline_off_cmd": BASE.replace(" --junitxml=<file>", ""),
        "source_commits": [],
        "add_only": True,
    },
    "engines": [
        {"name": "symcore+frontA", "path": "vf/symcore.py, vf/harness.py, vf/shims_cl.py, vf/smt.py",
         "serves_properties": [c["property_id"] for c in CHECKS if c.get("engine") == "A"],
         "kind_free_text": "symbolic execution of unmodified nifty.cl on NumPy object arrays of z3 real/complex "
                           "scalars, path forking by replay, obligations decided by an out-of-process z3 portfolio"},
        {"name": "jaxpr-interp", "path": "vf/jaxpr_interp.py",
         "serves_properties": [c["property_id"] for c in CHECKS if c.get("engine") == "B"],
         "kind_free_text": "symbolic interpretation of jax.make_jaxpr IR of nifty.re functions"},
        {"name": "crosshair", "path": "vf/contracts/",
         "serves_properties": [c["property_id"] for c in CHECKS if c.get("engine") == "C"],
         "kind_free_text": "CrossHair (z3-backed symbolic execution of Python) on integer helpers"},
        {"name": "bmc", "path": "vf/bmc.py",
         "serves_properties": [c["property_id"] for c in CHECKS if c.get("engine") == "D"],
         "kind_free_text": "bounded model checking (z3) of schedules / crash points over a program extracted from the real code"},
    ],
    "checks": [],
    "notes": NOTES,
    "not_applicable": NOT_APPLICABLE,
}
for c in CHECKS:
    pid = c["property_id"]
    man["checks"].append({
        "property_id": pid,
        "quick_cmd": f"./vcheck {pid} --tier quick",
        "thorough_cmd": f"./vcheck {pid} --tier thorough",
        "evidence_file": f"/verif/evidence/{pid}.json",
        "replay_cmd_template": f"./vcheck {pid} --replay {{path}}",
        "engine": {"A": "symcore+frontA", "B": "jaxpr-interp", "C": "crosshair", "D": "bmc"}[c.get("engine", "A")],
        "level_claimed": {"category": c.get("category", "other"), "text": c["text"], "design_ref": c.get("design_ref", "DESIGN.md section 4")},
        "level_note": c["note"],
        "technique": c["technique"],
    })
json.dump(man, open(os.path.join(os.path.dirname(HERE), "MANIFEST.json"), "w"), indent=1)
try:
    import jsonschema
    jsonschema.validate(man, json.load(open("/root/.vp/MANIFEST.schema.json")))
    print("MANIFEST.json valid;", len(man["checks"]), "checks,", len(NOT_APPLICABLE), "not applicable")
except ImportError:
    print("written (jsonschema not available for validation)")
