#!/bin/bash
# usage: tools/seed_eval.sh <Cxx> <worktree with the change applied> [tier]
# 1. demo fails with the change, passes without  2. runs ./vcheck <Cxx> against the changed tree (VERIF_REPO)
id=$1; wt=$2; tier=${3:-quick}
cd "$wt" || exit 9
git diff -- nifty > /tmp/seed_$id.diff
[ -s /tmp/seed_$id.diff ] || { echo "no change in $wt"; exit 9; }
echo "== patch: $(git diff --stat -- nifty | tail -1)"
PYTHONPATH=$wt timeout 600 /venv/bin/python demo_$id.py >/tmp/seed_demo_$id.with 2>&1; echo "demo WITH change: exit=$?"
git apply -R /tmp/seed_$id.diff || exit 9
PYTHONPATH=$wt timeout 600 /venv/bin/python demo_$id.py >/tmp/seed_demo_$id.without 2>&1; echo "demo WITHOUT change: exit=$?"
git apply /tmp/seed_$id.diff || exit 9
cd /verif
VERIF_REPO=$wt ./vcheck $id --tier $tier 2>&1 | grep "^VIOLATION\|^  scenario\|tier=\|^HARNESS\|^KNOWN" | cut -c1-260 | head -${SEED_LINES:-8}
