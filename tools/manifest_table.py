"""Source of truth for MANIFEST.json (run tools/mkmanifest.py after editing)."""
TECH_A = "symbolic execution of the real nifty.cl code on object arrays of z3 reals + SMT (z3 NRA) refutation of each negated obligation, counterexamples replayed in float64"
NOTE_A = ("Exact real arithmetic (no IEEE effects); bounds on sizes/depths as listed in the evidence file; stubs listed in "
          "evidence.coverage.stubs; trusted: z3 4.8.12/5.1, NumPy object-array dispatch, the harness oracle.")

TECH_B = ("symbolic interpretation of the jax.make_jaxpr IR of the real nifty.re functions over z3 reals (JAX itself applies AD / "
          "linear_transpose; data movement by index tracing through JAX) + SMT (z3 NRA) refutation of each negated obligation, "
          "counterexamples replayed on the real function in float64")
NOTE_B = ("Exact real arithmetic (no IEEE effects); shapes as listed in the evidence; exp/log/... uninterpreted with axiom instances; "
          "trusted: z3, JAX tracing, the jaxpr interpreter (validated against the real functions on float inputs), the harness oracle.")

CHECKS = [
    {"property_id": "C01", "engine": "A", "category": "other", "technique": TECH_A, "note": NOTE_A,
     "text": "Bounded symbolic verification: for every enumerated operator expression tree (depth <= 2 over a leaf library, "
             "single / product / multi domains of <= 4 pixels, real and complex) and every advertised mode, z3 refutes "
             "'apply(x,mode) differs from the dense matrix expression applied to x' for ALL field values, diagonal entries, "
             "matrix entries and scalar factors, on every path through the simplification code; capability masks are checked "
             "against the composition rule. Bounded (tree shape/size), hence not a proof.",
     "design_ref": "DESIGN.md 4/C01"},
    {"property_id": "C02", "engine": "A", "category": "other", "technique": TECH_A, "note": NOTE_A + " Operators backed by C++/SciPy kernels (SHT, NFFT, LOS) are outside the claim.",
     "text": "Bounded symbolic verification per operator class and constructor configuration (26 classes, 116 configurations "
             "x real/complex): for ALL inputs z3 refutes violations of adjointness, linearity (symbolic scalar), "
             "inverse-where-advertised and of the class's documented action formula; domains and input immutability checked "
             "on every path. Bounded by the enumerated configurations and domain sizes (<= 16 pixels).",
     "design_ref": "DESIGN.md 4/C02"},
    {"property_id": "C06", "engine": "A", "category": "other", "technique": TECH_A, "note": NOTE_A,
     "text": "Bounded symbolic verification of Field/MultiField arithmetic, dot products (conjugate-linear in the first "
             "argument), comparisons and every contraction (sum, prod, integrate, mean, var, std, weight and the s_* "
             "variants) over every subset of sub-domains on uniform, 2-D, non-uniform (PowerSpace) and unstructured "
             "domain tuples, real and complex: z3 refutes any difference from explicit volume-weighted index sums for ALL "
             "field values; domain-mismatch rejection on every path. Bounded by domain sizes (<= 8 pixels).",
     "design_ref": "DESIGN.md 4/C06"},
    {"property_id": "C03", "engine": "A", "category": "other", "technique": TECH_A + "; oracle = independent dual-number evaluation with a hand-written derivative table",
     "note": NOTE_A + " Transcendental functions are uninterpreted with the minimal axiom instances printed in the evidence.",
     "text": "Bounded symbolic verification: for every enumerated operator expression tree (all 24 point-wise functions on "
             "their valid ranges, products, sums, quotients, powers, vdot, sum, scaling, diagonal operators, key "
             "extraction; depth <= 3, 2 pixels, 1-2 keys, real and holomorphic-complex) z3 refutes for ALL inputs and "
             "directions: value(Linearization) != plain value, Jacobian(dx) != true directional derivative, "
             "<y,J dx> != <J^H y,dx>. Bounded by tree set and size.",
     "design_ref": "DESIGN.md 4/C03"},
    {"property_id": "C11", "engine": "A", "category": "other", "technique": TECH_A + "; oracle = documented -log pdf on dual numbers and closed-form Fisher matrices",
     "note": NOTE_A + " log/exp/arctan uninterpreted (axiom instances in evidence); integer data sets are concrete.",
     "text": "Bounded symbolic verification of all eight classic likelihood energies and their scaled, model-composed "
             "(linear, exp), summed, Hamiltonian and sample-averaged versions (86 scenarios, 2 pixels): for ALL parameter "
             "values in the support, data and directions z3 refutes value != documented negative log-probability, "
             "gradient != exact derivative, metric(dx) != closed-form Fisher information, and J^T J != metric for "
             "get_transformation().",
     "design_ref": "DESIGN.md 4/C11"},
    {"property_id": "C04", "engine": "A", "category": "other", "technique": TECH_A + "; oracle = the original operator on the full input",
     "note": NOTE_A + " Known finding (known_findings.txt): StandardHamiltonian drops the constant keys' prior energy.",
     "text": "Bounded symbolic verification: for 46 multi-key operator/energy expressions (products, sums, chains, linear "
             "Sum/ChainOperators on partial domains, multi-key targets, Gaussian/Poisson/variable-covariance likelihoods, "
             "likelihood sums/scalings, StandardHamiltonian) and EVERY non-empty proper subset of keys held constant, z3 "
             "refutes for ALL inputs, constants and directions any difference between the specialised operator and the "
             "original in value, Jacobian, adjoint Jacobian and metric block; make_partial_var has zero adjoint Jacobian on "
             "constant keys; EnergyAdapter(constants=...) has no gradient component on constant keys and at() keeps them.",
     "design_ref": "DESIGN.md 4/C04"},
    {"property_id": "C05", "engine": "A", "category": "other", "technique": TECH_A + "; the optimiser itself runs concretely on float leaf data, original and optimised operators are then compared symbolically",
     "note": NOTE_A,
     "text": "Bounded symbolic verification: for 18 hand-written and 40 (quick) / 400 (thorough) seeded random operator DAGs "
             "(repeated leaves, repeated and nested repeated subtrees, shared operator objects, partially equal chains, "
             "multi-key targets; <= 3 leaves, <= 8 inner nodes) the real optimise_operator runs unmodified and z3 refutes "
             "for ALL inputs and directions any difference between optimised and original operator in value, Jacobian and "
             "adjoint Jacobian; domain and target must agree; any exception of the optimiser is a violation.",
     "design_ref": "DESIGN.md 4/C05"},
    {"property_id": "C10", "engine": "A", "category": "other", "technique": TECH_A + "; obligations that contain rounded float constants (1/bin volume) are compared coefficient-wise with relative slack 1e-9",
     "note": NOTE_A + " Bin membership is taken from the real PowerSpace.pindex (geometry itself: C08).",
     "text": "Bounded symbolic verification on concrete harmonic RG partners (1-D, 2-D; natural, custom and linear binnings; "
             "single space and first/middle/last sub-space of product domains): for ALL spectra and fields z3 / the rewriter "
             "refute: distributed value != value of the mode's bin, adjoint != sum over the bin, power_analyze != bin average "
             "of |f|^2 (real, complex, with phase information, two sub-spaces at once), power_analyze(f) != P whenever |f|^2 "
             "is the distributed P, create_power_operator (Field and callable spectra) != diagonal of the distributed spectrum.",
     "design_ref": "DESIGN.md 4/C10"},
    {"property_id": "C13", "engine": "A", "category": "other", "technique": TECH_A + "; the RNG is a nondeterministic stub (mean + std*xi), sample matrices are read off by linearity and T T^H == A is decided by z3",
     "note": NOTE_A + " Statistical quality of NumPy's generator is outside the claim.",
     "text": "Bounded symbolic verification of draw_sample for ScalingOperator, DiagonalOperator (all mode flips, partial-space "
             "diagonals), SandwichOperator (matrix / diagonal / scaling buns, nested flips), BlockDiagonalOperator, makeOp on "
             "multi-fields, OperatorAdapter, SumOperator and SamplingEnabler (real CG, n = 1), real and complex sampling dtypes, "
             "forward and inverse draws: samples are linear in the white noise with zero mean and z3 refutes T T^H != A (A^-1) for "
             "ALL positive operator data; every refusal clause (no dtype, non-positive/complex data, non-invertible cases) must raise.",
     "design_ref": "DESIGN.md 4/C13"},
    {"property_id": "C14", "engine": "A", "category": "other", "technique": TECH_A + "; all feasible paths of the real CG loop and controllers explored by path replay, quotients named by fresh variables (q*b == a)",
     "note": NOTE_A + " Bounded: n <= 2 (3 thorough), iteration limits <= 3.",
     "text": "Bounded symbolic verification of ConjugateGradient, QuadraticEnergy, the iteration controllers and InversionEnabler on a "
             "symbolic positive definite operator (diagonal n<=2, thorough: n=3 and dense 2x2), rhs, start, tolerances, positive "
             "preconditioner, real/complex: on EVERY feasible path z3 proves energy.value/gradient equal 1/2 x^H A x - Re b^H x and "
             "A x - b recomputed from the returned position, status is never ERROR, and CONVERGED before the iteration limit "
             "implies the controller's criterion for that gradient (or a vanishing residual); one controller object re-used "
             "for consecutive solves included.",
     "design_ref": "DESIGN.md 4/C14"},
    {"property_id": "C16", "engine": "A", "category": "other", "technique": TECH_A + "; the energy is an UNINTERPRETED function (fresh symbol per evaluation + congruence), all feasible paths of the real line search explored",
     "note": NOTE_A + " Bounded by the iteration limits passed to LineSearch (max_iterations <= 3, max_zoom_iterations = 1; deeper zooms best effort in thorough).",
     "text": "Bounded symbolic verification of LineSearch (perform_line_search, _zoom, _quadmin, _cubicmin), SteepestDescent / "
             "RelaxedNewton (DescentMinimizer.__call__) and L_BFGS vs VL_BFGS against an uninterpreted energy: for EVERY energy "
             "function, start, direction, initial step and f_{k-1}, on every feasible path that reports success z3 proves both "
             "strong Wolfe conditions for the returned point (with the code's own c1, c2 and with non-default ones); energies "
             "handed to the controller never increase; L_BFGS and VL_BFGS directions coincide for any history with s.y > 0.",
     "design_ref": "DESIGN.md 4/C16"},
    {"property_id": "C19", "engine": "A", "category": "other", "technique": TECH_A + "; oracle = explicit sample average of the full Hamiltonian evaluated at every full sample",
     "note": NOTE_A + " Classic driver only; the JAX kl_value_and_grad/kl_metric functions are outside this check. Known finding: the KL value lacks the prior energy of constant keys (root cause: C04 finding).",
     "text": "Bounded symbolic verification of SampledKLEnergyClass on ResidualSampleLists of symbolic residuals (1-3 samples, "
             "mirrored pairs, 2-3 keys, every constants x point-estimates split): for ALL means, residuals, data and directions z3 "
             "refutes value, gradient and metric differing from the explicit sample average of the Hamiltonian (non-constant "
             "block); constants are absent from the position and untouched by at(), at() keeps the residuals.",
     "design_ref": "DESIGN.md 4/C19"},
    {"property_id": "C12", "engine": "B", "category": "other", "technique": TECH_B, "note": NOTE_B + " Known finding: Categorical declares the label shape as lsm_tangents_shape.",
     "text": "Bounded symbolic verification on the compiler IR: for Gaussian (3 noise configurations), StudentT, Poissonian, "
             "VariableCovarianceGaussian, VariableCovarianceStudentT and Categorical, each constructed inside the trace from symbolic "
             "data / noise / degrees of freedom, z3 refutes for ALL primals, tangents and cotangents: metric != L(R(t)), <R t,c> != "
             "<t,L c>, metric != closed-form Fisher information, energy != documented -log pdf, L != vjp(transformation), J^T J != "
             "metric; the same through amend (affine, exp models), LikelihoodSum and freeze. Shapes (1,), (2,), (2,2).",
     "design_ref": "DESIGN.md 4/C12"},
    {"property_id": "C29", "engine": "B", "category": "other", "technique": TECH_B, "note": NOTE_B,
     "text": "Bounded symbolic verification on the compiler IR of wiener_process, ornstein_uhlenbeck_process, integrated_wiener_process "
             "(+/- asperity), scalar/discrete_gauss_markov_process and the process models: with a separate symbol per step size "
             "(non-uniform grids), constant or per-step sigma/gamma, symbolic asperity and initial state, the output is affine in "
             "the excitations and z3 refutes T T^T != continuous-time covariance at the grid points (2-3 steps, 4 thorough); the "
             "generic generator equals the explicit recursion for every constant/per-step drift x diffusion combination and "
             "reproduces the specialised processes.",
     "design_ref": "DESIGN.md 4/C29"},
    {"property_id": "C33", "engine": "B", "category": "other", "technique": TECH_B + "; the mapped function of smap/lmap/vmap is an uninterpreted JAX primitive (fresh symbols + congruence)", "note": NOTE_B,
     "text": "Bounded symbolic verification on the compiler IR: Vector operators and tree_math functions (arithmetic with scalar "
             "broadcasting, conj/real/imag/abs, vdot, dot/@, norm 1/2/inf, sum/max/min, where, zeros/ones_like, size, stack/unstack/"
             "mean) on nested dict/tuple/list structures (<= 5 elements, real and complex) equal the same operation on the "
             "concatenated flat array for ALL leaf values; smap and lmap equal jax.vmap and slice-wise application for an "
             "ARBITRARY (uninterpreted) mapped function with 1-2 inputs and every in_axes/out_axes in {None,0,1} (batch 3).",
     "design_ref": "DESIGN.md 4/C33"},
    {"property_id": "C32", "engine": "B", "category": "other", "technique": TECH_B + "; the potential gradient is an uninterpreted JAX primitive; jax.random with concrete keys is run by JAX and the uniform draw recomputed from the key",
     "note": NOTE_B + " Partial: leapfrog reversibility/volume preservation, the Metropolis rule and the NUTS merge rule; NUTS tree building as a whole and the invariance/moments of long chains are NOT claimed.",
     "text": "Bounded symbolic verification on the compiler IR: leapfrog_step with an ARBITRARY potential gradient is time-reversible "
             "(flip o Phi^k o flip o Phi^k = id, k <= 3, dims <= 2) and, for gradient fields with symmetric Jacobian, volume preserving "
             "and symplectic (jax.jacfwd through the real step); generate_hmc_acc_rej accepts iff u < min(1, exp(H - H')) and returns "
             "the momentum-flipped proposal or the initial state; merge_trees selects the new sub-tree's candidate with probability "
             "w_new/(w_new+w_cur) (or min(1, w_new/w_cur) when biased), keeps the right end points and adds the weights.",
     "design_ref": "DESIGN.md 4/C32"},
    {"property_id": "C30", "engine": "B", "category": "other", "technique": TECH_B + "; classic operators by symbolic execution on object arrays (front end A)",
     "note": NOTE_B + " Partial: normal, log-normal, uniform and Laplace transforms; inverse-gamma/gamma/beta and interpolated transforms (tabulated SciPy ppf) are NOT claimed. The error function is uninterpreted; log_ndtr and SciPy's norm/laplace objects are stubbed with their documented contracts.",
     "text": "Bounded symbolic verification: JAX normal_prior/invprior, lognormal_prior/invprior, uniform_prior (6 concrete bound pairs "
             "incl. unit-width intervals and int bounds, plus traced bounds), laplace_prior, the NormalPrior/LogNormalPrior/UniformPrior "
             "models, classic lognormal_moments, UniformOperator and LaplaceOperator: with p = ndtr(xi) z3 refutes for ALL xi and "
             "parameters T(xi) != closed-form quantile of the target at p, values outside the support, non-monotonicity and "
             "inverse(T(xi)) != xi.",
     "design_ref": "DESIGN.md 4/C30"},
    {"property_id": "C31", "engine": "B", "category": "other", "technique": TECH_B + "; the index is a vector of z3 Int variables constrained to the level's range, so one query covers every index of a level",
     "note": NOTE_B + " Partial: regular, open (padded), product and flattened (serial/nest) grids; HEALPix and logarithmic radial grids are NOT claimed.",
     "text": "Bounded symbolic verification on the compiler IR with an integer sort (XLA truncating div/rem, floor div/mod, clipping "
             "encoded exactly): for 9 grid configurations (regular 1-D/2-D, open with paddings 0-2, product; each also flattened in "
             "serial and nest ordering where supported), at every level and for ALL indices of the level: children lie in the next "
             "level, are distinct and parent(child) == i; every fine index j is among children(parent(j)) (partition); flat <-> n-d "
             "round trips and flat children == flattened n-d children; coord2index(index2coord(i)) == i (open grids); neighbourhoods "
             "wrap / stay inside; refinement never creates volume.",
     "design_ref": "DESIGN.md 4/C31"},
    {"property_id": "C15", "engine": "B", "category": "other", "technique": TECH_B + "; the eager solver is executed as real Python on object arrays (vector primitives of its module replaced), all feasible paths explored; while loops unrolled to maxiter with an unwinding obligation",
     "note": NOTE_B + " Bounded: dimension <= 2, maxiter <= 2 (3 thorough).",
     "text": "Bounded symbolic verification of nifty.re _cg (eager) and _static_cg (compiled): for positive definite systems (n<=2), "
             "every convergence criterion (resnorm, absdelta, tol/atol), miniter 0-2 and maxiter 1-2, on every eager path the compiled "
             "variant returns the same x, info and nit; info == 0 implies the residual criterion for the recomputed residual; info != 0 "
             "only at the iteration limit; the quadratic energy never increases. With negative curvature along the first direction "
             "(_raise_nonposdef=False) both variants strictly decrease the energy with a step along steepest descent; with "
             "_raise_nonposdef=True eager raises and compiled reports -1.",
     "design_ref": "DESIGN.md 4/C15"},
    {"property_id": "C17", "engine": "B", "category": "other", "technique": TECH_B + "; the eager minimiser is executed as real Python on object arrays (vector primitives of its module replaced), the OBJECTIVE is uninterpreted (fresh f, grad, symmetric Hessian symbols per distinct point + congruence), all feasible paths explored; the compiled variant is interpreted in fork mode (conditions become path decisions)",
     "note": NOTE_B + " Bounded: one outer Newton iteration, dimension 1 (2 thorough), inner CG <= 2 iterations, all 9 line-search trials. _trust_ncg outside the claim.",
     "text": "Bounded symbolic verification of nifty.re _newton_cg (eager) and _static_newton_cg (compiled) against an arbitrary "
             "objective: on every path the returned energy does not exceed the start energy and belongs to an evaluated point; with "
             "negative curvature along a non-zero gradient every trial point lies on the ray x0 - s g (s > 0), the iteration does not "
             "abort when a trial lowers the energy and an accepted lowering trial gives a strictly lower result; the compiled variant "
             "returns the same x, energy and status as the eager one on every path (thorough).",
     "design_ref": "DESIGN.md 4/C17"},
    {"property_id": "C23", "engine": "A", "category": "other", "technique": "symbolic execution of the real nifty.cl.utilities.allreduce_sum/_send/_recv/_bcast on every task of a simulated synchronous-send MPI world: task count, per-task summand counts and the sender matched by a source-unspecific receive are z3 integers concretised by solver-decided forking; summands are free-magma terms (uninterpreted non-associative +); shareRange is checked for fully symbolic integers by z3 (NIA)",
     "note": "Bounds: <= 3 tasks / 5 summands quick, <= 5 tasks / 9 summands thorough; shareRange up to 10^6. The mpi4py communicator is replaced by a model (synchronous sends, FIFO per pair, collectives as barriers): the real MPI progress engine is outside the claim.",
     "text": "Bounded symbolic verification: for every feasible (tasks, distribution of summands incl. empty tasks, message matching) "
             "each task's allreduce_sum returns exactly the term the single-process call returns (scalars, ndarrays, Fields, "
             "MultiFields), no task remains blocked when sends are synchronous, all tasks enter the same collectives; shareRange tiles "
             "[0, nwork) in order with sizes differing by at most one for ALL nwork, nshares, share within the bound.",
     "design_ref": "DESIGN.md 4/C23"},
    {"property_id": "C07", "engine": "A", "category": "other", "technique": "symbolic execution of the real nifty.cl Field/AnyArray API over bounded operation histories: constructor, handle derivations and mutation attempts are z3 integers concretised by solver-decided forking, field entries and written values are z3 reals; z3 refutes 'entries differ from those given at construction' after every step for ALL values; counterexamples replayed on float64 arrays",
     "note": "Bounds: 3 entries, 1 round with a derivation chain <= 1 (quick); chain <= 2 and 2 rounds (thorough). Re-enabling flags.writeable on the source array and memory aliased by other arrays before construction are outside the claim.",
     "text": "Bounded symbolic verification: for 9 ways of constructing a field (incl. zero-dimensional source arrays) and every history [field or source array -> up to 2 of 25 "
             "handle derivations (val, raw, asnumpy, views, slices, reshape, astype(copy=False), re-wrapping ...) -> one of 21 mutation "
             "attempts (item assignment, in-place operators with array and scalar operands, fill, copyto, put, ufunc out=)], "
             "the field's entries, its public accessors and makeOp/Adder/GaussianEnergy built from it are unchanged for ALL entry "
             "values and written values.",
     "design_ref": "DESIGN.md 4/C07"},
    {"property_id": "C22", "engine": "A", "category": "other", "technique": "symbolic execution of the real nifty.cl sample-list and sampled-KL code on every task of a simulated synchronous MPI world (task and sample counts = z3 integers concretised by solver-decided forking) over fields of z3 reals that carry their floating-point operation tree: z3 refutes any difference from the single-process result for ALL values, identity of operation trees decides bit-identity; plus a concrete differential run of the real draw_samples per explored configuration",
     "note": "Bounds: <= 3 tasks / 4 samples quick, <= 7 tasks / 8 samples thorough, 2-3 field entries. mpi4py replaced by the C23 world model. The draw_samples part is a concrete float64 differential run (not solver-decided) and is labelled so in the evidence. Whole optimize_kl runs are outside the claim.",
     "text": "Bounded symbolic verification: for every feasible (tasks, samples, mirrored or not; more tasks than samples included) each "
             "task's n_samples, average(), average(op), sample_stat(op), iterator(op) sequence and SampledKLEnergy value, gradient "
             "and metric action equal the single-process results for ALL field values and are computed by the same operation tree "
             "(bit-identical); draw_samples (linear and geometric, real CG) yields the bit-identical sample list and random state "
             "on 1..T tasks.",
     "design_ref": "DESIGN.md 4/C22"},
    {"property_id": "C21", "engine": "B", "category": "other", "technique": TECH_B + "; the classic random module is executed for real over bounded API histories whose choices are z3 integers concretised by solver-decided forking, next to a reference model (differential, bit-exact generator states)",
     "note": NOTE_B + " Bounds: 2-3 samples, 2 parameters; histories of 3 (5 thorough) operations, nesting 2 (3). Bit-identity across processes is not modelled (no hidden inputs are encoded).",
     "text": "Bounded symbolic verification: the sampled KL value, gradient and metric action of nifty.re (_kl_vg, _kl_met) traced with "
             "map = smap / lmap / vmap, jitted or not, are equal for ALL positions, samples, tangents and Gaussian-likelihood parameters "
             "(identity / exp / square model) and equal the explicit sample average.  Every history of the nifty.cl.random API within "
             "the bound (draws, nested Context by seed or SeedSequence left normally or by an exception, spawn_sseq) leaves the "
             "previous generator object current with its previous state, and draws inside a context are bit-identical to a fresh "
             "generator with the context's seed.",
     "design_ref": "DESIGN.md 4/C21"},
    {"property_id": "C36", "engine": "A", "category": "other", "technique": TECH_A + "; every `entry == 0` test of the classic code is a path decision; the JAX diagnostic is traced (jaxpr) and interpreted over z3 reals (engine B)",
     "note": NOTE_A + " Bounds: 1-2 samples (3 thorough), 1-2 entries per key. NaN entries, the std columns and the formatted table are outside the claim.",
     "text": "Bounded symbolic verification: nifty.cl.extra.minisanity on symbolic SampleLists and Gaussian likelihoods (single / multi "
             "domain, named or not): on every path (= combination of vanishing entries) reduced chi^2 and mean equal the sample-averaged "
             "mean of squared / plain normalised residuals over the used entries for ALL values, #dof / #ignored are the counts, the "
             "normalised residual is N^(-1/2)(model(s) - d).  nifty.re reduced_residual_stats (smap/lmap/vmap, real and complex): "
             "the same formulas with #used = size (2 size for complex), hence agreement of both diagnostics on the same residual values.",
     "design_ref": "DESIGN.md 4/C36"},
    {"property_id": "C26", "engine": "A", "category": "other", "technique": TECH_A + "; task counts, list lengths and the save / re-save / load history are z3 integers concretised by solver-decided forking and executed on the simulated MPI world; the persistence and HDF5 parts run on float64 fields and the real file system (concrete differential per explored history)",
     "note": NOTE_A + " Bounds: <= 3 tasks / 3 samples quick, <= 5 / 4 thorough. Statistics compared as polynomials up to 1e-9 per coefficient (the code multiplies by rounded constants 1./k). Crashes during save belong to C25.",
     "text": "Bounded symbolic verification: sample_stat mean / variance and average(op) of SampleList and ResidualSampleList on 1..T "
             "tasks equal the arithmetic mean and the unbiased variance of the operator outputs for ALL field values; every history "
             "save(T_save) -> optional shorter overwrite-save(T_resave) -> load(T_load) returns exactly the samples (and mean) last "
             "saved, in order, without stale samples; save_to_hdf5 exports read back with h5py hold the samples, their arithmetic mean "
             "and unbiased standard deviation.",
     "design_ref": "DESIGN.md 4/C26"},
    {"property_id": "C18", "engine": "B", "category": "other", "technique": TECH_B + "; white noise is a nondeterministic stub (symbolic / unit arrays), the linear solver is injected through the library's own `cg` parameter as an exact jnp solve; the geoVI update runs the compiled Newton-CG in fork mode",
     "note": NOTE_B + " Bounds: signal dimension 2, data dimension 1-2, one Newton iteration. The classic draw_samples distribution is not claimed here (task independence: C22; sampling operators: C13). Statistical convergence of moments is outside.",
     "text": "Bounded symbolic verification of nifty.re sampling: for Gaussian and Poissonian likelihoods behind R exp(x) the linear map "
             "white noise -> residual of draw_linear_residual has covariance (1 + J^T M J)^-1 at the expansion point and zero mean for "
             "ALL R, data, noise and expansion points; point-estimated keys get exactly zero residuals and the others the covariance of "
             "the frozen model; OptimizeVI.draw_linear_samples returns exact +- pairs whose average is the expansion point; for linear "
             "models the geoVI objective and gradient vanish at the linear sample and one Newton-CG iteration returns it unchanged.",
     "design_ref": "DESIGN.md 4/C18"},
    {"property_id": "C20", "engine": "B", "category": "other", "technique": TECH_B + "; linear solver injected through draw_linear_kwargs['cg'] (exact jnp solve; thorough: the real static_cg for dim iterations), white noise as symbolic stub; classic WienerFilterCurvature executed on object arrays (engine A)",
     "note": NOTE_B + " Bounds: signal dimension 2, data dimension 1-2. Convergence of sample covariances with the sample number, MAP/MGVI runs through optimize_kl and the classic curvature's CG inverse (C14) are outside the claim.",
     "text": "Bounded symbolic verification: for ALL linear models R (1x2, 2x2), Gaussian noise and data the signal-space and the "
             "data-space result of nifty.re.wiener_filter_posterior satisfy (1 + R^T N^-1 R) m = R^T N^-1 d (the exact posterior mean), "
             "its samples are exact +- pairs around m solving the sampling equation for symbolic white noise, the noise -> residual "
             "map has covariance (1 + R^T N^-1 R)^-1; the classic WienerFilterCurvature applied to a field is R^T N^-1 R x + S^-1 x.",
     "design_ref": "DESIGN.md 4/C20"},
    {"property_id": "C25", "engine": "A", "category": "other", "technique": "crash-point exploration of the real classic optimize_kl: the index of the file-system mutation at which the run is killed and the kill variant (before the operation / after create-truncate) are z3 integers concretised by solver-decided forking; each path executes the real run, kills it (vf.crash), restarts it with resume=True in a fresh process state and compares bit for bit with the uninterrupted run",
     "note": "Concrete float64 runs (the solver explores the crash-point space only). Bounds: 3 global iterations, MAP / MGVI / mixed schedules, strategies 'all' and 'latest', one crash per history, crash points = every open-for-write / remove / replace below the output directory. Known findings for save_strategy='latest' (known_findings.txt).",
     "text": "Bounded verification: for every crash point of the run the restarted run finishes and returns the bit-identical final "
             "samples and mean (strategy 'all': holds after fix 728a40a; strategy 'latest': known findings, in-place overwrite).",
     "design_ref": "DESIGN.md 4/C25"},
    {"property_id": "C27", "engine": "A", "category": "other", "technique": "symbolic configuration of the real classic optimize_kl: boolean options are objects whose truth value is decided by solver-checked forking when the driver inspects them, per-iteration options are passed in their documented callable form and return z3 integers concretised when the driver asks for them; an option not inspected on a path stays symbolic, so the explored paths cover every combination of option values in the bound; each path is a concrete float64 run checked against the documented behaviour of its configuration",
     "note": "Concrete float64 runs (the solver explores the configuration space only). Bounds: 2 (3) global iterations, n_samples in {2,0,1}, constants {[], [a]}, point_estimates {[], [b], [a]}, transitions {None, average}, fresh_stochasticity / terminate_callback per iteration, inspect_callback arities, sanity_checks, dry_run, return_final_position; output directory / save strategy / plotting / export enumerated by scenarios. MPI, geoVI sampling, devices, resume (C25) and the numerical quality of the result are outside the claim.",
     "text": "Bounded verification: for every combination of the option values in the bound the run completes, returns the documented "
             "form, calls the callbacks as documented, keeps constants, draws no samples for point estimates, reuses the random stream "
             "exactly when fresh_stochasticity is False, writes the files of the save strategy, and leaves the global RNG stack holding "
             "the same seed-sequence objects (holds after fixes 4c86fdc, 4d7f886).",
     "design_ref": "DESIGN.md 4/C27"},
    {"property_id": "C28", "engine": "A", "category": "other", "technique": "the real classic CorrelatedFieldMaker (front end A, object arrays; Hartley kernel replaced by its DFT contract) and the real JAX CorrelatedFieldMaker (jaxpr) are executed on symbolic hyperparameter latents (z3 reals; exp uninterpreted with positivity / monotonicity axioms, sqrt algebraic); the field is affine in the harmonic excitations and is compared / analysed column by column (xi = 0, xi = e_j); obligations are discharged by z3 (NRA)",
     "note": "Bounds: non-parametric amplitude (power parametrisation for the agreement and the classic variance, power and amplitude parametrisation for the JAX variance; with / without flexibility and asperity) and Matern amplitude (agreement; JAX variance with renormalize_amplitude; classic variance = known finding), grids 4, 6, 8, 2x4, 3x3, 4x4 (4x6 thorough), products of two spaces, concrete distances and prior parameters, both Hartley conventions for the agreement. exp / log applications and square roots whose arguments agree as rational functions up to 1e-9 of their largest coefficient are identified (differently rounded float constants of the two code bases), exp(a + r) is split when exp(a) exists; comparisons are relative 1e-9. HEALPix spaces, total_N > 0 and correlated_fields_simple are outside the claim.",
     "text": "Bounded symbolic verification: for ALL hyperparameter latents the classic and the JAX model (non-parametric and Matern) return the same offset and the same "
             "response to every harmonic excitation; the expected spatial variance about the spatial mean equals total_fluctuation^2 and, for "
             "product spectra, the slice / average variances equal slice_fluctuation^2 / average_fluctuation^2 on every grid of the bound (non-parametric amplitude).  Known finding: the classic Matern amplitude's total_fluctuation is not the field's standard deviation.",
     "design_ref": "DESIGN.md 4/C28"},
    {"property_id": "C24", "engine": "B", "category": "other", "technique": "crash-point exploration of the real nifty.re optimize_kl: the index of the file-system mutation at which the run is killed and the kill variant are z3 integers concretised by solver-decided forking; each path executes the real run, kills it (vf.crash), restarts it with resume=True and compares samples and optimisation state with the uninterrupted run",
     "note": "Concrete float64 runs (the solver explores the crash-point space only). Bounds: 3 iterations, 2 keys, sample modes linear_resample / linear_sample (quick), nonlinear_resample / nonlinear_update (thorough), jit off, one crash per history.",
     "text": "Bounded verification: for every crash point of the run (before each open-for-write / replace below odir and after each "
             "create/truncate) the restarted run finishes and returns bit-identical position and residuals, the same iteration counter "
             "and PRNG key (holds after fix 700b56c: last.pkl is replaced atomically).",
     "design_ref": "DESIGN.md 4/C24"},
    {"property_id": "C35", "engine": "A", "category": "other", "technique": TECH_A + "; geometry (pixels, weights) is computed by the real constructors on concrete positions, the compiled sparse mat-vec is replaced by explicit sums over the operator's own COO triplets, the field is symbolic",
     "note": NOTE_A + " Identities are decided as polynomial identities with a relative coefficient tolerance (1e-9; 1e-5 for the float32 LOS weights). NFFT/Gridder (ducc C++), nifty.re.extra.sampling_los, parallax LOS and symbolic positions are outside the claim; masks and zero padding are covered by C02.",
     "text": "Bounded symbolic verification: LinearInterpolator (1-3 D; inside, on-grid, negative and wrapped positions) is exact for "
             "multilinear functions with symbolic coefficients, periodic, reproduces constants and is adjoint-consistent; "
             "RegriddingOperator interpolates linearly between the two bracketing source pixels; LOSResponse of a symbolic piecewise "
             "constant field is the sum of pixel value x length of the line inside the pixel (axis-parallel and diagonal lines).",
     "design_ref": "DESIGN.md 4/C35"},
    {"property_id": "C09", "engine": "A", "category": "other", "technique": TECH_A + "; the compiled FFT kernels (ducc0, SciPy, XLA) are replaced by their contract (explicit DFT sums with exact twiddle factors, validated against the real kernels on float input in every run); nifty.re's hartley via the jaxpr front end",
     "note": NOTE_A + " Bounds: 1-D grids with 3-4 pixels, 2-D 2x4 / 4x2, concrete distances. The kernels themselves and the spherical-harmonic transforms (ducc0.sht) are outside the claim.",
     "text": "Bounded symbolic verification: for ALL field values the zero mode of FFTOperator / HartleyOperator applied to a "
             "position-space field is its integral (and vice versa), times / inverse_times / adjoint_times / adjoint_inverse_times "
             "are mutually consistent, the native and SciPy dispatch paths and nifty.re's hartley agree under both Hartley "
             "conventions and equal Re(FFT) -+ Im(FFT), and HarmonicSmoothingOperator is the identity for sigma = 0 and the Gaussian "
             "kernel in harmonic space otherwise (self-adjoint, integral preserving).",
     "design_ref": "DESIGN.md 4/C09"},
    {"property_id": "C34", "engine": "B", "category": "other", "technique": TECH_B + "; fork mode (every Lanczos breakdown decision is a path)",
     "note": NOTE_B + " The Lanczos-tridiagonalisation and the quadrature-exactness clauses are claimed (dimension 2, order = dimension; jnp.linalg.eigh replaced by the closed-form 2x2 eigendecomposition). Both ELBO estimators (ARPACK eigsh, host code) are NOT covered.",
     "text": "Bounded symbolic verification of nifty.re.num.lanczos.lanczos_tridiag for ALL symmetric 2x2 matrices and start vectors: T is "
             "symmetric tridiagonal, T[0,0] is the Rayleigh quotient of the normalised start vector, and on every path without "
             "breakdown the basis is orthonormal, T = Q A Q^T, trace(T) = trace(A), det(T) = det(A), i.e. T has the spectrum of A; "
             "stochastic_logdet_from_lanczos integrates the monomials x^0..x^3 exactly for ALL positive definite 2x2 tridiagonals "
             "(Gauss quadrature exact at order = dimension).",
     "design_ref": "DESIGN.md 4/C34"},
    {"property_id": "C08", "engine": "A", "category": "other", "technique": TECH_A + "; the float coercions of the domain constructors are redirected to the engine's reals so that grid distances and bin bounds stay symbolic, comparisons inside searchsorted / unique are path decisions; identity clauses by history exploration (choices = z3 integers)",
     "note": NOTE_A + " Bounds: 1-D grids up to 7 pixels, 2-D up to 3x4, 2-3 symbolic bin bounds. Unique k-lengths of multi-dimensional grids with unequal distances, LM/GL/HP geometry and the bin-bound helper functions are outside the claim.",
     "text": "Bounded symbolic verification: for ALL grid distances RGSpace volumes, extents, codomain distances and the k-length table "
             "are self-consistent, the 1-D unique k-lengths are strictly increasing and exactly the values of the table; for ALL "
             "distances and bin bounds a PowerSpace assigns every pixel to the bin its k-length falls into, refuses empty bins, and its "
             "bin volumes / bin k-lengths are the sums / averages over the member pixels; equal domain descriptions give the identical "
             "DomainTuple / MultiDomain object, also after pickling and for any key order.",
     "design_ref": "DESIGN.md 4/C08"},
]

ALL = [f"C{i:02d}" for i in range(1, 37)]
REASONS = {
    "C08_unused": "the domain classes coerce every geometry parameter to float64 NumPy arrays in their constructors and compute k-lengths, bins and volumes with arange / searchsorted / bincount / unique on those arrays: no symbolic input survives construction, so a solver would only re-evaluate concrete numbers; the cache-identity and pickling half of the property is object identity of concrete runs, which is decided by executing, not by a solver (volume-weighted contractions on these domains are covered by C06, harmonic volume factors by C09)",
}
claimed = {c["property_id"] for c in CHECKS}
NOT_APPLICABLE = [{"property_id": p, "reason": REASONS.get(p, "check not built yet in this session (see DESIGN.md build order); not claimed until its harness exists")}
                  for p in ALL if p not in claimed]
NOTES = ("Solver-based checking of the real code: see DESIGN.md. ./vcheck <id> creates the overlay venv lazily "
         "(vf/ensure_env.sh), imports nifty from $VERIF_REPO (default /repo) so the encoding is regenerated from the "
         "current working tree on every run. Exit 0 = held on everything explored, 1 = replayed violation, 2 = harness error.")
