#!/bin/bash
# usage: tools/mut.sh <Cxx> <file-relative-to-repo> <python-regex-old> <new> [vcheck args]
# applies one textual mutation to /repo, runs the check, reverts. Development tooling only.
prop=$1; file=$2; old=$3; new=$4; shift 4
cd /repo || exit 9
git diff --quiet || { echo "repo dirty"; exit 9; }
python3 - "$file" "$old" "$new" <<'PY'
import sys,re
f,old,new=sys.argv[1:4]
s=open(f).read()
n=len(re.findall(old,s))
if n!=1: print("MUTATION MATCHES",n); sys.exit(3)
open(f,'w').write(re.sub(old,new,s,count=1))
PY
rc=$?
if [ $rc -eq 0 ]; then
  git diff --stat | tail -1
  (cd /verif && ./vcheck $prop "$@" 2>&1 | grep -v "^  " | grep "VIOLATION\|tier=\|HARNESS" | cut -c1-200 | head -${MUT_LINES:-4})
fi
git checkout -q -- .
