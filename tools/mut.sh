#!/bin/bash
# usage: tools/mut.sh <Cxx> <file-relative-to-repo> <python-regex-old> <new> [vcheck args]
# applies one textual mutation to a scratch worktree of /repo (HEAD), runs the check against it
# (VERIF_REPO), removes the change. Development tooling only; never touches /repo itself.
prop=$1; file=$2; old=$3; new=$4; shift 4
WT=/var/tmp/mutrepo
if [ ! -d $WT ]; then git -C /repo worktree add -q --detach $WT HEAD || exit 9; fi
cd $WT || exit 9
git checkout -q --detach $(git -C /repo rev-parse HEAD) 2>/dev/null
git checkout -q -- .
python3 - "$file" "$old" "$new" <<'PY'
import sys,re
f,old,new=sys.argv[1:4]
s=open(f).read()
n=len(re.findall(old,s))
if n!=1: print("MUTATION MATCHES",n); sys.exit(3)
open(f,'w').write(re.sub(old,new,s,count=1))
PY
rc=$?
if [ $rc -eq 0 ]; then
  git diff --stat | tail -1
  (cd /verif && VERIF_REPO=$WT ./vcheck $prop "$@" 2>&1 | grep -v "^  " | grep "VIOLATION\|tier=\|HARNESS" | cut -c1-200 | head -${MUT_LINES:-3})
fi
git checkout -q -- .
