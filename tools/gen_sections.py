"""regenerates the as-built per-property sections of DESIGN.md from each module's META (usage: /verif/.venv/bin/python tools/gen_sections.py [ids])"""
import importlib, json, re, sys, textwrap
sys.path.insert(0, "/verif"); sys.path.insert(0, "/repo")
ids = sys.argv[1:] or ["C07","C08","C09","C17","C18","C20","C21","C22","C23","C24","C25","C26","C27","C34","C35","C36"]
titles = {}
for l in open("/verif/properties.jsonl"):
    d = json.loads(l); titles[d["id"]] = d["title"]
s = open("/verif/DESIGN.md").read()
def wrap(t, ind=""):
    return "\n".join(textwrap.wrap(t, 118, initial_indent=ind, subsequent_indent=ind + ("  " if ind.startswith("*") else "")))
for pid in ids:
    m = importlib.import_module(f"vf.props.{pid.lower()}")
    M = m.META
    sc_q = [k for k in m.scenarios("quick", 0)]
    sc_t = [k for k in m.scenarios("thorough", 0)]
    body = [f"### {pid} {titles[pid]} — as built (`vf/props/{pid.lower()}.py`)", ""]
    body.append(wrap(M["explanation"])); body.append("")
    body.append(wrap("*Real code executed:* " + "; ".join(M["functions_encoded"]) + "."))
    body.append(wrap("*Bounds:* " + "; ".join(f"{k}: {v}" for k, v in M["bounds"].items()) + f".  Scenarios: {len(sc_q)} quick, {len(sc_t)} thorough."))
    if M.get("stubs"):
        body.append(wrap("*Stubs (part of the claim):* " + "; ".join(M["stubs"]) + "."))
    if M.get("assumptions"):
        body.append(wrap("*Assumptions:* " + "; ".join(M["assumptions"]) + "."))
    body.append(wrap("*Outside the claim:* " + "; ".join(M["outside"]) + "."))
    body.append("")
    new = "\n".join(body) + "\n"
    mm = re.search(rf"^### {pid} .*?(?=^### |^## )", s, re.S | re.M)
    assert mm, pid
    s = s[:mm.start()] + new + s[mm.end():]
open("/verif/DESIGN.md", "w").write(s)
print("ok")
