#!/usr/bin/env python3
"""usage: seed_keep.py <Cxx> <worktree> <name> <detected_by: text>
copies patch/demo/meta of a confirmed seeded defect into /verif/seeded/<name>/ and removes the worktree"""
import json, os, shutil, subprocess, sys
pid, wt, name, detected = sys.argv[1:5]
dst = f"/verif/seeded/{name}"
os.makedirs(dst, exist_ok=True)
diff = subprocess.check_output(["git", "-C", wt, "diff", "--", "nifty"], text=True)
open(f"{dst}/patch.diff", "w").write(diff)
shutil.copy(f"{wt}/demo_{pid}.py", f"{dst}/demo.py")
meta = {}
try:
    meta = json.load(open(f"{wt}/meta_{pid}.json"))
except Exception as e:
    meta = {"note": f"agent meta unreadable: {e}"}
meta["property"] = pid
meta["confirmed_by_me"] = {
    "demo_with_change": "exit != 0 (tools/seed_eval.sh)",
    "demo_without_change": "exit 0",
    "tests": "agent-reported test runs (see tests_run); relevant test files re-run by me where noted in DESIGN.md",
    "how_to_apply": f"git -C /repo apply /verif/seeded/{name}/patch.diff ; ./vcheck {pid} ; git -C /repo checkout -- .",
}
meta["detected_by"] = detected
json.dump(meta, open(f"{dst}/meta.json", "w"), indent=1)
subprocess.call(["git", "-C", "/repo", "worktree", "remove", "--force", wt])
print("kept", dst)
